import logging
from typing import IO, Dict, List, Optional, Tuple, Union

import numpy as np
from mmcif.io.IoAdapterPy import IoAdapterPy
from scipy.spatial import KDTree

from rnapolis.common import ResidueAuth, ResidueLabel
from rnapolis.tertiary import BASE_ATOMS, Atom, Residue3D, Structure3D

logging.basicConfig(level=logging.INFO)
logger = logging.getLogger(__name__)


def read_3d_structure(
    cif_or_pdb: IO[str], model: Optional[int] = None, nucleic_acid_only: bool = False
) -> Structure3D:
    atoms, modified, sequence_by_entity, is_nucleic_acid_by_entity = (
        parse_cif(cif_or_pdb) if is_cif(cif_or_pdb) else parse_pdb(cif_or_pdb)
    )
    available_models = {atom.model: None for atom in atoms}
    atoms_by_model = {
        model: list(filter(lambda atom: atom.model == model, atoms))
        for model in available_models
    }
    if model is not None and model in available_models:
        atoms = atoms_by_model[model]
    else:
        atoms = atoms_by_model[list(available_models.keys())[0]]
    return group_atoms(
        atoms,
        modified,
        sequence_by_entity,
        is_nucleic_acid_by_entity,
        nucleic_acid_only,
    )


def is_cif(cif_or_pdb: IO[str]) -> bool:
    cif_or_pdb.seek(0)
    for line in cif_or_pdb.readlines():
        if line.startswith("_atom_site"):
            return True
    return False


def parse_cif(
    cif: IO[str],
) -> Tuple[
    List[Atom],
    Dict[Union[ResidueLabel, ResidueAuth], str],
    Dict[str, str],
    Dict[str, bool],
]:
    cif.seek(0)

    io_adapter = IoAdapterPy()
    data = io_adapter.readFile(cif.name)
    atoms_to_process: List[Atom] = []
    modified: Dict[Union[ResidueLabel, ResidueAuth], str] = {}
    sequence_by_entity: Dict[str, str] = {}
    is_nucleic_acid_by_entity: Dict[str, bool] = {}

    if data:
        atom_site = data[0].getObj("atom_site")
        mod_residue = data[0].getObj("pdbx_struct_mod_residue")
        entity_poly = data[0].getObj("entity_poly")
        entity = data[0].getObj("entity")

        if atom_site:
            for row in atom_site.getRowList():
                row_dict = dict(zip(atom_site.getAttributeList(), row))

                label_entity_id = row_dict.get("label_entity_id", None)
                label_chain_name = row_dict.get("label_asym_id", None)
                label_residue_number = try_parse_int(row_dict.get("label_seq_id", None))
                label_residue_name = row_dict.get("label_comp_id", None)
                auth_chain_name = row_dict.get("auth_asym_id", None)
                auth_residue_number = try_parse_int(row_dict.get("auth_seq_id", None))
                auth_residue_name = row_dict.get("auth_comp_id", None)
                insertion_code = row_dict.get("pdbx_PDB_ins_code", None)

                # mmCIF marks empty values with ? or .
                if insertion_code in ("?", "."):
                    insertion_code = None

                if label_chain_name is None and auth_chain_name is None:
                    raise RuntimeError(
                        f"Cannot parse an atom line with empty chain name: {row}"
                    )
                if label_residue_number is None and auth_residue_number is None:
                    raise RuntimeError(
                        f"Cannot parse an atom line with empty residue number: {row}"
                    )
                if label_residue_name is None and auth_residue_name is None:
                    raise RuntimeError(
                        f"Cannot parse an atom line with empty residue name: {row}"
                    )

                label = None
                if (
                    label_chain_name is not None
                    and label_residue_number is not None
                    and label_residue_name is not None
                ):
                    label = ResidueLabel(
                        label_chain_name, label_residue_number, label_residue_name
                    )

                auth = None
                if (
                    auth_chain_name is not None
                    and auth_residue_number is not None
                    and auth_residue_name is not None
                ):
                    auth = ResidueAuth(
                        auth_chain_name,
                        auth_residue_number,
                        insertion_code,
                        auth_residue_name,
                    )

                if label is None and auth is None:
                    # this should not happen in a valid mmCIF file
                    # skipping the line
                    logger.debug(
                        f"Cannot parse an atom line without chain name, residue number, and residue name: {row}"
                    )
                    continue

                model = int(row_dict.get("pdbx_PDB_model_num", "1"))
                atom_name = row_dict["label_atom_id"]
                x = float(row_dict["Cartn_x"])
                y = float(row_dict["Cartn_y"])
                z = float(row_dict["Cartn_z"])

                occupancy = (
                    float(row_dict["occupancy"])
                    if row_dict.get("occupancy", ".") not in ("?", ".")
                    else None
                )

                atoms_to_process.append(
                    Atom(
                        label_entity_id,
                        label,
                        auth,
                        model,
                        atom_name,
                        x,
                        y,
                        z,
                        occupancy,
                    )
                )

        if mod_residue:
            for row in mod_residue.getRowList():
                row_dict = dict(zip(mod_residue.getAttributeList(), row))

                label_chain_name = row_dict.get("label_asym_id", None)
                label_residue_number = try_parse_int(row_dict.get("label_seq_id", None))
                label_residue_name = row_dict.get("label_comp_id", None)
                auth_chain_name = row_dict.get("auth_asym_id", None)
                auth_residue_number = try_parse_int(row_dict.get("auth_seq_id", None))
                auth_residue_name = row_dict.get("auth_comp_id", None)
                insertion_code = row_dict.get("PDB_ins_code", None)

                label = None
                if (
                    label_chain_name is not None
                    and label_residue_number is not None
                    and label_residue_name is not None
                ):
                    label = ResidueLabel(
                        label_chain_name, label_residue_number, label_residue_name
                    )

                auth = None
                if (
                    auth_chain_name is not None
                    and auth_residue_number is not None
                    and auth_residue_name is not None
                    and insertion_code is not None
                ):
                    auth = ResidueAuth(
                        auth_chain_name,
                        auth_residue_number,
                        insertion_code,
                        auth_residue_name,
                    )

                # TODO: is processing this data for each model separately required?
                # model = row_dict.get('PDB_model_num', '1')
                standard_residue_name = row_dict.get("parent_comp_id", "n")

                if label is not None:
                    modified[label] = standard_residue_name
                if auth is not None:
                    modified[auth] = standard_residue_name

        if entity_poly:
            for row in entity_poly.getRowList():
                row_dict = dict(zip(entity_poly.getAttributeList(), row))

                entity_id = row_dict.get("entity_id", None)
                type_ = row_dict.get("type", None)
                pdbx_seq_one_letter_code_can = row_dict.get(
                    "pdbx_seq_one_letter_code_can", None
                )

                if entity_id and type_:
                    is_nucleic_acid_by_entity[entity_id] = type_ in (
                        "peptide nucleic acid",
                        "polydeoxyribonucleotide",
                        "polydeoxyribonucleotide/polyribonucleotide hybrid",
                        "polyribonucleotide",
                    )

                if entity_id and pdbx_seq_one_letter_code_can:
                    sequence_by_entity[entity_id] = (
                        pdbx_seq_one_letter_code_can.replace("\n", "")
                    )

        if entity:
            for row in entity.getRowList():
                row_dict = dict(zip(entity.getAttributeList(), row))

                entity_id = row_dict.get("id", None)
                type_ = row_dict.get("type", None)

                if entity_id:
                    sequence_by_entity[entity_id] = sequence_by_entity.get(
                        entity_id, ""
                    )

                    if type_:
                        is_nucleic_acid_by_entity[entity_id] = (
                            is_nucleic_acid_by_entity.get(
                                entity_id,
                                type_
                                in (
                                    "peptide nucleic acid",
                                    "polydeoxyribonucleotide",
                                    "polydeoxyribonucleotide/polyribonucleotide hybrid",
                                    "polyribonucleotide",
                                ),
                            )
                        )

    atoms = filter_clashing_atoms(atoms_to_process)
    return atoms, modified, sequence_by_entity, is_nucleic_acid_by_entity


def parse_pdb(
    pdb: IO[str],
) -> Tuple[
    List[Atom],
    Dict[Union[ResidueLabel, ResidueAuth], str],
    Dict[str, str],
    Dict[str, bool],
]:
    pdb.seek(0)
    atoms_to_process: List[Atom] = []
    modified: Dict[Union[ResidueLabel, ResidueAuth], str] = {}
    model = 1

    for line in pdb.readlines():
        if line.startswith("MODEL"):
            model = int(line[10:14].strip())
        elif line.startswith("ATOM") or line.startswith("HETATM"):
            atom_name = line[12:16].strip()
            residue_name = line[17:20].strip()
            chain_identifier = line[21]
            residue_number = int(line[22:26].strip())
            insertion_code = line[26] if line[26] != " " else None
            x = float(line[30:38].strip())
            y = float(line[38:46].strip())
            z = float(line[46:54].strip())
            occupancy = float(line[54:60].strip())
            auth = ResidueAuth(
                chain_identifier, residue_number, insertion_code, residue_name
            )

            atoms_to_process.append(
                Atom(None, None, auth, model, atom_name, x, y, z, occupancy)
            )
        elif line.startswith("MODRES"):
            original_name = line[12:15]
            chain_identifier = line[16]
            residue_number = int(line[18:22].strip())
            insertion_code = line[23]
            standard_residue_name = line[24:27].strip()
            auth = ResidueAuth(
                chain_identifier, residue_number, insertion_code, original_name
            )
            modified[auth] = standard_residue_name

    atoms = filter_clashing_atoms(atoms_to_process)
    return atoms, modified, {}, {}


def group_atoms(
    atoms: List[Atom],
    modified: Dict[Union[ResidueLabel, ResidueAuth], str],
    sequence_by_entity: Dict[str, str],
    is_nucleic_acid_by_entity: Dict[str, bool],
    nucleic_acid_only: bool,
) -> Structure3D:
    if not atoms:
        return Structure3D([])

    key_previous = (atoms[0].label, atoms[0].auth, atoms[0].model)
    residue_atoms = [atoms[0]]
    residues: List[Residue3D] = []

    for atom in atoms[1:]:
        key = (atom.label, atom.auth, atom.model)
        if key == key_previous:
            residue_atoms.append(atom)
        else:
            label = key_previous[0]
            auth = key_previous[1]
            model = key_previous[2]
            entity_id = residue_atoms[-1].entity_id
            name = get_residue_name(auth, label, modified)
            one_letter_name = get_one_letter_name(
                entity_id, label, sequence_by_entity, name
            )

            if one_letter_name not in "ACGUTN":
                one_letter_name = detect_one_letter_name(residue_atoms)

            residues.append(
                Residue3D(label, auth, model, one_letter_name, tuple(residue_atoms))
            )

            key_previous = key
            residue_atoms = [atom]

    label = key_previous[0]
    auth = key_previous[1]
    model = key_previous[2]
    entity_id = residue_atoms[-1].entity_id
    name = get_residue_name(auth, label, modified)
    one_letter_name = get_one_letter_name(entity_id, label, sequence_by_entity, name)

    if one_letter_name not in "ACGUTN":
        one_letter_name = detect_one_letter_name(residue_atoms)

    residues.append(
        Residue3D(label, auth, model, one_letter_name, tuple(residue_atoms))
    )

    if nucleic_acid_only:
        if is_nucleic_acid_by_entity:
            residues = [
                residue
                for residue in residues
                if is_nucleic_acid_by_entity[residue.atoms[0].entity_id]
            ]
        else:
            residues = [residue for residue in residues if residue.is_nucleotide]

    return Structure3D(residues)


def get_residue_name(
    auth: Optional[ResidueAuth],
    label: Optional[ResidueLabel],
    modified: Dict[Union[ResidueAuth, ResidueLabel], str],
) -> str:
    if auth is not None and auth in modified:
        name = modified[auth].lower()
    elif label is not None and label in modified:
        name = modified[label].lower()
    elif auth is not None:
        name = auth.name
    elif label is not None:
        name = label.name
    else:
        # any nucleotide
        name = "n"
    return name


def get_one_letter_name(
    entity_id: Optional[str],
    label: Optional[ResidueLabel],
    sequence_by_entity: Dict[str, str],
    name: str,
) -> str:
    # try getting the value from _entity_poly first
    if entity_id is not None and label is not None and entity_id in sequence_by_entity:
        return sequence_by_entity[entity_id][label.number - 1]
    # RNA
    if len(name) == 1:
        return name
    # DNA
    if len(name) == 2 and name[0].upper() == "D":
        return name[1]
    # try the last letter of the name
    if str.isalpha(name[-1]):
        return name[-1]
    # any nucleotide
    return "n"


def detect_one_letter_name(atoms: List[Atom]) -> str:
    atom_names_present = {atom.name for atom in atoms}
    score = {}
    for candidate in "ACGUT":
        atom_names_expected = BASE_ATOMS[candidate]
        count = sum(
            1 for atom in atom_names_expected if atom in atom_names_present
        ) / len(atom_names_expected)
        score[candidate] = count
    items = sorted(score.items(), key=lambda kv: kv[1], reverse=True)
    if items[0][1] == 0:
        return "?"
    return items[0][0]


def try_parse_int(s: Optional[str]) -> Optional[int]:
    try:
        return int(s)
    except (ValueError, TypeError):
        # TypeError: the item is absent from the file (None), e.g. no auth_seq_id
        return None


def filter_clashing_atoms(atoms: List[Atom], clash_distance: float = 0.5) -> List[Atom]:
    # First, remove duplicate atoms
    unique_atoms = {}

    for i, atom in enumerate(atoms):
        key = (atom.model, atom.label, atom.auth, atom.name)
        if key not in unique_atoms or (
            atom.occupancy is not None
            and (
                unique_atoms[key].occupancy is None
                or atom.occupancy > unique_atoms[key].occupancy
            )
        ):
            unique_atoms[key] = atom

    unique_atoms_list = list(unique_atoms.values())

    # Now handle clashing atoms
    coords = np.array([(atom.x, atom.y, atom.z) for atom in unique_atoms_list])
    tree = KDTree(coords)

    pairs = tree.query_pairs(r=clash_distance)

    atoms_to_keep = set(range(len(unique_atoms_list)))

    for i, j in pairs:
        if unique_atoms_list[i].model != unique_atoms_list[j].model:
            continue
        if (
            unique_atoms_list[i].occupancy is None
            or unique_atoms_list[j].occupancy is None
        ):
            continue
        if unique_atoms_list[i].occupancy > unique_atoms_list[j].occupancy:
            atoms_to_keep.discard(j)
        else:
            atoms_to_keep.discard(i)

    return [unique_atoms_list[i] for i in atoms_to_keep]
