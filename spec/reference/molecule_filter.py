#! /usr/bin/env python
import argparse
import os
import tempfile
from collections import defaultdict, namedtuple
from typing import Iterable, List, Set, Tuple

from mmcif.io.IoAdapterPy import IoAdapterPy
from mmcif.io.PdbxReader import DataCategory, DataContainer

from rnapolis.util import handle_input_file

# Source: https://mmcif.wwpdb.org/dictionaries/mmcif_pdbx_v50.dic/Items/_entity_poly.type.html
ENTITY_POLY_TYPES = [
    "cyclic-pseudo-peptide",
    "other",
    "peptide nucleic acid",
    "polydeoxyribonucleotide",
    "polydeoxyribonucleotide/polyribonucleotide hybrid",
    "polypeptide(D)",
    "polypeptide(L)",
    "polyribonucleotide",
]

Link = namedtuple(
    "Link", ["parent_category_id", "parent_name", "child_category_id", "child_name"]
)


def load_pdbx_item_linked_group_list():
    dictionary = os.path.join(
        os.path.abspath(os.path.dirname(__file__)), "mmcif_pdbx_v50.dic"
    )
    adapter = IoAdapterPy()
    data = adapter.readFile(dictionary)
    obj = data[0].getObj("pdbx_item_linked_group_list")
    links = defaultdict(set)

    if obj:
        for row in obj.getRowList():
            row_dict = dict(zip(obj.getAttributeList(), row))
            child_category_id = row_dict["child_category_id"]
            child_name = row_dict["child_name"].split(".")[1]
            parent_name = row_dict["parent_name"].split(".")[1]
            parent_category_id = row_dict["parent_category_id"]
            links[parent_category_id].add(
                Link(parent_category_id, parent_name, child_category_id, child_name)
            )

    return links


def select_ids(
    data: List[DataContainer],
    category: str,
    field_name_to_extract: str,
    field_name_to_check: str,
    accepted_values: Iterable[str],
) -> Set[str]:
    obj = data[0].getObj(category)
    if not obj:
        return set()
    attributes = obj.getAttributeList()
    if field_name_to_check not in attributes or field_name_to_extract not in attributes:
        return set()
    index_to_check = attributes.index(field_name_to_check)
    index_to_extract = attributes.index(field_name_to_extract)
    return {
        row[index_to_extract]
        for row in obj.getRowList()
        if row[index_to_check] in accepted_values
    }


def select_category_by_id(
    data: List[DataContainer],
    category: str,
    field_name: str,
    ids: Iterable[str],
) -> Tuple[List[str], List[List[str]]]:
    obj = data[0].getObj(category)
    if not obj:
        return [], []
    attributes = obj.getAttributeList()
    if field_name not in attributes:
        return attributes, []
    index = attributes.index(field_name)
    return attributes, [row for row in obj.getRowList() if row[index] in ids]


def read_cif(file_content: str) -> DataContainer:
    with tempfile.NamedTemporaryFile("rt+") as f:
        adapter = IoAdapterPy()
        f.write(file_content)
        f.seek(0)
        return adapter.readFile(f.name)


def filter_cif(data, entity_ids, asym_ids, auth_asym_ids, retain_categories):
    links = load_pdbx_item_linked_group_list()
    categories_with_entity_id = [("entity", "id")] + [
        (link.child_category_id, link.child_name)
        for link in sorted(links["entity"])
        if link.parent_name == "id"
    ]
    categories_with_asym_id = [("struct_asym", "id")] + [
        (link.child_category_id, link.child_name)
        for link in sorted(links["struct_asym"])
        if link.parent_name == "id"
    ]
    categories_with_auth_asym_id = [("atom_site", "auth_asym_id")] + [
        (link.child_category_id, link.child_name)
        for link in sorted(links["atom_site"])
        if link.parent_name == "auth_asym_id"
    ]

    output = DataContainer("rnapolis")

    for table, ids in (
        (categories_with_entity_id, entity_ids),
        (categories_with_asym_id, asym_ids),
        (categories_with_auth_asym_id, auth_asym_ids),
    ):
        for category, field_name in table:
            attributes, rows = select_category_by_id(data, category, field_name, ids)

            if attributes and rows:
                obj = DataCategory(category, attributes, rows)
                output.append(obj)

    for category in retain_categories:
        obj = data[0].getObj(category)
        if obj:
            output.append(obj)

    with tempfile.NamedTemporaryFile("rt+") as tmp:
        adapter = IoAdapterPy()
        adapter.writeFile(tmp.name, [output])
        tmp.seek(0)
        return tmp.read()


def filter_by_poly_types(
    file_content: str,
    entity_poly_types: Iterable[str] = [
        "polyribonucleotide",
        "polydeoxyribonucleotide",
        "polydeoxyribonucleotide/polyribonucleotide hybrid",
    ],
    retain_categories: Iterable[str] = ["chem_comp"],
) -> str:
    data = read_cif(file_content)
    entity_ids = select_ids(
        data, "entity_poly", "entity_id", "type", set(entity_poly_types)
    )
    asym_ids = select_ids(data, "struct_asym", "id", "entity_id", entity_ids)
    auth_asym_ids = select_ids(
        data, "atom_site", "auth_asym_id", "label_asym_id", asym_ids
    )
    return filter_cif(data, entity_ids, asym_ids, auth_asym_ids, retain_categories)


def filter_by_chains(
    file_content: str,
    chains: Iterable[str],
    retain_categories: Iterable[str] = ["chem_comp"],
) -> str:
    """
    Filter a PDBx/mmCIF file by chain IDs. The function returns a new PDBx/mmCIF file.

    Warning! The new file might contain more chains than provided in the `chains` argument.
    This is because the function filters by entity, so if you ask for chain "A",
    which is part of entity 1 having chains "A", "B" and "C", then you will get all three chains.
    """
    data = read_cif(file_content)
    asym_ids = set(chains)
    entity_ids = select_ids(data, "struct_asym", "entity_id", "id", asym_ids)
    auth_asym_ids = select_ids(
        data, "atom_site", "auth_asym_id", "label_asym_id", asym_ids
    )
    return filter_cif(data, entity_ids, asym_ids, auth_asym_ids, retain_categories)


def main():
    parser = argparse.ArgumentParser()
    parser.add_argument(
        "--filter-by-poly-types",
        help=f"filter by entity poly types, possible values: {', '.join(ENTITY_POLY_TYPES)}",
        action="append",
        default=[],
    )
    parser.add_argument(
        "--filter-by-chains",
        help="filter by chain IDs (label_asym_id), e.g. A, B, C",
        action="append",
        default=[],
    )
    parser.add_argument(
        "--retain-categories",
        help="categories to retain in the output file default: chem_comp",
        action="append",
        default=["chem_comp"],
    )
    parser.add_argument("path", help="path to a PDBx/mmCIF file")
    args = parser.parse_args()

    file = handle_input_file(args.path)
    if args.filter_by_poly_types:
        print(
            filter_by_poly_types(
                file.read(),
                entity_poly_types=args.filter_by_poly_types,
                retain_categories=args.retain_categories,
            )
        )
    elif args.filter_by_chains:
        print(
            filter_by_chains(
                file.read(),
                chains=args.filter_by_chains,
                retain_categories=args.retain_categories,
            )
        )
    else:
        parser.print_help()


if __name__ == "__main__":
    main()
