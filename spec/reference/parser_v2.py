import io
import os
import string
import tempfile
from typing import IO, TextIO, Union

import pandas as pd
from mmcif.io.IoAdapterPy import IoAdapterPy
from mmcif.io.PdbxReader import DataCategory, DataContainer


def parse_pdb_atoms(content: Union[str, IO[str]]) -> pd.DataFrame:
    """
    Parse PDB file content and extract ATOM and HETATM records into a pandas DataFrame.

    Parameters:
    -----------
    content : Union[str, IO[str]]
        Content of a PDB file as a string or file-like object

    Returns:
    --------
    pd.DataFrame
        DataFrame containing parsed ATOM and HETATM records with columns corresponding to PDB format
    """
    records = []

    # Handle both string content and file-like objects
    if isinstance(content, str):
        lines = content.splitlines()
    else:
        # Read all lines from the file-like object
        content.seek(0)  # Ensure we're at the beginning of the file
        lines = content.readlines()
        # Convert bytes to string if needed
        if isinstance(lines[0], bytes):
            lines = [line.decode("utf-8") for line in lines]

    current_model = 1
    for line in lines:
        record_type = line[:6].strip()

        # Check for MODEL record
        if record_type == "MODEL":
            try:
                current_model = int(line[10:14].strip())
            except ValueError:
                # Handle cases where MODEL record might be malformed
                pass  # Keep the previous model number
            continue

        # Only process ATOM and HETATM records
        if record_type not in ["ATOM", "HETATM"]:
            continue

        # Parse fields according to PDB format specification
        alt_loc = line[16:17].strip()
        icode = line[26:27].strip()
        element = line[76:78].strip()
        charge = line[78:80].strip()

        record = {
            "record_type": record_type,
            "serial": line[6:11].strip(),
            "name": line[12:16].strip(),
            "altLoc": None if not alt_loc else alt_loc,  # Store None if empty
            "resName": line[17:20].strip(),
            "chainID": line[21:22].strip(),
            "resSeq": line[22:26].strip(),
            "iCode": None if not icode else icode,  # Store None if empty
            "x": line[30:38].strip(),
            "y": line[38:46].strip(),
            "z": line[46:54].strip(),
            "occupancy": line[54:60].strip(),
            "tempFactor": line[60:66].strip(),
            "element": None if not element else element,  # Store None if empty
            "charge": None if not charge else charge,  # Store None if empty
            "model": current_model,  # Add the current model number
        }

        records.append(record)

    # Create DataFrame from records
    if not records:
        # Return empty DataFrame with correct columns if no records found
        return pd.DataFrame(
            columns=[
                "record_type",
                "serial",
                "name",
                "altLoc",
                "resName",
                "chainID",
                "resSeq",
                "iCode",
                "x",
                "y",
                "z",
                "occupancy",
                "tempFactor",
                "element",
                "charge",
                "model",
            ]
        )

    df = pd.DataFrame(records)

    # Convert numeric columns to appropriate types
    numeric_columns = [
        "serial",
        "resSeq",
        "x",
        "y",
        "z",
        "occupancy",
        "tempFactor",
        "model",
    ]
    for col in numeric_columns:
        df[col] = pd.to_numeric(df[col], errors="coerce")

    # Convert categorical columns
    categorical_columns = [
        "record_type",
        "name",
        "altLoc",
        "resName",
        "chainID",
        "element",
        "charge",
    ]
    for col in categorical_columns:
        df[col] = df[col].astype("category")

    # Add format attribute to the DataFrame
    df.attrs["format"] = "PDB"

    return df


def parse_cif_atoms(content: Union[str, IO[str]]) -> pd.DataFrame:
    """
    Parse mmCIF file content and extract atom_site records into a pandas DataFrame.

    Parameters:
    -----------
    content : Union[str, IO[str]]
        Content of a mmCIF file as a string or file-like object

    Returns:
    --------
    pd.DataFrame
        DataFrame containing parsed atom_site records with columns corresponding to mmCIF format
    """
    adapter = IoAdapterPy()

    # Handle string, StringIO, and file-like objects
    if isinstance(content, str):
        # Create a temporary file for string input
        with tempfile.NamedTemporaryFile(
            mode="w+", suffix=".cif", delete=False
        ) as temp_file:
            temp_file.write(content)
            temp_file_path = temp_file.name
        try:
            data = adapter.readFile(temp_file_path)
        finally:
            os.remove(temp_file_path)  # Clean up the temporary file
    elif isinstance(content, io.StringIO):
        # Create a temporary file for StringIO input
        with tempfile.NamedTemporaryFile(
            mode="w+", suffix=".cif", delete=False
        ) as temp_file:
            content.seek(0)  # Ensure reading from the start
            temp_file.write(content.read())
            temp_file_path = temp_file.name
        try:
            data = adapter.readFile(temp_file_path)
        finally:
            os.remove(temp_file_path)  # Clean up the temporary file
    elif hasattr(content, "name"):
        # Assume it's a file-like object with a name attribute (like an open file)
        data = adapter.readFile(content.name)
    else:
        raise TypeError(
            "Unsupported input type for parse_cif_atoms. Expected str, file-like object with name, or StringIO."
        )

    # Get the atom_site category
    category = data[0].getObj("atom_site")

    if not category:
        # Return empty DataFrame if no atom_site category found
        return pd.DataFrame()

    # Extract attribute names and data rows
    attributes = category.getAttributeList()
    rows = category.getRowList()

    # Create a list of dictionaries for each atom
    records = []
    for row in rows:
        record = {}
        for attr, value in zip(attributes, row):
            # Store None if value indicates missing data ('?' or '.')
            if value in ["?", "."]:
                record[attr] = None
            else:
                record[attr] = value
        records.append(record)

    # Create DataFrame from records
    df = pd.DataFrame(records)

    # Define columns based on mmCIF specification for atom_site
    float_cols = [
        "aniso_B[1][1]",
        "aniso_B[1][1]_esd",
        "aniso_B[1][2]",
        "aniso_B[1][2]_esd",
        "aniso_B[1][3]",
        "aniso_B[1][3]_esd",
        "aniso_B[2][2]",
        "aniso_B[2][2]_esd",
        "aniso_B[2][3]",
        "aniso_B[2][3]_esd",
        "aniso_B[3][3]",
        "aniso_B[3][3]_esd",
        "aniso_ratio",
        "aniso_U[1][1]",
        "aniso_U[1][1]_esd",
        "aniso_U[1][2]",
        "aniso_U[1][2]_esd",
        "aniso_U[1][3]",
        "aniso_U[1][3]_esd",
        "aniso_U[2][2]",
        "aniso_U[2][2]_esd",
        "aniso_U[2][3]",
        "aniso_U[2][3]_esd",
        "aniso_U[3][3]",
        "aniso_U[3][3]_esd",
        "B_equiv_geom_mean",
        "B_equiv_geom_mean_esd",
        "B_iso_or_equiv",
        "B_iso_or_equiv_esd",
        "Cartn_x",
        "Cartn_x_esd",
        "Cartn_y",
        "Cartn_y_esd",
        "Cartn_z",
        "Cartn_z_esd",
        "fract_x",
        "fract_x_esd",
        "fract_y",
        "fract_y_esd",
        "fract_z",
        "fract_z_esd",
        "occupancy",
        "occupancy_esd",
        "U_equiv_geom_mean",
        "U_equiv_geom_mean_esd",
        "U_iso_or_equiv",
        "U_iso_or_equiv_esd",
    ]
    int_cols = [
        "attached_hydrogens",
        "label_seq_id",
        "symmetry_multiplicity",
        "pdbx_PDB_model_num",
        "pdbx_formal_charge",
        "pdbx_label_index",
    ]
    category_cols = [
        "auth_asym_id",
        "auth_atom_id",
        "auth_comp_id",
        "auth_seq_id",
        "calc_attached_atom",
        "calc_flag",
        "disorder_assembly",
        "disorder_group",
        "group_PDB",
        "id",
        "label_alt_id",
        "label_asym_id",
        "label_atom_id",
        "label_comp_id",
        "label_entity_id",
        "thermal_displace_type",
        "type_symbol",
        "pdbx_atom_ambiguity",
        "adp_type",
        "refinement_flags",
        "refinement_flags_adp",
        "refinement_flags_occupancy",
        "refinement_flags_posn",
        "pdbx_auth_alt_id",
        "pdbx_PDB_ins_code",
        "pdbx_PDB_residue_no",
        "pdbx_PDB_residue_name",
        "pdbx_PDB_strand_id",
        "pdbx_PDB_atom_name",
        "pdbx_auth_atom_name",
        "pdbx_auth_comp_id",
        "pdbx_auth_asym_id",
        "pdbx_auth_seq_id",
        "pdbx_tls_group_id",
        "pdbx_ncs_dom_id",
        "pdbx_group_NDB",
        "pdbx_atom_group",
        "pdbx_label_seq_num",
        "pdbx_not_in_asym",
        "pdbx_sifts_xref_db_name",
        "pdbx_sifts_xref_db_acc",
        "pdbx_sifts_xref_db_num",
        "pdbx_sifts_xref_db_res",
    ]

    # Convert columns to appropriate types
    for col in float_cols:
        if col in df.columns:
            df[col] = pd.to_numeric(df[col], errors="coerce")

    for col in int_cols:
        if col in df.columns:
            # Use Int64 (nullable integer) to handle potential NaNs from coercion
            df[col] = pd.to_numeric(df[col], errors="coerce").astype("Int64")

    for col in category_cols:
        if col in df.columns:
            df[col] = df[col].astype("category")

    # Add format attribute to the DataFrame
    df.attrs["format"] = "mmCIF"

    return df


def can_write_pdb(df: pd.DataFrame) -> bool:
    """
    Check if the DataFrame can be losslessly represented in PDB format.

    PDB format has limitations on field widths:
    - Atom serial number (id): max 99999
    - Chain identifier (auth_asym_id): max 1 character
    - Residue sequence number (auth_seq_id): max 9999

    Parameters:
    -----------
    df : pd.DataFrame
        DataFrame containing atom records, as created by parse_pdb_atoms or parse_cif_atoms.

    Returns:
    --------
    bool
        True if the DataFrame can be written to PDB format without data loss/truncation, False otherwise.
    """
    format_type = df.attrs.get("format")

    if format_type == "PDB":
        # Assume data originally from PDB already fits PDB constraints
        return True

    if df.empty:
        # An empty DataFrame can be represented as an empty PDB file
        return True

    if format_type == "mmCIF":
        # Check serial number (id)
        # Convert to numeric first to handle potential categorical type and NaNs
        if "id" not in df.columns or (
            pd.to_numeric(df["id"], errors="coerce").max() > 99999
        ):
            return False

        # Check chain ID (auth_asym_id) length
        if "auth_asym_id" not in df.columns or (
            df["auth_asym_id"].dropna().astype(str).str.len().max() > 1
        ):
            return False

        # Check residue sequence number (auth_seq_id)
        if "auth_seq_id" not in df.columns or (
            pd.to_numeric(df["auth_seq_id"], errors="coerce").max() > 9999
        ):
            return False

        # All checks passed for mmCIF
        return True

    # If format is unknown or not PDB/mmCIF, assume it cannot be safely written
    return False


def fit_to_pdb(df: pd.DataFrame) -> pd.DataFrame:
    """
    Attempts to fit the atom data in a DataFrame to comply with PDB format limitations.

    If the data already fits (checked by can_write_pdb), returns the original DataFrame.
    Otherwise, checks if fitting is possible based on total atoms, unique chains,
    and residues per chain. If fitting is possible, it renumbers atoms, renames chains,
    and renumbers residues within each chain sequentially starting from 1.

    Parameters:
    -----------
    df : pd.DataFrame
        DataFrame containing atom records, as created by parse_pdb_atoms or parse_cif_atoms.

    Returns:
    --------
    pd.DataFrame
        A new DataFrame with data potentially modified to fit PDB constraints.
        The 'format' attribute of the returned DataFrame will be set to 'PDB'.

    Raises:
    -------
    ValueError
        If the data cannot be fitted into PDB format constraints (too many atoms,
        chains, or residues per chain).
    """
    format_type = df.attrs.get("format")

    if not format_type:
        raise ValueError("DataFrame format attribute is not set.")

    if can_write_pdb(df):
        return df

    # Determine column names based on format
    if format_type == "PDB":
        serial_col = "serial"
        chain_col = "chainID"
        resseq_col = "resSeq"
        icode_col = "iCode"
    elif format_type == "mmCIF":
        serial_col = "id"
        chain_col = "auth_asym_id"
        resseq_col = "auth_seq_id"
        icode_col = "pdbx_PDB_ins_code"
    else:
        raise ValueError(f"Unsupported DataFrame format: {format_type}")

    # --- Feasibility Checks ---
    if chain_col not in df.columns:
        raise ValueError(f"Missing required chain column: {chain_col}")
    if resseq_col not in df.columns:
        raise ValueError(f"Missing required residue sequence column: {resseq_col}")

    unique_chains = df[chain_col].unique()
    num_chains = len(unique_chains)
    total_atoms = len(df)
    max_pdb_serial = 99999
    max_pdb_residue = 9999
    available_chain_ids = list(
        string.ascii_uppercase + string.ascii_lowercase + string.digits
    )
    max_pdb_chains = len(available_chain_ids)

    # Check 1: Total atoms + TER lines <= 99999
    if total_atoms + num_chains > max_pdb_serial:
        raise ValueError(
            f"Cannot fit to PDB: Total atoms ({total_atoms}) + TER lines ({num_chains}) exceeds PDB limit ({max_pdb_serial})."
        )

    # Check 2: Number of chains <= 62
    if num_chains > max_pdb_chains:
        raise ValueError(
            f"Cannot fit to PDB: Number of unique chains ({num_chains}) exceeds PDB limit ({max_pdb_chains})."
        )

    # Check 3: Max residues per chain <= 9999
    # More accurate check: group by chain, then count unique (resSeq, iCode) tuples
    # Use a temporary structure to avoid modifying the original df
    check_df = pd.DataFrame(
        {
            "chain": df[chain_col],
            "resSeq": df[resseq_col],
            "iCode": df[icode_col].astype(object).fillna("")
            if icode_col in df.columns
            else "",
        }
    )
    residue_counts = check_df.groupby("chain").apply(
        lambda x: x[["resSeq", "iCode"]].drop_duplicates().shape[0]
    )
    max_residues_per_chain = residue_counts.max() if not residue_counts.empty else 0

    if max_residues_per_chain > max_pdb_residue:
        raise ValueError(
            f"Cannot fit to PDB: Maximum residues in a single chain ({max_residues_per_chain}) exceeds PDB limit ({max_pdb_residue})."
        )

    # --- Perform Fitting ---
    df_fitted = df.copy()
    if icode_col not in df_fitted.columns:
        # The insertion code is optional; the renumbering below groups by it
        df_fitted[icode_col] = None

    # 1. Rename Chains
    chain_mapping = {
        orig_chain: available_chain_ids[i] for i, orig_chain in enumerate(unique_chains)
    }
    df_fitted[chain_col] = df_fitted[chain_col].map(chain_mapping)
    # Ensure the chain column is treated as string/object after mapping
    df_fitted[chain_col] = df_fitted[chain_col].astype(object)

    # 2. Renumber Residues within each new chain
    new_resseq_col = "new_resSeq"  # Temporary column for new numbering
    df_fitted[new_resseq_col] = -1  # Initialize

    all_new_res_maps = {}
    for new_chain_id, group in df_fitted.groupby(chain_col):
        # Identify unique original residues (seq + icode) in order of appearance
        original_residues = group[[resseq_col, icode_col]].drop_duplicates()
        # Create mapping: (orig_resSeq, orig_iCode) -> new_resSeq (1-based)
        residue_mapping = {
            tuple(res): i + 1
            for i, res in enumerate(original_residues.itertuples(index=False))
        }
        all_new_res_maps[new_chain_id] = residue_mapping

        # Apply mapping to the group
        res_indices = group.set_index([resseq_col, icode_col]).index
        df_fitted.loc[group.index, new_resseq_col] = res_indices.map(residue_mapping)

    # Replace original residue number and clear insertion code
    df_fitted[resseq_col] = df_fitted[new_resseq_col]
    df_fitted[icode_col] = None  # Insertion codes are now redundant
    df_fitted.drop(columns=[new_resseq_col], inplace=True)
    # Convert resseq_col back to Int64 if it was before, handling potential NaNs if any step failed
    df_fitted[resseq_col] = df_fitted[resseq_col].astype("Int64")

    # 3. Renumber Atom Serials
    new_serial_col = "new_serial"
    df_fitted[new_serial_col] = -1  # Initialize
    current_serial = 0
    last_chain_id_for_serial = None

    # The rows are still in the order of the input table (nothing above re-orders
    # them); sorting by index labels here would permute tables whose index is not
    # increasing, e.g. frames concatenated from per-residue pieces.

    for index, row in df_fitted.iterrows():
        current_chain_id = row[chain_col]
        if (
            last_chain_id_for_serial is not None
            and current_chain_id != last_chain_id_for_serial
        ):
            current_serial += 1  # Increment for TER line

        current_serial += 1
        if current_serial > max_pdb_serial:
            # This should have been caught by the initial check, but is a safeguard
            raise ValueError("Serial number exceeded PDB limit during renumbering.")

        df_fitted.loc[index, new_serial_col] = current_serial
        last_chain_id_for_serial = current_chain_id

    # Replace original serial number
    df_fitted[serial_col] = df_fitted[new_serial_col]
    df_fitted.drop(columns=[new_serial_col], inplace=True)
    # Convert serial_col back to Int64
    df_fitted[serial_col] = df_fitted[serial_col].astype("Int64")

    # Update attributes and column types for PDB compatibility
    df_fitted.attrs["format"] = "PDB"

    # Ensure final column types match expected PDB output (especially categories)
    # Reapply categorical conversion as some operations might change dtypes
    pdb_categorical_cols = [
        "record_type",
        "name",
        "altLoc",
        "resName",
        chain_col,
        "element",
        "charge",
        icode_col,
    ]
    if "record_type" not in df_fitted.columns and "group_PDB" in df_fitted.columns:
        df_fitted.rename(
            columns={"group_PDB": "record_type"}, inplace=True
        )  # Ensure correct name

    for col in pdb_categorical_cols:
        if col in df_fitted.columns:
            # Handle None explicitly before converting to category if needed
            if df_fitted[col].isnull().any():
                df_fitted[col] = (
                    df_fitted[col].astype(object).fillna("")
                )  # Fill None with empty string for category
            df_fitted[col] = df_fitted[col].astype("category")

    # Rename columns if necessary from mmCIF to PDB standard names
    rename_map = {
        "id": "serial",
        "auth_asym_id": "chainID",
        "auth_seq_id": "resSeq",
        "pdbx_PDB_ins_code": "iCode",
        "label_alt_id": "altLoc",
        "type_symbol": "element",
        "pdbx_formal_charge": "charge",
        "Cartn_x": "x",
        "Cartn_y": "y",
        "Cartn_z": "z",
        "B_iso_or_equiv": "tempFactor",
        "group_PDB": "record_type",
        "pdbx_PDB_model_num": "model",
        # Add mappings for auth_atom_id -> name, auth_comp_id -> resName if needed,
        # deciding on precedence if both label_* and auth_* exist.
        # Current write_pdb prioritizes auth_* when reading mmCIF, so map those.
        "auth_atom_id": "name",
        "auth_comp_id": "resName",
    }
    # Two source columns must not be renamed to the same PDB column: fall back to
    # label_* only when the auth_* item write_pdb prefers is absent
    if "auth_atom_id" not in df_fitted.columns:
        rename_map["label_atom_id"] = "name"
    if "auth_comp_id" not in df_fitted.columns:
        rename_map["label_comp_id"] = "resName"

    # Only rename columns that actually exist in the DataFrame
    actual_rename_map = {k: v for k, v in rename_map.items() if k in df_fitted.columns}
    df_fitted.rename(columns=actual_rename_map, inplace=True)

    # Ensure essential PDB columns exist, even if empty, if they were created during fitting
    pdb_essential_cols = [
        "record_type",
        "serial",
        "name",
        "altLoc",
        "resName",
        "chainID",
        "resSeq",
        "iCode",
        "x",
        "y",
        "z",
        "occupancy",
        "tempFactor",
        "element",
        "charge",
        "model",
    ]
    for col in pdb_essential_cols:
        if col not in df_fitted.columns:
            # This case might occur if input mmCIF was missing fundamental columns mapped to PDB essentials
            # Decide on default value or raise error. Adding empty series for now.
            df_fitted[col] = pd.Series(
                dtype="object"
            )  # Add as object to handle potential None/mixed types initially

    # Re-order columns to standard PDB order for clarity
    final_pdb_order = [col for col in pdb_essential_cols if col in df_fitted.columns]
    other_cols = [col for col in df_fitted.columns if col not in final_pdb_order]
    df_fitted = df_fitted[final_pdb_order + other_cols]

    # --- Final Type Conversions for PDB format ---
    # Convert numeric columns (similar to parse_pdb_atoms)
    pdb_numeric_columns = [
        "serial",
        "resSeq",
        "x",
        "y",
        "z",
        "occupancy",
        "tempFactor",
        "model",
    ]
    for col in pdb_numeric_columns:
        if col in df_fitted.columns:
            # Use Int64 for integer-like columns that might have been NaN during processing
            if col in ["serial", "resSeq", "model"]:
                df_fitted[col] = pd.to_numeric(df_fitted[col], errors="coerce").astype(
                    "Int64"
                )
            else:  # Floats
                df_fitted[col] = pd.to_numeric(df_fitted[col], errors="coerce")

    # Convert categorical columns (similar to parse_pdb_atoms)
    # Note: chainID and iCode were already handled during fitting/renaming
    pdb_categorical_columns_final = [
        "record_type",
        "name",
        "altLoc",
        "resName",
        "chainID",  # Already category, but ensure consistency
        "iCode",  # Already category, but ensure consistency
        "element",
        "charge",
    ]
    for col in pdb_categorical_columns_final:
        if col in df_fitted.columns:
            # Ensure the column is categorical first
            if not pd.api.types.is_categorical_dtype(df_fitted[col]):
                # Convert non-categorical columns, handling potential NaNs
                if df_fitted[col].isnull().any():
                    df_fitted[col] = (
                        df_fitted[col].astype(object).fillna("").astype("category")
                    )
                else:
                    df_fitted[col] = df_fitted[col].astype("category")
            else:
                # If already categorical, check if '' needs to be added before fillna
                has_nans = df_fitted[col].isnull().any()
                if has_nans and "" not in df_fitted[col].cat.categories:
                    # Add '' category explicitly
                    df_fitted[col] = df_fitted[col].cat.add_categories([""])

                # Fill None/NaN with empty string (now safe)
                if has_nans:
                    df_fitted[col].fillna("", inplace=True)

    return df_fitted


def _format_pdb_atom_line(atom_data: dict) -> str:
    """Formats a dictionary of atom data into a PDB ATOM/HETATM line."""
    # PDB format specification:
    # COLUMNS        DATA TYPE     FIELD         DEFINITION
    # -----------------------------------------------------------------------
    #  1 -  6        Record name   "ATOM  " or "HETATM"
    #  7 - 11        Integer       serial        Atom serial number.
    # 13 - 16        Atom          name          Atom name.
    # 17             Character     altLoc        Alternate location indicator.
    # 18 - 20        Residue name  resName       Residue name.
    # 22             Character     chainID       Chain identifier.
    # 23 - 26        Integer       resSeq        Residue sequence number.
    # 27             AChar         iCode         Code for insertion of residues.
    # 31 - 38        Real(8.3)     x             Orthogonal coordinates for X.
    # 39 - 46        Real(8.3)     y             Orthogonal coordinates for Y.
    # 47 - 54        Real(8.3)     z             Orthogonal coordinates for Z.
    # 55 - 60        Real(6.2)     occupancy     Occupancy.
    # 61 - 66        Real(6.2)     tempFactor    Temperature factor.
    # 77 - 78        LString(2)    element       Element symbol, right-justified.
    # 79 - 80        LString(2)    charge        Charge on the atom.

    # Record name (ATOM/HETATM)
    record_name = atom_data.get("record_name", "ATOM").ljust(6)

    # Serial number
    serial = str(atom_data.get("serial", 0)).rjust(5)

    # Atom name - special alignment rules
    atom_name = atom_data.get("name", "")
    if len(atom_name) < 4 and atom_name[:1].isalpha():
        # Pad with space on left for 1-3 char names starting with a letter
        atom_name_fmt = (" " + atom_name).ljust(4)
    else:
        # Use as is, left-justified, for 4-char names or those starting with a digit
        atom_name_fmt = atom_name.ljust(4)

    # Alternate location indicator
    alt_loc = atom_data.get("altLoc", "")[:1].ljust(1)  # Max 1 char

    # Residue name
    res_name = atom_data.get("resName", "").rjust(
        3
    )  # Spec says "Residue name", examples often right-justified

    # Chain identifier
    chain_id = atom_data.get("chainID", "")[:1].ljust(1)  # Max 1 char

    # Residue sequence number
    res_seq = str(atom_data.get("resSeq", 0)).rjust(4)

    # Insertion code
    icode = atom_data.get("iCode", "")[:1].ljust(1)  # Max 1 char

    # Coordinates
    x = f"{atom_data.get('x', 0.0):8.3f}"
    y = f"{atom_data.get('y', 0.0):8.3f}"
    z = f"{atom_data.get('z', 0.0):8.3f}"

    # Occupancy
    occupancy = f"{atom_data.get('occupancy', 1.0):6.2f}"

    # Temperature factor
    temp_factor = f"{atom_data.get('tempFactor', 0.0):6.2f}"

    # Element symbol
    element = atom_data.get("element", "").rjust(2)

    # Charge
    charge_val = atom_data.get("charge", "")
    charge_fmt = ""
    if charge_val:
        try:
            # Try converting numeric charge (e.g., +1, -2) to PDB format (1+, 2-)
            charge_int = int(float(charge_val))  # Use float first for cases like "1.0"
            if charge_int != 0:
                charge_fmt = f"{abs(charge_int)}{'+' if charge_int > 0 else '-'}"
        except ValueError:
            # If already formatted (e.g., "1+", "FE2+"), use its string representation
            charge_fmt = str(charge_val)
        # Ensure it fits and is right-justified
        charge_fmt = charge_fmt.strip()[:2].rjust(2)
    else:
        charge_fmt = "  "  # Blank if no charge

    # Construct the full line
    # Ensure spacing is correct according to the spec
    # 1-6 Record name | 7-11 Serial | 12 Space | 13-16 Name | 17 AltLoc | 18-20 ResName | 21 Space | 22 ChainID | 23-26 ResSeq | 27 iCode | 28-30 Spaces | 31-38 X | 39-46 Y | 47-54 Z | 55-60 Occupancy | 61-66 TempFactor | 67-76 Spaces | 77-78 Element | 79-80 Charge
    line = (
        f"{record_name}{serial} {atom_name_fmt}{alt_loc}{res_name} {chain_id}{res_seq}{icode}   "
        f"{x}{y}{z}{occupancy}{temp_factor}          "  # 10 spaces
        f"{element}{charge_fmt}"
    )

    # Ensure the line is exactly 80 characters long
    return line.ljust(80)


def write_pdb(
    df: pd.DataFrame, output: Union[str, TextIO, None] = None
) -> Union[str, None]:
    """
    Write a DataFrame of atom records to PDB format.

    Parameters:
    -----------
    df : pd.DataFrame
        DataFrame containing atom records, as created by parse_pdb_atoms or parse_cif_atoms.
        Must contain columns mappable to PDB format fields.
    output : Union[str, TextIO, None], optional
        Output file path or file-like object. If None, returns the PDB content as a string.

    Returns:
    --------
    Union[str, None]
        If output is None, returns the PDB content as a string. Otherwise, returns None.
    """
    buffer = io.StringIO()
    format_type = df.attrs.get("format", "PDB")  # Assume PDB if not specified

    last_model_num = None
    last_chain_id = None
    last_res_info = None  # Tuple (resSeq, iCode, resName) for TER record
    last_serial = 0

    # Check if DataFrame is empty
    if df.empty:
        buffer.write("END\n")
        content = buffer.getvalue()
        buffer.close()
        if output is not None:
            if isinstance(output, str):
                with open(output, "w") as f:
                    f.write(content)
            else:
                output.write(content)
            return None
        return content

    for _, row in df.iterrows():
        atom_data = {}

        # --- Data Extraction ---
        if format_type == "PDB":
            # Pre-process PDB values, converting None to empty strings for optional fields
            raw_alt_loc = row.get("altLoc")
            pdb_alt_loc = "" if pd.isna(raw_alt_loc) else str(raw_alt_loc)

            raw_icode = row.get("iCode")
            pdb_icode = "" if pd.isna(raw_icode) else str(raw_icode)

            raw_element = row.get("element")
            pdb_element = "" if pd.isna(raw_element) else str(raw_element)

            raw_charge = row.get("charge")
            pdb_charge = "" if pd.isna(raw_charge) else str(raw_charge)

            atom_data = {
                "record_name": row.get("record_type", "ATOM"),
                "serial": int(row.get("serial", 0)),
                "name": str(row.get("name", "")),
                "altLoc": pdb_alt_loc,
                "resName": str(row.get("resName", "")),
                "chainID": str(row.get("chainID", "")),
                "resSeq": int(row.get("resSeq", 0)),
                "iCode": pdb_icode,
                "x": float(row.get("x", 0.0)),
                "y": float(row.get("y", 0.0)),
                "z": float(row.get("z", 0.0)),
                "occupancy": float(row.get("occupancy", 1.0)),
                "tempFactor": float(row.get("tempFactor", 0.0)),
                "element": pdb_element,
                "charge": pdb_charge,
                "model": int(row.get("model", 1)),
            }
        elif format_type == "mmCIF":
            # Pre-process mmCIF values to PDB compatible format, converting None to empty strings
            raw_alt_loc = row.get("label_alt_id")
            pdb_alt_loc = "" if pd.isna(raw_alt_loc) else str(raw_alt_loc)

            raw_icode = row.get("pdbx_PDB_ins_code")
            pdb_icode = "" if pd.isna(raw_icode) else str(raw_icode)

            raw_element = row.get("type_symbol")
            pdb_element = "" if pd.isna(raw_element) else str(raw_element)

            raw_charge = row.get("pdbx_formal_charge")
            pdb_charge = "" if pd.isna(raw_charge) else str(raw_charge)

            atom_data = {
                "record_name": row.get("group_PDB", "ATOM"),
                "serial": int(row.get("id", 0)),
                "name": str(row.get("auth_atom_id", row.get("label_atom_id", ""))),
                "altLoc": pdb_alt_loc,
                "resName": str(row.get("auth_comp_id", row.get("label_comp_id", ""))),
                "chainID": str(row.get("auth_asym_id", row.get("label_asym_id"))),
                "resSeq": int(row.get("auth_seq_id", row.get("label_seq_id", 0))),
                "iCode": pdb_icode,
                "x": float(row.get("Cartn_x", 0.0)),
                "y": float(row.get("Cartn_y", 0.0)),
                "z": float(row.get("Cartn_z", 0.0)),
                "occupancy": float(row.get("occupancy", 1.0)),
                "tempFactor": float(row.get("B_iso_or_equiv", 0.0)),
                "element": pdb_element,
                "charge": pdb_charge,
                "model": int(row.get("pdbx_PDB_model_num", 1)),
            }
        else:
            raise ValueError(f"Unsupported DataFrame format: {format_type}")

        # --- MODEL/ENDMDL Records ---
        current_model_num = atom_data["model"]
        if current_model_num != last_model_num:
            if last_model_num is not None:
                # Close the last chain of the previous model before ENDMDL
                if last_chain_id is not None:
                    ter_serial = str(last_serial + 1).rjust(5)
                    ter_res_name = last_res_info[2].strip().rjust(3)
                    ter_chain_id = last_chain_id
                    ter_res_seq = str(last_res_info[0]).rjust(4)
                    ter_icode = last_res_info[1] if last_res_info[1] else ""

                    ter_line = f"TER   {ter_serial}      {ter_res_name} {ter_chain_id}{ter_res_seq}{ter_icode}"
                    buffer.write(ter_line.ljust(80) + "\n")
                buffer.write("ENDMDL\n")
            buffer.write(f"MODEL     {current_model_num:>4}\n")
            last_model_num = current_model_num
            # Reset chain/residue tracking for the new model
            last_chain_id = None
            last_res_info = None

        # --- TER Records ---
        current_chain_id = atom_data["chainID"]
        current_res_info = (
            atom_data["resSeq"],
            atom_data["iCode"],
            atom_data["resName"],
        )

        # Write TER if chain ID changes within the same model
        if last_chain_id is not None and current_chain_id != last_chain_id:
            ter_serial = str(last_serial + 1).rjust(5)
            ter_res_name = last_res_info[2].strip().rjust(3)  # Use last residue's name
            ter_chain_id = last_chain_id
            ter_res_seq = str(last_res_info[0]).rjust(4)  # Use last residue's seq num
            ter_icode = (
                last_res_info[1] if last_res_info[1] else ""
            )  # Use last residue's icode

            ter_line = f"TER   {ter_serial}      {ter_res_name} {ter_chain_id}{ter_res_seq}{ter_icode}"
            buffer.write(ter_line.ljust(80) + "\n")

        # --- Format and Write ATOM/HETATM Line ---
        pdb_line = _format_pdb_atom_line(atom_data)
        buffer.write(pdb_line + "\n")

        # --- Update Tracking Variables ---
        last_serial = atom_data["serial"]
        last_chain_id = current_chain_id
        last_res_info = current_res_info

    # --- Final Records ---
    # Add TER record for the very last chain in the last model
    if last_chain_id is not None:
        ter_serial = str(last_serial + 1).rjust(5)
        ter_res_name = last_res_info[2].strip().rjust(3)
        ter_chain_id = last_chain_id
        ter_res_seq = str(last_res_info[0]).rjust(4)
        ter_icode = last_res_info[1] if last_res_info[1] else ""

        ter_line = f"TER   {ter_serial}      {ter_res_name} {ter_chain_id}{ter_res_seq}{ter_icode}"
        buffer.write(ter_line.ljust(80) + "\n")

    # Add ENDMDL if models were used
    if last_model_num is not None:
        buffer.write("ENDMDL\n")

    buffer.write("END\n")

    # --- Output Handling ---
    content = buffer.getvalue()
    buffer.close()

    if output is not None:
        if isinstance(output, str):
            with open(output, "w") as f:
                f.write(content)
        else:
            output.write(content)
        return None
    else:
        return content


def write_cif(
    df: pd.DataFrame, output: Union[str, TextIO, None] = None
) -> Union[str, None]:
    """
    Write a DataFrame of atom records to mmCIF format.

    Parameters:
    -----------
    df : pd.DataFrame
        DataFrame containing atom records, as created by parse_pdb_atoms or parse_cif_atoms
    output : Union[str, TextIO, None], optional
        Output file path or file-like object. If None, returns the mmCIF content as a string.

    Returns:
    --------
    Union[str, None]
        If output is None, returns the mmCIF content as a string. Otherwise, returns None.
    """
    # Get the format of the DataFrame
    format_type = df.attrs.get("format", "PDB")

    # Create a new DataContainer
    data_container = DataContainer("rnapolis")

    # Define the attributes for atom_site category
    if format_type == "mmCIF":
        # Use existing mmCIF attributes
        attributes = list(df.columns)
    else:  # PDB format
        # Map PDB columns to mmCIF attributes
        attributes = [
            "group_PDB",  # record_type
            "id",  # serial
            "type_symbol",  # element
            "label_atom_id",  # name
            "label_alt_id",  # altLoc
            "label_comp_id",  # resName
            "label_asym_id",  # chainID
            "label_entity_id",  # (generated)
            "label_seq_id",  # resSeq
            "pdbx_PDB_ins_code",  # iCode
            "Cartn_x",  # x
            "Cartn_y",  # y
            "Cartn_z",  # z
            "occupancy",  # occupancy
            "B_iso_or_equiv",  # tempFactor
            "pdbx_formal_charge",  # charge
            "auth_seq_id",  # resSeq
            "auth_comp_id",  # resName
            "auth_asym_id",  # chainID
            "auth_atom_id",  # name
            "pdbx_PDB_model_num",  # model
        ]

    # Prepare rows for the atom_site category
    rows = []

    for _, row in df.iterrows():
        if format_type == "mmCIF":
            # Use existing mmCIF data, converting None to '?' universally
            row_data = []
            for attr in attributes:
                value = row.get(attr)
                if pd.isna(value):
                    # Use '?' as the standard placeholder for missing values
                    row_data.append("?")
                else:
                    # Ensure all non-missing values are converted to string
                    row_data.append(str(value))
        else:  # PDB format
            # Map PDB data to mmCIF format, converting None to '.' or '?'
            entity_id = "1"  # Default entity ID
            model_num = str(int(row["model"]))

            # Pre-process optional fields for mmCIF placeholders
            element_val = "?" if pd.isna(row.get("element")) else str(row["element"])
            altloc_val = "." if pd.isna(row.get("altLoc")) else str(row["altLoc"])
            icode_val = "." if pd.isna(row.get("iCode")) else str(row["iCode"])
            charge_val = "." if pd.isna(row.get("charge")) else str(row["charge"])
            # PDB writes charges as digit + sign (2+, 1-), mmCIF as an integer
            if len(charge_val) == 2 and charge_val[0].isdigit():
                if charge_val[1] == "+":
                    charge_val = charge_val[0]
                elif charge_val[1] == "-":
                    charge_val = "-" + charge_val[0]

            row_data = [
                str(row["record_type"]),  # group_PDB
                str(int(row["serial"])),  # id
                element_val,  # type_symbol
                str(row["name"]),  # label_atom_id
                altloc_val,  # label_alt_id
                str(row["resName"]),  # label_comp_id
                str(row["chainID"]),  # label_asym_id
                entity_id,  # label_entity_id
                str(int(row["resSeq"])),  # label_seq_id
                icode_val,  # pdbx_PDB_ins_code
                f"{float(row['x']):.3f}",  # Cartn_x
                f"{float(row['y']):.3f}",  # Cartn_y
                f"{float(row['z']):.3f}",  # Cartn_z
                f"{float(row['occupancy']):.2f}",  # occupancy
                f"{float(row['tempFactor']):.2f}",  # B_iso_or_equiv
                charge_val,  # pdbx_formal_charge
                str(int(row["resSeq"])),  # auth_seq_id
                str(row["resName"]),  # auth_comp_id
                str(row["chainID"]),  # auth_asym_id
                str(row["name"]),  # auth_atom_id
                model_num,  # pdbx_PDB_model_num
            ]

        rows.append(row_data)

    # Create the atom_site category
    atom_site_category = DataCategory("atom_site", attributes, rows)

    # Add the category to the data container
    data_container.append(atom_site_category)

    # Create an IoAdapter for writing
    adapter = IoAdapterPy()

    # Handle output
    if output is None:
        # Return as string - write to a temporary file and read it back
        with tempfile.NamedTemporaryFile(mode="w+", suffix=".cif") as temp_file:
            adapter.writeFile(temp_file.name, [data_container])
            temp_file.flush()
            temp_file.seek(0)
            return temp_file.read()
    elif isinstance(output, str):
        # Write to a file path
        adapter.writeFile(output, [data_container])
        return None
    else:
        # Write to a file-like object
        with tempfile.NamedTemporaryFile(mode="w+", suffix=".cif") as temp_file:
            adapter.writeFile(temp_file.name, [data_container])
            temp_file.flush()
            temp_file.seek(0)
            output.write(temp_file.read())
        return None
