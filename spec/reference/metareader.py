#! /usr/bin/env python
import argparse
from typing import IO, Dict, List

import orjson
import pandas as pd
from mmcif.io.IoAdapterPy import IoAdapterPy
from mmcif.io.PdbxReader import DataContainer
from rnapolis.util import handle_input_file


def convert_category(data: List[DataContainer], category_name: str) -> List[Dict]:
    category = data[0].getObj(category_name)
    if category:
        return [
            dict(zip(category.getAttributeList(), row)) for row in category.getRowList()
        ]
    return []


def read_metadata(file: IO[str], categories: List[str]) -> Dict:
    adapter = IoAdapterPy()
    data = adapter.readFile(file.name)
    return {key: convert_category(data, key) for key in categories}


def list_metadata(file: IO[str]) -> List[str]:
    adapter = IoAdapterPy()
    data = adapter.readFile(file.name)
    return data[0].getObjNameList()


def main():
    parser = argparse.ArgumentParser()
    parser.add_argument("path", help="path to mmCIF file")
    parser.add_argument(
        "--category",
        "-c",
        help="an mmCIF category to extract, you can provide as many as you want (default=struct)",
        action="append",
        default=["struct"],
    )
    parser.add_argument(
        "--list-categories",
        "-l",
        help="read the mmCIF file and list categories available inside",
        action="store_true",
    )
    parser.add_argument(
        "--csv-directory",
        help="directory where to output CSV per each category",
    )
    args = parser.parse_args()

    file = handle_input_file(args.path)

    if args.list_categories:
        for name in list_metadata(file):
            print(name)
    else:
        result = read_metadata(file, args.category)
        print(orjson.dumps(result).decode("utf-8"))

        if args.csv_directory:
            for category in result:
                with open(f"{args.csv_directory}/{category}.csv", "w") as f:
                    df = pd.DataFrame(result[category])
                    df.to_csv(f, index=False)


if __name__ == "__main__":
    main()
