#! /usr/bin/env python
import argparse
import csv
import logging
import math
import os
from collections import Counter, defaultdict
from typing import Dict, List, Optional, Set, Tuple

import numpy
import numpy.typing
import orjson
import pandas as pd
from ordered_set import OrderedSet
from scipy.spatial import KDTree

from rnapolis.common import (
    BR,
    BaseInteractions,
    BasePair,
    BasePhosphate,
    BaseRibose,
    BPh,
    BpSeq,
    LeontisWesthof,
    Residue,
    Saenger,
    Stacking,
    StackingTopology,
    Stem,
    Structure2D,
)
from rnapolis.parser import read_3d_structure
from rnapolis.tertiary import (
    AVERAGE_OXYGEN_PHOSPHORUS_DISTANCE_COVALENT,
    BASE_ACCEPTORS,
    BASE_ATOMS,
    BASE_DONORS,
    BASE_EDGES,
    PHOSPHATE_ACCEPTORS,
    RIBOSE_ACCEPTORS,
    Atom,
    Mapping2D3D,  # Added import
    Residue3D,
    Structure3D,
    calculate_all_inter_stem_parameters,  # Import the new helper function
    torsion_angle,
)
from rnapolis.util import handle_input_file

HYDROGEN_BOND_MAX_DISTANCE = 4.0
HYDROGEN_BOND_ANGLE_RANGE = (50.0, 130.0)  # 90 degrees is ideal, so allow +- 40 degrees
STACKING_MAX_DISTANCE = 6.0
STACKING_MAX_ANGLE_BETWEEN_NORMALS = 35.0
STACKING_MAX_ANGLE_BETWEEN_VECTOR_AND_NORMAL = 45.0

logging.basicConfig(level=os.getenv("LOGLEVEL", "INFO").upper())


def angle_between_vectors(
    v1: numpy.typing.NDArray[numpy.floating], v2: numpy.typing.NDArray[numpy.floating]
) -> float:
    return math.acos(numpy.dot(v1, v2) / numpy.linalg.norm(v1) / numpy.linalg.norm(v2))


def detect_cis_trans(residue_i: Residue3D, residue_j: Residue3D) -> Optional[str]:
    c1p_i = residue_i.find_atom("C1'")
    c1p_j = residue_j.find_atom("C1'")

    if residue_i.one_letter_name in "AG":
        n9n1_i = residue_i.find_atom("N9")
    else:
        n9n1_i = residue_i.find_atom("N1")

    if residue_j.one_letter_name in "AG":
        n9n1_j = residue_j.find_atom("N9")
    else:
        n9n1_j = residue_j.find_atom("N1")

    if c1p_i is None or c1p_j is None or n9n1_i is None or n9n1_j is None:
        return None

    torsion = math.degrees(torsion_angle(c1p_i, n9n1_i, n9n1_j, c1p_j))
    return "c" if -90.0 < torsion < 90.0 else "t"


def detect_saenger(
    residue_i: Residue3D, residue_j: Residue3D, lw: LeontisWesthof
) -> Optional[Saenger]:
    key = (f"{residue_i.one_letter_name}{residue_j.one_letter_name}", lw.value)
    if key in Saenger.table():
        return Saenger[Saenger.table()[key]]
    return None


def detect_bph_br_classification(
    donor_residue: Residue3D, donor: Atom, acceptor: Atom
) -> Optional[int]:
    # source: Classification and energetics of the base-phosphate interactions in RNA. Craig L. Zirbel, Judit E. Sponer, Jiri Sponer, Jesse Stombaugh and Neocles B. Leontis
    if donor_residue.one_letter_name == "A":
        if donor.name == "C2":
            return 2
        if donor.name == "N6":
            n1 = donor_residue.find_atom("N1")
            c6 = donor_residue.find_atom("C6")
            if n1 is not None and c6 is not None:
                torsion = math.degrees(torsion_angle(n1, c6, donor, acceptor))
                return 6 if -90.0 < torsion < 90.0 else 7
        if donor.name == "C8":
            return 0

    if donor_residue.one_letter_name == "G":
        if donor.name == "N1":
            return 5
        if donor.name == "N2":
            n3 = donor_residue.find_atom("N3")
            c2 = donor_residue.find_atom("C2")
            if n3 is not None and c2 is not None:
                torsion = math.degrees(torsion_angle(n3, c2, donor, acceptor))
                return 1 if -90.0 < torsion < 90.0 else 3
        if donor.name == "C8":
            return 0

    if donor_residue.one_letter_name == "C":
        if donor.name == "N4":
            n3 = donor_residue.find_atom("N3")
            c4 = donor_residue.find_atom("C4")
            if n3 is not None and c4 is not None:
                torsion = math.degrees(torsion_angle(n3, c4, donor, acceptor))
                return 6 if -90.0 < torsion < 90.0 else 7
        if donor.name == "C5":
            return 9
        if donor.name == "C6":
            return 0

    if donor_residue.one_letter_name == "U":
        if donor.name == "N3":
            return 5
        if donor.name == "C5":
            return 9
        if donor.name == "C6":
            return 0

    if donor_residue.one_letter_name == "T":
        if donor.name == "N3":
            return 5
        if donor.name == "C6":
            return 0
        if donor.name == "C7":
            return 9

    return None


def merge_and_clean_bph_br(
    pairs: List[Tuple[Residue3D, Residue3D, int]],
) -> Dict[Tuple[Residue3D, Residue3D], OrderedSet[int]]:
    bph_br_map: Dict[Tuple[Residue3D, Residue3D], OrderedSet[int]] = defaultdict(
        OrderedSet
    )
    for residue_i, residue_j, classification in pairs:
        bph_br_map[(residue_i, residue_j)].add(classification)
    for bphs_brs in bph_br_map.values():
        # 3BPh and 5BPh simultanously means that it is actually 4BPh
        if 3 in bphs_brs and 5 in bphs_brs:
            bphs_brs.remove(3)
            bphs_brs.remove(5)
            bphs_brs.add(4)
        # 7BPh and 9BPh simultanously means that it is actually 8BPh
        if 7 in bphs_brs and 9 in bphs_brs:
            bphs_brs.remove(7)
            bphs_brs.remove(9)
            bphs_brs.add(8)
    for key, bphs_brs in bph_br_map.items():
        if len(bphs_brs) > 1:
            bph_br_map[key] = OrderedSet([bphs_brs[0]])
    return bph_br_map


def find_pairs(
    structure: Structure3D, model: Optional[int] = None
) -> Tuple[List[BasePair], List[BasePhosphate], List[BaseRibose]]:
    # put all donors and acceptors into a KDTree
    coordinates = []
    coordinates_atom_map: Dict[Tuple[float, float, float], Atom] = {}
    coordinates_type_map: Dict[Tuple[float, float, float], str] = {}
    coordinates_residue_map: Dict[Tuple[float, float, float], Residue3D] = {}
    for residue in structure.residues:
        if model is not None and residue.model != model:
            continue
        acceptors = (
            BASE_ACCEPTORS.get(residue.one_letter_name, [])
            + RIBOSE_ACCEPTORS
            + PHOSPHATE_ACCEPTORS
        )
        donors = BASE_DONORS.get(residue.one_letter_name, [])
        # an atom listed as acceptor and as donor (O2') is one point, not two
        for atom_name in dict.fromkeys(acceptors + donors):
            atom = residue.find_atom(atom_name)
            if atom:
                xyz = (atom.x, atom.y, atom.z)
                coordinates.append(xyz)
                coordinates_atom_map[xyz] = atom
                coordinates_type_map[xyz] = (
                    "acceptor" if atom_name in acceptors else "donor"
                )
                coordinates_residue_map[xyz] = residue

    if len(coordinates) < 2:
        return [], [], []

    kdtree = KDTree(coordinates)

    # find all hydrogen bonds
    hydrogen_bonds = []
    base_phosphate_pairs = []
    base_ribose_pairs = []
    used_atoms: Set[Atom] = set()
    # in atom order: the set returned by query_pairs iterates in an order that
    # depends on the coordinates, and used_atoms is first come, first served
    for i, j in sorted(kdtree.query_pairs(HYDROGEN_BOND_MAX_DISTANCE)):
        type_i = coordinates_type_map[coordinates[i]]
        type_j = coordinates_type_map[coordinates[j]]

        # process only acceptor/donor pairs, not acceptor/acceptor or donor/donor
        if type_i == type_j:
            continue

        atom_i = coordinates_atom_map[coordinates[i]]
        atom_j = coordinates_atom_map[coordinates[j]]

        # skip spurious hydrogen bonds in the same residue
        if (
            atom_i.label is not None
            and atom_i.label is not None
            and atom_i.label == atom_j.label
        ):
            continue
        if (
            atom_i.auth is not None
            and atom_i.auth is not None
            and atom_i.auth == atom_j.auth
        ):
            continue

        residue_i = coordinates_residue_map[coordinates[i]]
        residue_j = coordinates_residue_map[coordinates[j]]
        logging.debug(
            f"Checking pair {residue_i.full_name} {atom_i.name} - {residue_j.full_name} {atom_j.name}"
        )

        # check for base-phosphate contacts
        if (
            (atom_i.name in PHOSPHATE_ACCEPTORS or atom_j.name in PHOSPHATE_ACCEPTORS)
            and atom_i not in used_atoms
            and atom_j not in used_atoms
        ):
            logging.debug("Checking base-phosphate interaction")
            if type_i == "donor":
                donor_residue, acceptor_residue = residue_i, residue_j
                donor_atom, acceptor_atom = atom_i, atom_j
            else:
                donor_residue, acceptor_residue = residue_j, residue_i
                donor_atom, acceptor_atom = atom_j, atom_i
            bph = detect_bph_br_classification(donor_residue, donor_atom, acceptor_atom)
            if bph is not None:
                used_atoms.add(atom_i)
                used_atoms.add(atom_j)
                base_phosphate_pairs.append((donor_residue, acceptor_residue, bph))
            continue

        # check for base-ribose contacts
        if (
            (atom_i.name in RIBOSE_ACCEPTORS or atom_j.name in RIBOSE_ACCEPTORS)
            and atom_i not in used_atoms
            and atom_j not in used_atoms
        ):
            logging.debug("Checking base-ribose interaction")
            if type_i == "donor":
                donor_residue, acceptor_residue = residue_i, residue_j
                donor_atom, acceptor_atom = atom_i, atom_j
            else:
                donor_residue, acceptor_residue = residue_j, residue_i
                donor_atom, acceptor_atom = atom_j, atom_i
            br = detect_bph_br_classification(donor_residue, donor_atom, acceptor_atom)
            if br is not None:
                used_atoms.add(atom_i)
                used_atoms.add(atom_j)
                base_ribose_pairs.append((donor_residue, acceptor_residue, br))
            continue

        # check for base-base contacts
        if residue_i.base_normal_vector is None or residue_j.base_normal_vector is None:
            continue

        logging.debug("Checking base-base interaction")
        vector = atom_i.coordinates - atom_j.coordinates
        angle1 = math.degrees(
            angle_between_vectors(residue_i.base_normal_vector, vector)
        )
        angle2 = math.degrees(
            angle_between_vectors(residue_j.base_normal_vector, vector)
        )
        logging.debug(
            f"Angles between normals and hydrogen bond: {angle1:.2f} and {angle2:.2f}"
        )
        if (
            HYDROGEN_BOND_ANGLE_RANGE[0] < angle1 < HYDROGEN_BOND_ANGLE_RANGE[1]
            and HYDROGEN_BOND_ANGLE_RANGE[0] < angle2 < HYDROGEN_BOND_ANGLE_RANGE[1]
        ):
            hydrogen_bonds.append((atom_i, atom_j, residue_i, residue_j))

    # match hydrogen bonds with base edges
    labels = []
    for atom_i, atom_j, residue_i, residue_j in hydrogen_bonds:
        edges_i = BASE_EDGES.get(residue_i.one_letter_name, dict()).get(
            atom_i.name, None
        )
        edges_j = BASE_EDGES.get(residue_j.one_letter_name, dict()).get(
            atom_j.name, None
        )
        if edges_i is None or edges_j is None:
            continue

        # detect cis/trans
        cis_trans = detect_cis_trans(residue_i, residue_j)
        if cis_trans is None:
            continue

        logging.debug(
            f"Matched {residue_i.full_name} with {residue_j.full_name} as {cis_trans} {edges_i} {edges_j}"
        )

        if residue_i < residue_j:
            for edge_i in edges_i:
                for edge_j in edges_j:
                    labels.append((residue_i, residue_j, cis_trans, edge_i, edge_j))
        else:
            for edge_i in edges_i:
                for edge_j in edges_j:
                    labels.append((residue_j, residue_i, cis_trans, edge_j, edge_i))

    # create a list of base pairs
    base_base_pairs = []
    occupied = set()

    counter = Counter(labels)
    for interaction, hydrogen_bond_count in counter.most_common():
        if hydrogen_bond_count < 2:
            continue

        residue_i, residue_j, cis_trans, edge_i, edge_j = interaction

        if (residue_i, edge_i) in occupied:
            continue
        if (residue_j, edge_j) in occupied:
            continue

        occupied.add((residue_i, edge_i))
        occupied.add((residue_j, edge_j))

        lw = LeontisWesthof[f"{cis_trans}{edge_i}{edge_j}"]
        base_base_pairs.append((residue_i, residue_j, lw))

    base_pairs = []
    for residue_i, residue_j, lw in sorted(base_base_pairs):
        base_pairs.append(
            BasePair(
                Residue(residue_i.label, residue_i.auth),
                Residue(residue_j.label, residue_j.auth),
                lw,
                detect_saenger(residue_i, residue_j, lw),
            )
        )

    bph_map = merge_and_clean_bph_br(sorted(base_phosphate_pairs))
    base_phosphates = []
    for pair, bphs in bph_map.items():
        residue_i, residue_j = pair
        for bph in bphs:
            base_phosphates.append(
                BasePhosphate(
                    Residue(residue_i.label, residue_i.auth),
                    Residue(residue_j.label, residue_j.auth),
                    BPh[f"_{bph}"],
                )
            )

    br_map = merge_and_clean_bph_br(sorted(base_ribose_pairs))
    base_riboses = []
    for pair, brs in br_map.items():
        residue_i, residue_j = pair
        for br in brs:
            base_riboses.append(
                BaseRibose(
                    Residue(residue_i.label, residue_i.auth),
                    Residue(residue_j.label, residue_j.auth),
                    BR[f"_{br}"],
                )
            )

    return base_pairs, base_phosphates, base_riboses


def find_stackings(
    structure: Structure3D, model: Optional[int] = None
) -> List[Stacking]:
    # put all nitrogen ring centers into a KDTree
    coordinates = []
    coordinates_residue_map: Dict[Tuple[float, float, float], Residue3D] = {}
    for residue in structure.residues:
        if model is not None and residue.model != model:
            continue
        base_atoms = BASE_ATOMS.get(residue.one_letter_name, [])
        xs, ys, zs = [], [], []
        for atom_name in base_atoms:
            atom = residue.find_atom(atom_name)
            if atom is not None:
                xs.append(atom.x)
                ys.append(atom.y)
                zs.append(atom.z)
        if len(xs) > 0:
            geometric_center = (sum(xs) / len(xs), sum(ys) / len(ys), sum(zs) / len(zs))
            coordinates.append(geometric_center)
            coordinates_residue_map[geometric_center] = residue

    if len(coordinates) < 2:
        return []

    kdtree = KDTree(coordinates)

    # find all stacking interaction
    pairs = []
    for i, j in kdtree.query_pairs(STACKING_MAX_DISTANCE):
        residue_i = coordinates_residue_map[coordinates[i]]
        residue_j = coordinates_residue_map[coordinates[j]]

        # check angle between normals
        normal_i = residue_i.base_normal_vector
        normal_j = residue_j.base_normal_vector
        if normal_i is None or normal_j is None:
            continue

        angle = min(
            [
                angle_between_vectors(normal_i, normal_j),
                angle_between_vectors(-normal_i, normal_j),
            ]
        )
        if math.degrees(angle) > STACKING_MAX_ANGLE_BETWEEN_NORMALS:
            continue

        vector = numpy.array([coordinates[i][k] - coordinates[j][k] for k in (0, 1, 2)])
        angle = min(
            angle_between_vectors(vector, normal_i),
            angle_between_vectors(vector, normal_j),
        )
        if math.degrees(angle) > STACKING_MAX_ANGLE_BETWEEN_VECTOR_AND_NORMAL:
            continue

        same_direction = True if numpy.dot(normal_i, normal_j) > 0.0 else False

        if residue_i < residue_j:
            if same_direction:
                pairs.append((residue_i, residue_j, "upward"))
            else:
                pairs.append((residue_i, residue_j, "inward"))
        else:
            if same_direction:
                pairs.append((residue_j, residue_i, "downward"))
            else:
                pairs.append((residue_j, residue_i, "outward"))

    stackings = []
    for residue_i, residue_j, topology in sorted(pairs):
        nt1 = Residue(residue_i.label, residue_i.auth)
        nt2 = Residue(residue_j.label, residue_j.auth)
        stackings.append(Stacking(nt1, nt2, StackingTopology[topology]))

    return stackings


def extract_base_interactions(
    tertiary_structure: Structure3D, model: Optional[int] = None
) -> BaseInteractions:
    base_pairs, base_phosphate, base_ribose = find_pairs(tertiary_structure, model)
    stackings = find_stackings(tertiary_structure, model)
    return BaseInteractions(base_pairs, stackings, base_ribose, base_phosphate, [])


def extract_secondary_structure(
    tertiary_structure: Structure3D,
    model: Optional[int] = None,
    find_gaps: bool = False,
    all_dot_brackets: bool = False,
) -> Tuple[Structure2D, List[str]]:
    base_interactions = extract_base_interactions(tertiary_structure, model)
    mapping = Mapping2D3D(
        tertiary_structure,
        base_interactions.basePairs,
        base_interactions.stackings,
        find_gaps,
    )
    stems, single_strands, hairpins, loops = mapping.bpseq.elements

    # Calculate inter-stem parameters using the helper function
    inter_stem_params = calculate_all_inter_stem_parameters(mapping)

    structure2d = Structure2D(
        base_interactions,
        str(mapping.bpseq),
        mapping.dot_bracket,
        mapping.extended_dot_bracket,
        stems,
        single_strands,
        hairpins,
        loops,
        inter_stem_params,  # Added inter-stem parameters
    )
    if all_dot_brackets:
        return structure2d, mapping.all_dot_brackets
    else:
        return structure2d, [structure2d.dotBracket]


def generate_pymol_script(mapping: Mapping2D3D, stems: List[Stem]) -> str:
    """Generates a PyMOL script to draw stems as cylinders."""
    pymol_commands = []
    radius = 0.5
    r, g, b = 1.0, 0.0, 0.0  # Red color

    for stem_idx, stem in enumerate(stems):
        # Get residues for selection string
        try:
            res5p_first = mapping.bpseq_index_to_residue_map[stem.strand5p.first]
            res5p_last = mapping.bpseq_index_to_residue_map[stem.strand5p.last]
            res3p_first = mapping.bpseq_index_to_residue_map[stem.strand3p.first]
            res3p_last = mapping.bpseq_index_to_residue_map[stem.strand3p.last]

            # Prefer auth chain/number if available
            chain5p = (
                res5p_first.auth.chain if res5p_first.auth else res5p_first.label.chain
            )
            num5p_first = (
                res5p_first.auth.number
                if res5p_first.auth
                else res5p_first.label.number
            )
            num5p_last = (
                res5p_last.auth.number if res5p_last.auth else res5p_last.label.number
            )

            chain3p = (
                res3p_first.auth.chain if res3p_first.auth else res3p_first.label.chain
            )
            num3p_first = (
                res3p_first.auth.number
                if res3p_first.auth
                else res3p_first.label.number
            )
            num3p_last = (
                res3p_last.auth.number if res3p_last.auth else res3p_last.label.number
            )

            # Format selection string: select stem0, A/1-5/ or A/10-15/
            selection_str = f"{chain5p}/{num5p_first}-{num5p_last}/ or {chain3p}/{num3p_first}-{num3p_last}/"
            pymol_commands.append(f"select stem{stem_idx}, {selection_str}")

        except (KeyError, AttributeError) as e:
            logging.warning(
                f"Could not generate selection string for stem {stem_idx}: Missing residue data ({e})"
            )

        centroids = mapping.get_stem_coordinates(stem)

        # Need at least 2 centroids to draw a segment
        if len(centroids) < 2:
            # Removed warning log for stems with < 2 base pairs
            continue

        # Create pseudoatoms for each centroid
        for centroid_idx, centroid in enumerate(centroids):
            x, y, z = centroid
            pseudoatom_name = f"stem{stem_idx}_centroid{centroid_idx}"
            pymol_commands.append(
                f"pseudoatom {pseudoatom_name}, pos=[{x:.3f}, {y:.3f}, {z:.3f}]"
            )

        # Draw cylinders between consecutive centroids
        for seg_idx in range(len(centroids) - 1):
            p1 = centroids[seg_idx]
            p2 = centroids[seg_idx + 1]
            x1, y1, z1 = p1
            x2, y2, z2 = p2
            # Format: [CYLINDER, x1, y1, z1, x2, y2, z2, radius, r1, g1, b1, r2, g2, b2]
            # Use 9.0 for CYLINDER code
            # Use same color for both ends
            cgo_object = f"[ 9.0, {x1:.3f}, {y1:.3f}, {z1:.3f}, {x2:.3f}, {y2:.3f}, {z2:.3f}, {radius}, {r}, {g}, {b}, {r}, {g}, {b} ]"
            pymol_commands.append(
                f'cmd.load_cgo({cgo_object}, "stem_{stem_idx}_seg_{seg_idx}")'
            )

        # Calculate and display dihedral angles between consecutive centroids
        if len(centroids) >= 4:
            for i in range(len(centroids) - 3):
                pa1 = f"stem{stem_idx}_centroid{i}"
                pa2 = f"stem{stem_idx}_centroid{i + 1}"
                pa3 = f"stem{stem_idx}_centroid{i + 2}"
                pa4 = f"stem{stem_idx}_centroid{i + 3}"
                dihedral_name = f"stem{stem_idx}_dihedral{i}"
                pymol_commands.append(
                    f"dihedral {dihedral_name}, {pa1}, {pa2}, {pa3}, {pa4}"
                )

    return "\n".join(pymol_commands)


def write_json(path: str, structure2d: Structure2D):
    with open(path, "wb") as f:
        # Add OPT_SERIALIZE_NUMPY to handle numpy types like float64
        f.write(orjson.dumps(structure2d, option=orjson.OPT_SERIALIZE_NUMPY))


def write_csv(path: str, structure2d: Structure2D):
    with open(path, "w") as f:
        writer = csv.writer(f)
        writer.writerow(["nt1", "nt2", "type", "classification-1", "classification-2"])
        for base_pair in structure2d.baseInteractions.basePairs:
            writer.writerow(
                [
                    base_pair.nt1.full_name,
                    base_pair.nt2.full_name,
                    "base pair",
                    base_pair.lw.value,
                    (
                        base_pair.saenger.value or ""
                        if base_pair.saenger is not None
                        else ""
                    ),
                ]
            )
        for stacking in structure2d.baseInteractions.stackings:
            writer.writerow(
                [
                    stacking.nt1.full_name,
                    stacking.nt2.full_name,
                    "stacking",
                    stacking.topology.value if stacking.topology is not None else "",
                    "",
                ]
            )
        for base_phosphate in structure2d.baseInteractions.basePhosphateInteractions:
            writer.writerow(
                [
                    base_phosphate.nt1.full_name,
                    base_phosphate.nt2.full_name,
                    "base-phosphate interaction",
                    base_phosphate.bph.value if base_phosphate.bph is not None else "",
                    "",
                ]
            )
        for base_ribose in structure2d.baseInteractions.baseRiboseInteractions:
            writer.writerow(
                [
                    base_ribose.nt1.full_name,
                    base_ribose.nt2.full_name,
                    "base-ribose interaction",
                    base_ribose.br.value if base_ribose.br is not None else "",
                    "",
                ]
            )
        for other in structure2d.baseInteractions.otherInteractions:
            writer.writerow(
                [
                    other.nt1.full_name,
                    other.nt2.full_name,
                    "other interaction",
                    "",
                    "",
                ]
            )


def write_bpseq(path: str, bpseq: BpSeq):
    with open(path, "w") as f:
        f.write(str(bpseq))


def add_common_output_arguments(parser: argparse.ArgumentParser):
    """Adds common output and processing arguments to the parser."""
    parser.add_argument(
        "-a",
        "--all-dot-brackets",
        action="store_true",
        help="(optional) print all dot-brackets, not only optimal one (exclusive with -e/--extended)",
    )
    parser.add_argument("-b", "--bpseq", help="(optional) path to output BPSEQ file")
    parser.add_argument("-c", "--csv", help="(optional) path to output CSV file")
    parser.add_argument(
        "-j",
        "--json",
        help="(optional) path to output JSON file",
    )
    parser.add_argument(
        "-e",
        "--extended",
        action="store_true",
        help="(optional) if set, the program will print extended secondary structure to the standard output",
    )
    parser.add_argument("-d", "--dot", help="(optional) path to output DOT file")
    parser.add_argument(
        "-p", "--pml", help="(optional) path to output PyMOL PML script for stems"
    )
    parser.add_argument(
        "--inter-stem-csv",
        help="(optional) path to output CSV file for inter-stem parameters",
    )
    parser.add_argument(
        "--stems-csv",
        help="(optional) path to output CSV file for stem details",
    )


def handle_output_arguments(
    args: argparse.Namespace,
    structure2d: Structure2D,
    dot_brackets: List[str],
    mapping: Mapping2D3D,
    input_filename: str,
):
    """Handles writing output based on provided arguments."""
    input_basename = os.path.basename(input_filename)
    if args.csv:
        write_csv(args.csv, structure2d)

    if args.json:
        write_json(args.json, structure2d)

    if args.bpseq:
        write_bpseq(args.bpseq, structure2d.bpseq)

    if args.extended:
        print(structure2d.extendedDotBracket)
    elif args.all_dot_brackets:
        for dot_bracket in dot_brackets:
            print(dot_bracket)
    else:
        print(structure2d.dotBracket)

    if args.dot:
        print(BpSeq.from_string(structure2d.bpseq).graphviz)

    if args.pml:
        pml_script = generate_pymol_script(mapping, structure2d.stems)
        with open(args.pml, "w") as f:
            f.write(pml_script)

    if args.inter_stem_csv:
        if structure2d.interStemParameters:
            # Convert list of dataclasses to list of dicts
            params_list = [
                {
                    "stem1_idx": p.stem1_idx,
                    "stem2_idx": p.stem2_idx,
                    "type": p.type,
                    "torsion": p.torsion,
                    "min_endpoint_distance": p.min_endpoint_distance,
                    "torsion_angle_pdf": p.torsion_angle_pdf,
                    "min_endpoint_distance_pdf": p.min_endpoint_distance_pdf,
                    "coaxial_probability": p.coaxial_probability,
                }
                for p in structure2d.interStemParameters
            ]
            df = pd.DataFrame(params_list)
            df["input_basename"] = input_basename
            # Reorder columns to put input_basename first
            cols = ["input_basename"] + [
                col for col in df.columns if col != "input_basename"
            ]
            df = df[cols]
            df.to_csv(args.inter_stem_csv, index=False)
        else:
            logging.warning(
                f"No inter-stem parameters calculated for {input_basename}, CSV file '{args.inter_stem_csv}' will be empty or not created."
            )
            # Optionally create an empty file with headers
            # pd.DataFrame(columns=['input_basename', 'stem1_idx', ...]).to_csv(args.inter_stem_csv, index=False)

    if args.stems_csv:
        if structure2d.stems:
            stems_data = []
            for i, stem in enumerate(structure2d.stems):
                try:
                    res5p_first = mapping.bpseq_index_to_residue_map.get(
                        stem.strand5p.first
                    )
                    res5p_last = mapping.bpseq_index_to_residue_map.get(
                        stem.strand5p.last
                    )
                    res3p_first = mapping.bpseq_index_to_residue_map.get(
                        stem.strand3p.first
                    )
                    res3p_last = mapping.bpseq_index_to_residue_map.get(
                        stem.strand3p.last
                    )

                    stems_data.append(
                        {
                            "stem_idx": i,
                            "strand5p_first_nt_id": res5p_first.full_name
                            if res5p_first
                            else None,
                            "strand5p_last_nt_id": res5p_last.full_name
                            if res5p_last
                            else None,
                            "strand3p_first_nt_id": res3p_first.full_name
                            if res3p_first
                            else None,
                            "strand3p_last_nt_id": res3p_last.full_name
                            if res3p_last
                            else None,
                            "strand5p_sequence": stem.strand5p.sequence,
                            "strand3p_sequence": stem.strand3p.sequence,
                        }
                    )
                except KeyError as e:
                    logging.warning(
                        f"Could not find residue for stem {i} (index {e}), skipping stem details."
                    )
                    continue

            if stems_data:
                df_stems = pd.DataFrame(stems_data)
                df_stems["input_basename"] = input_basename
                # Reorder columns
                stem_cols = ["input_basename", "stem_idx"] + [
                    col
                    for col in df_stems.columns
                    if col not in ["input_basename", "stem_idx"]
                ]
                df_stems = df_stems[stem_cols]
                df_stems.to_csv(args.stems_csv, index=False)
            else:
                logging.warning(
                    f"No valid stem data generated for {input_basename}, CSV file '{args.stems_csv}' will be empty or not created."
                )
        else:
            logging.warning(
                f"No stems found for {input_basename}, CSV file '{args.stems_csv}' will be empty or not created."
            )


def main():
    parser = argparse.ArgumentParser()
    parser.add_argument("input", help="Path to PDB or mmCIF file")
    parser.add_argument(
        "-f",
        "--find-gaps",
        action="store_true",
        help="(optional) if set, the program will detect gaps and break the PDB chain into two or more strands; "
        f"the gap is defined as O3'-P distance greater then {1.5 * AVERAGE_OXYGEN_PHOSPHORUS_DISTANCE_COVALENT}",
    )
    add_common_output_arguments(parser)
    args = parser.parse_args()

    file = handle_input_file(args.input)
    structure3d = read_3d_structure(file, None)
    structure2d, dot_brackets = extract_secondary_structure(
        structure3d, None, args.find_gaps, args.all_dot_brackets
    )

    # Need the mapping object for PML generation
    mapping = Mapping2D3D(
        structure3d,
        structure2d.baseInteractions.basePairs,
        structure2d.baseInteractions.stackings,
        args.find_gaps,
    )

    handle_output_arguments(args, structure2d, dot_brackets, mapping, args.input)


if __name__ == "__main__":
    main()
