import gzip
import os
import tempfile
from typing import IO


def handle_input_file(path) -> IO[str]:
    root, ext = os.path.splitext(path)

    if ext == ".gz":
        root, ext = os.path.splitext(root)
        file = tempfile.NamedTemporaryFile("wt+", suffix=ext)
        with gzip.open(path, "rt") as f:
            file.write(f.read())
            file.seek(0)
    else:
        file = tempfile.NamedTemporaryFile("wt+", suffix=ext)
        with open(path) as f:
            file.write(f.read())
            file.seek(0)
    return file
