#!/usr/bin/env python3
import argparse
import os
import tempfile

import pandas as pd

from rnapolis.parser import is_cif
from rnapolis.parser_v2 import parse_cif_atoms, parse_pdb_atoms, write_cif, write_pdb
from rnapolis.tertiary_v2 import Structure


def main():
    """Main function to run the unifier tool."""
    parser = argparse.ArgumentParser(description="Align two PDB or mmCIF files.")
    parser.add_argument("--output", "-o", help="Output directory", required=True)
    parser.add_argument(
        "--format",
        "-f",
        help="Output format (possible values: PDB, mmCIF, keep. Default: keep)",
        default="keep",
    )
    parser.add_argument("pdb1", help="First PDB or mmCIF file")
    parser.add_argument("pdb2", help="Second PDB or mmCIF file")
    args = parser.parse_args()

    from pymol import cmd

    cmd.load(args.pdb1, "pdb1")
    cmd.load(args.pdb2, "pdb2")
    cmd.align("pdb1", "pdb2", object="aligned", cycles=0)

    pdb1_aligned = []
    pdb2_aligned = []

    with tempfile.NamedTemporaryFile("wt+", suffix=".aln") as f:
        cmd.save(f.name, "aligned")
        f.seek(0)

        for line in f:
            if line.startswith("pdb1"):
                pdb1_aligned.append(line.split()[1])
            elif line.startswith("pdb2"):
                pdb2_aligned.append(line.split()[1])

    pdb1_aligned = "".join(pdb1_aligned)
    pdb2_aligned = "".join(pdb2_aligned)
    residues_to_remove = {"pdb1": [], "pdb2": []}

    i, j = 0, 0
    for c1, c2 in zip(pdb1_aligned, pdb2_aligned):
        if c1 == c2 == "-":
            continue  # Should not happen to have gap aligned to gap, but just in case

        if c1 == c2:
            i += 1
            j += 1
            continue

        if c1 == "-":
            residues_to_remove["pdb2"].append(j)
            j += 1
            continue

        if c2 == "-":
            residues_to_remove["pdb1"].append(i)
            i += 1
            continue

        if c1 != c2:
            residues_to_remove["pdb1"].append(i)
            residues_to_remove["pdb2"].append(j)
            i += 1
            j += 1
            continue

        raise ValueError("This should not happen!")

    if not residues_to_remove["pdb1"] and not residues_to_remove["pdb2"]:
        print("Structures are already aligned")

    structures = {}
    for key, path in [("pdb1", args.pdb1), ("pdb2", args.pdb2)]:
        with open(path) as f:
            if is_cif(f):
                atoms = parse_cif_atoms(f)
            else:
                atoms = parse_pdb_atoms(f)

        structures[key] = Structure(atoms).residues

    for key, residues in structures.items():
        for i in sorted(residues_to_remove[key], reverse=True):
            del residues[i]

    # Write output
    os.makedirs(args.output, exist_ok=True)

    for (key, residues), path in zip(structures.items(), [args.pdb1, args.pdb2]):
        base, _ = os.path.splitext(os.path.basename(path))

        if args.format == "keep":
            format = residues[0].atoms.attrs["format"]
        else:
            format = args.format

        ext = ".pdb" if format == "PDB" else ".cif"

        with open(f"{args.output}/{base}{ext}", "w") as f:
            df = pd.concat([residue.atoms for residue in residues])

            if format == "PDB":
                write_pdb(df, f)
            else:
                write_cif(df, f)


if __name__ == "__main__":
    main()
