#! /usr/bin/env python
import argparse
import string
import tempfile
from typing import Dict, Tuple

from mmcif.io.IoAdapterPy import IoAdapterPy
from mmcif.io.PdbxReader import DataCategory


def copy_from_to(
    file_content: str,
    category: str = "atom_site",
    copy_from: str = "label_asym_id",
    copy_to: str = "auth_asym_id",
) -> str:
    adapter = IoAdapterPy()

    with tempfile.NamedTemporaryFile(mode="wt") as f:
        f.write(file_content)
        f.seek(0)
        data = adapter.readFile(f.name)

    if len(data) == 0 or category not in data[0].getObjNameList():
        return file_content

    category_obj = data[0].getObj(category)
    attributes = category_obj.getAttributeList()

    if copy_from not in attributes:
        return file_content

    transformed = []

    if copy_to not in attributes:
        attributes.append(copy_to)

    for row in category_obj.getRowList():
        i = attributes.index(copy_from)
        j = attributes.index(copy_to)
        if j >= len(row):
            row.append(row[i])
        else:
            row[j] = row[i]
        transformed.append(row)

    data[0].replace(DataCategory(category_obj, attributes, transformed))

    with tempfile.NamedTemporaryFile(mode="rt+") as f:
        adapter.writeFile(f.name, data)
        f.seek(0)
        return f.read()


def replace_value(
    file_content: str,
    category: str = "atom_site",
    column: str = "auth_asym_id",
    values: str = "".join([c for c in string.printable if c not in string.whitespace]),
) -> Tuple[str, Dict]:
    adapter = IoAdapterPy()
    with tempfile.NamedTemporaryFile(mode="wt") as f:
        f.write(file_content)
        f.seek(0)
        data = adapter.readFile(f.name)

    if len(data) == 0 or category not in data[0].getObjNameList():
        return file_content, {}

    category_obj = data[0].getObj(category)
    attributes = category_obj.getAttributeList()

    if column not in attributes:
        return file_content, {}

    transformed = []
    mapping = {}

    for row in category_obj.getRowList():
        i = attributes.index(column)

        if row[i] not in mapping:
            mapping[row[i]] = values[len(mapping)]

        row[i] = mapping[row[i]]
        transformed.append(row)

    data[0].replace(DataCategory(category_obj, attributes, transformed))

    with tempfile.NamedTemporaryFile(mode="rt+") as f:
        adapter.writeFile(f.name, data)
        f.seek(0)
        return f.read(), mapping


def main():
    parser = argparse.ArgumentParser()
    parser.add_argument("input", help="path to input mmCIF file")
    parser.add_argument("output", help="path to output mmCIF file")
    parser.add_argument(
        "--category", help="name of the category to work on, e.g., atom_site"
    )
    parser.add_argument(
        "--copy-from",
        help="name of a data item to copy from, e.g., label_asym_id (exclusive with --replace)",
    )
    parser.add_argument(
        "--copy-to",
        help="name of a data item to copy to, e.g., auth_asym_id (exclusive with --replace)",
    )
    parser.add_argument(
        "--replace",
        help="name of a data item to replace values, e.g., auth_asym_id (exclusive with --copy-from and --copy-to)",
    )
    parser.add_argument(
        "--values",
        help="values to replace with, e.g., ABCDEFGHIJKLMNOPQRSTUVWXYZ (exclusive with --copy-from and --copy-to)",
    )
    args = parser.parse_args()

    with open(args.input) as f:
        file_content = f.read()

    if args.copy_from and args.copy_to:
        output = copy_from_to(
            file_content, args.category, args.copy_from, args.copy_to
        )
    elif args.replace and args.values:
        output, _ = replace_value(
            file_content, args.category, args.replace, args.values
        )
    else:
        parser.print_help()
        return

    with open(args.output, "w") as f:
        f.write(output)


if __name__ == "__main__":
    main()
