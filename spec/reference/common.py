import itertools
import logging
import os
import re
import string
from collections import defaultdict
from collections.abc import Sequence
from dataclasses import dataclass
from enum import Enum
from functools import cache, cached_property, total_ordering
from typing import Dict, List, Optional, Tuple

import graphviz
import pulp

LOGLEVEL = os.environ.get("LOGLEVEL", "INFO").upper()
logging.basicConfig(level=LOGLEVEL)


class Molecule(Enum):
    DNA = "DNA"
    RNA = "RNA"
    Other = "Other"


class GlycosidicBond(Enum):
    anti = "anti"
    syn = "syn"


@total_ordering
class LeontisWesthof(Enum):
    cWW = "cWW"
    cWH = "cWH"
    cWS = "cWS"
    cHW = "cHW"
    cHH = "cHH"
    cHS = "cHS"
    cSW = "cSW"
    cSH = "cSH"
    cSS = "cSS"
    tWW = "tWW"
    tWH = "tWH"
    tWS = "tWS"
    tHW = "tHW"
    tHH = "tHH"
    tHS = "tHS"
    tSW = "tSW"
    tSH = "tSH"
    tSS = "tSS"

    @property
    def reverse(self):
        return LeontisWesthof[f"{self.name[0]}{self.name[2]}{self.name[1]}"]

    def __lt__(self, other):
        return tuple(self.value) < tuple(other.value)


class Saenger(Enum):
    I = "I"
    II = "II"
    III = "III"
    IV = "IV"
    V = "V"
    VI = "VI"
    VII = "VII"
    VIII = "VIII"
    IX = "IX"
    X = "X"
    XI = "XI"
    XII = "XII"
    XIII = "XIII"
    XIV = "XIV"
    XV = "XV"
    XVI = "XVI"
    XVII = "XVII"
    XVIII = "XVIII"
    XIX = "XIX"
    XX = "XX"
    XXI = "XXI"
    XXII = "XXII"
    XXIII = "XXIII"
    XXIV = "XXIV"
    XXV = "XXV"
    XXVI = "XXVI"
    XXVII = "XXVII"
    XXVIII = "XXVIII"

    @staticmethod
    def table() -> Dict[Tuple[str, str], str]:
        return {
            ("AA", "tWW"): "I",
            ("AA", "tHH"): "II",
            ("GG", "tWW"): "III",
            ("GG", "tSS"): "IV",
            ("AA", "tWH"): "V",
            ("AA", "tHW"): "V",
            ("GG", "cWH"): "VI",
            ("GG", "cHW"): "VI",
            ("GG", "tWH"): "VII",
            ("GG", "tHW"): "VII",
            ("AG", "cWW"): "VIII",
            ("GA", "cWW"): "VIII",
            ("AG", "cHW"): "IX",
            ("GA", "cWH"): "IX",
            ("AG", "tWS"): "X",
            ("GA", "tSW"): "X",
            ("AG", "tHS"): "XI",
            ("GA", "tSH"): "XI",
            ("UU", "tWW"): "XII",
            ("TT", "tWW"): "XII",
            # XIII is UU/TT in tWW but donor-donor, so impossible
            # XIV and XV are both CC in tWW but donor-donor, so impossible
            ("UU", "cWW"): "XVI",
            ("TT", "cWW"): "XVI",
            ("CU", "tWW"): "XVII",
            ("UC", "tWW"): "XVII",
            ("CU", "cWW"): "XVIII",
            ("UC", "cWW"): "XVIII",
            ("CG", "cWW"): "XIX",
            ("GC", "cWW"): "XIX",
            ("AU", "cWW"): "XX",
            ("UA", "cWW"): "XX",
            ("AT", "cWW"): "XX",
            ("TA", "cWW"): "XX",
            ("AU", "tWW"): "XXI",
            ("UA", "tWW"): "XXI",
            ("AT", "tWW"): "XXI",
            ("TA", "tWW"): "XXI",
            ("CG", "tWW"): "XXII",
            ("GC", "tWW"): "XXII",
            ("AU", "cHW"): "XXIII",
            ("UA", "cWH"): "XXIII",
            ("AT", "cHW"): "XXIII",
            ("TA", "cWH"): "XXIII",
            ("AU", "tHW"): "XXIV",
            ("UA", "tWH"): "XXIV",
            ("AT", "tHW"): "XXIV",
            ("TA", "tWH"): "XXIV",
            ("AC", "tHW"): "XXV",
            ("CA", "tWH"): "XXV",
            ("AC", "tWW"): "XXVI",
            ("CA", "tWW"): "XXVI",
            ("GU", "tWW"): "XXVII",
            ("UG", "tWW"): "XXVII",
            ("GT", "tWW"): "XXVII",
            ("TG", "tWW"): "XXVII",
            ("GU", "cWW"): "XXVIII",
            ("UG", "cWW"): "XXVIII",
            ("GT", "cWW"): "XXVIII",
            ("TG", "cWW"): "XXVIII",
        }

    @property
    def is_canonical(self) -> bool:
        return self == Saenger.XIX or self == Saenger.XX or self == Saenger.XXVIII


class StackingTopology(Enum):
    upward = "upward"
    downward = "downward"
    inward = "inward"
    outward = "outward"

    @property
    def reverse(self):
        if self == StackingTopology.upward:
            return StackingTopology.downward
        elif self == StackingTopology.downward:
            return StackingTopology.upward
        return self


class BR(Enum):
    _0 = "0BR"
    _1 = "1BR"
    _2 = "2BR"
    _3 = "3BR"
    _4 = "4BR"
    _5 = "5BR"
    _6 = "6BR"
    _7 = "7BR"
    _8 = "8BR"
    _9 = "9BR"


class BPh(Enum):
    _0 = "0BPh"
    _1 = "1BPh"
    _2 = "2BPh"
    _3 = "3BPh"
    _4 = "4BPh"
    _5 = "5BPh"
    _6 = "6BPh"
    _7 = "7BPh"
    _8 = "8BPh"
    _9 = "9BPh"


@dataclass(frozen=True, order=True)
class ResidueLabel:
    chain: str
    number: int
    name: str


@dataclass(frozen=True, order=True)
class ResidueAuth:
    chain: str
    number: int
    icode: Optional[str]
    name: str


@dataclass(frozen=True)
@total_ordering
class Residue:
    label: Optional[ResidueLabel]
    auth: Optional[ResidueAuth]

    def __lt__(self, other):
        return (self.chain, self.number, self.icode or " ") < (
            other.chain,
            other.number,
            other.icode or " ",
        )

    @property
    def chain(self) -> Optional[str]:
        if self.auth is not None:
            return self.auth.chain
        if self.label is not None:
            return self.label.chain
        return None

    @property
    def number(self) -> Optional[int]:
        if self.auth is not None:
            return self.auth.number
        if self.label is not None:
            return self.label.number
        return None

    @property
    def icode(self) -> Optional[str]:
        if self.auth is not None:
            return self.auth.icode if self.auth.icode not in (" ", "?") else None
        return None

    @property
    def name(self) -> Optional[str]:
        if self.auth is not None:
            return self.auth.name
        if self.label is not None:
            return self.label.name
        return None

    @property
    def molecule_type(self) -> Molecule:
        if self.name is not None:
            if self.name.upper() in ("A", "C", "G", "U"):
                return Molecule.RNA
            if self.name.upper() in ("DA", "DC", "DG", "DT"):
                return Molecule.DNA
        return Molecule.Other

    @property
    @cache
    def full_name(self) -> Optional[str]:
        if self.auth is not None:
            if self.auth.chain.isspace():
                builder = f"{self.auth.name}"
            else:
                builder = f"{self.auth.chain}.{self.auth.name}"
            if len(self.auth.name) > 0 and self.auth.name[-1] in string.digits:
                builder += "/"
            builder += f"{self.auth.number}"
            if self.auth.icode:
                builder += f"^{self.auth.icode}"
            return builder
        elif self.label is not None:
            if self.label.chain.isspace():
                builder = f"{self.label.name}"
            else:
                builder = f"{self.label.chain}.{self.label.name}"
            if len(self.label.name) > 0 and self.label.name[-1] in string.digits:
                builder += "/"
            builder += f"{self.label.number}"
            return builder
        return None


@dataclass(frozen=True, order=True)
class Interaction:
    nt1: Residue
    nt2: Residue


@dataclass(frozen=True, order=True)
class BasePair(Interaction):
    lw: LeontisWesthof
    saenger: Optional[Saenger]


@dataclass(frozen=True, order=True)
class Stacking(Interaction):
    topology: Optional[StackingTopology]


@dataclass(frozen=True, order=True)
class BaseRibose(Interaction):
    br: Optional[BR]


@dataclass(frozen=True, order=True)
class BasePhosphate(Interaction):
    bph: Optional[BPh]


@dataclass(frozen=True, order=True)
class OtherInteraction(Interaction):
    pass


@dataclass
class Entry(Sequence):
    index_: int
    sequence: str
    pair: int

    def __getitem__(self, item):
        if item == 0:
            return self.index_
        elif item == 1:
            return self.sequence
        elif item == 2:
            return self.pair
        raise IndexError()

    def __lt__(self, other):
        return self.index_ < other.index_

    def __len__(self) -> int:
        return 3

    def __str__(self):
        return f"{self.index_} {self.sequence} {self.pair}"


@dataclass(frozen=True)
class Strand:
    first: int
    last: int
    sequence: str
    structure: str

    @staticmethod
    def from_bpseq_entries(
        entries: List[Entry], dotbracket: str, reverse: bool = False
    ):
        first = entries[0].index_
        last = first + len(entries) - 1
        if reverse:
            first, last = last, first
        sequence = "".join(
            [
                entry.sequence
                for entry in (entries if not reverse else reversed(entries))
            ]
        )
        structure = dotbracket[first - 1 : last]
        return Strand(first, last, sequence, structure)

    def __str__(self):
        return f"{self.first}-{self.sequence}-{self.last}"


@dataclass
class SingleStrand:
    strand: Strand
    is5p: bool
    is3p: bool

    def __post_init__(self):
        self.description = str(self)

    def __str__(self):
        if self.is5p:
            return f"SingleStrand5p {self.strand.first} {self.strand.last} {self.strand.sequence} {self.strand.structure}"
        if self.is3p:
            return f"SingleStrand3p {self.strand.first} {self.strand.last} {self.strand.sequence} {self.strand.structure}"
        return f"SingleStrand {self.strand.first} {self.strand.last} {self.strand.sequence} {self.strand.structure}"


@dataclass
class Stem:
    strand5p: Strand
    strand3p: Strand

    @staticmethod
    def from_bpseq_entries(
        strand5p_entries: List[Entry], all_entries: List, dotbracket: str
    ):
        paired = set([entry[2] for entry in strand5p_entries])
        strand3p_entries = list(filter(lambda entry: entry[0] in paired, all_entries))
        return Stem(
            Strand.from_bpseq_entries(strand5p_entries, dotbracket),
            Strand.from_bpseq_entries(strand3p_entries, dotbracket),
        )

    def __post_init__(self):
        self.description = str(self)

    def __str__(self):
        return f"Stem {self.strand5p.first} {self.strand5p.last} {self.strand5p.sequence} {self.strand5p.structure} {self.strand3p.first} {self.strand3p.last} {self.strand3p.sequence} {self.strand3p.structure}"


@dataclass
class Hairpin:
    strand: Strand

    def __post_init__(self):
        self.description = str(self)

    def __str__(self):
        return f"Hairpin {self.strand.first} {self.strand.last} {self.strand.sequence} {self.strand.structure}"


@dataclass
class Loop:
    strands: List[Strand]

    def __post_init__(self):
        self.description = str(self)

    def __str__(self):
        desc = " ".join(
            [
                "{} {} {} {}".format(
                    strand.first, strand.last, strand.sequence, strand.structure
                )
                for strand in self.strands
            ]
        )
        return f"Loop {desc}"


@dataclass
class BpSeq:
    entries: List[Entry]

    @staticmethod
    def from_string(bpseq_str: str):
        entries = []
        for line in bpseq_str.splitlines():
            line = line.strip()
            if len(line) == 0:
                continue
            fields = line.split()
            if len(fields) != 3:
                logging.warning("Failed to find 3 columns in BpSeq line: {}", line)
                continue
            entry = Entry(int(fields[0]), fields[1], int(fields[2]))
            entries.append(entry)
        return BpSeq(entries)

    @staticmethod
    def from_file(bpseq_path: str):
        with open(bpseq_path) as f:
            return BpSeq.from_string(f.read())

    @staticmethod
    def from_dotbracket(dot_bracket):
        entries = [
            Entry(i + 1, dot_bracket.sequence[i], 0)
            for i in range(len(dot_bracket.sequence))
        ]
        for i, j in dot_bracket.pairs:
            entries[i].pair = j + 1
            entries[j].pair = i + 1
        return BpSeq(entries)

    def __post_init__(self):
        self.pairs = {}
        for i, _, j in self.entries:
            if j != 0:
                self.pairs[i] = j
                self.pairs[j] = i

    def __str__(self):
        return "\n".join(("{} {} {}".format(i, c, j) for i, c, j in self.entries))

    def __eq__(self, other):
        return len(self.entries) == len(other.entries) and all(
            ei == ej for ei, ej in zip(self.entries, other.entries)
        )

    @cached_property
    def sequence(self) -> str:
        return "".join(entry.sequence for entry in self.entries)

    def paired(self, only5to3: bool = False):
        result = filter(lambda entry: entry.pair != 0, self.entries)
        if only5to3:
            result = filter(lambda entry: entry.index_ < entry.pair, result)
        return result

    @cached_property
    def __stems_entries(self) -> List[List[Entry]]:
        stems = []
        entries: List[Entry] = []

        for entry in self.paired(only5to3=True):
            if not entries:
                entries.append(entry)
                continue

            i, _, j = entry
            k, _, l = entries[-1]
            if i == k + 1 and j == l - 1:
                entries.append(entry)
                continue

            stems.append(entries)
            entries = [entry]

        if entries:
            stems.append(entries)

        return stems

    @cached_property
    def elements(
        self,
    ) -> Tuple[List[Stem], List[SingleStrand], List[Hairpin], List[Loop]]:
        if not self.__stems_entries:
            return [], [], [], []

        stems, single_strands, hairpins, loops = [], [], [], []
        stopset = set()

        # stems
        for stem_entries in self.__stems_entries:
            stem = Stem.from_bpseq_entries(
                stem_entries, self.entries, self.dot_bracket.structure
            )
            stems.append(stem)
            stopset.add(stem.strand5p.first - 1)
            stopset.add(stem.strand5p.last - 1)
            stopset.add(stem.strand3p.first - 1)
            stopset.add(stem.strand3p.last - 1)

        stops = sorted(stopset)
        loop_candidates = []

        # 5' single strand
        if stops[0] > 0:
            single_strands.append(
                SingleStrand(
                    Strand.from_bpseq_entries(
                        self.entries[: stops[0] + 1],
                        self.dot_bracket.structure,
                    ),
                    True,
                    False,
                )
            )

        # single strands
        for i in range(1, len(stops)):
            candidate = self.entries[stops[i - 1] : stops[i] + 1]
            if all([entry.pair == 0 for entry in candidate[1:-1]]):
                if candidate[0].pair == candidate[-1].index_:
                    hairpins.append(
                        Hairpin(
                            Strand.from_bpseq_entries(
                                candidate, self.dot_bracket.structure
                            )
                        )
                    )
                else:
                    loop_candidates.append(
                        Strand.from_bpseq_entries(candidate, self.dot_bracket.structure)
                    )

        # 3' single strand
        if stops[-1] < len(self.entries) - 1:
            single_strands.append(
                SingleStrand(
                    Strand.from_bpseq_entries(
                        self.entries[stops[-1] :], self.dot_bracket.structure
                    ),
                    False,
                    True,
                )
            )

        graph = defaultdict(set)

        for i in range(len(loop_candidates)):
            for j in range(i + 1, len(loop_candidates)):
                i_first, i_last = loop_candidates[i].first, loop_candidates[i].last
                j_first, j_last = loop_candidates[j].first, loop_candidates[j].last
                if self.entries[i_last - 1].pair == j_first:
                    graph[i].add(j)
                if self.entries[j_last - 1].pair == i_first:
                    graph[j].add(i)

        used = set()

        for i in range(len(loop_candidates)):
            if i in used:
                continue

            loop = [loop_candidates[i]]

            while True:
                for j in graph[i]:
                    if (
                        loop_candidates[j] not in used
                        and loop_candidates[j] not in loop
                    ):
                        loop.append(loop_candidates[j])
                        i = j
                        break
                else:
                    break

            if self.entries[loop[0].first - 1].pair == loop[-1].last:
                if not all([strand.last - strand.first <= 1 for strand in loop]):
                    loops.append(Loop(loop))
                    used.update(loop)

        for loop_candidate in loop_candidates:
            if loop_candidate not in used:
                single_strands.append(SingleStrand(loop_candidate, False, False))

        return stems, single_strands, hairpins, loops

    @cached_property
    def graphviz(self):
        stems, single_strands, hairpins, loops = self.elements
        graph = defaultdict(set)
        dot = graphviz.Graph()

        for single_strand in single_strands:
            graph[str(single_strand)].update(
                [
                    single_strand.strand.first,
                    single_strand.strand.last,
                ]
            )

        for stem in stems:
            if stem.strand5p.first == stem.strand5p.last:
                continue
            graph[str(stem)].update(
                [
                    stem.strand5p.first,
                    stem.strand5p.last,
                    stem.strand3p.first,
                    stem.strand3p.last,
                ]
            )

        for hairpin in hairpins:
            graph[str(hairpin)].update(
                [
                    hairpin.strand.first,
                    hairpin.strand.last,
                ]
            )

        for loop in loops:
            stops = set()
            for strand in loop.strands:
                stops.update(
                    [
                        strand.first,
                        strand.last,
                    ]
                )
            graph[str(loop)].update(stops)

        for i, element in enumerate(graph.keys()):
            dot.node(f"E{i}", str(element))

        keys = list(graph.keys())

        for i in range(len(keys)):
            for j in range(i + 1, len(keys)):
                if graph[keys[i]].intersection(graph[keys[j]]):
                    dot.edge(f"E{i}", f"E{j}")

        return dot.render()

    @cached_property
    def __regions(self) -> List[Tuple[int, int, int]]:
        return [
            (stem_entries[0].index_, stem_entries[0].pair, len(stem_entries))
            for stem_entries in self.__stems_entries
        ]

    @cached_property
    def dot_bracket(self):
        if pulp.HiGHS_CMD().available():
            solver = pulp.HiGHS_CMD()  # much faster than default
        else:
            solver = pulp.LpSolverDefault
        if solver is not None:
            solver.msg = False
        return self.convert_to_dot_bracket(solver)

    def convert_to_dot_bracket(self, solver: pulp.LpSolver):
        # if PuLP solvers are not installed, use FCFS
        if solver is None:
            return self.fcfs

        # build conflict graph
        regions = self.__regions
        graph = defaultdict(set)

        for i, j in itertools.combinations(range(len(regions)), 2):
            ri, rj = regions[i], regions[j]
            k, l, _ = ri
            m, n, _ = rj

            # is pseudoknot?
            if (k < m < l < n) or (m < k < n < l):
                graph[i].add(j)
                graph[j].add(i)

        # return all non-pseudoknotted if the graph is empty
        if not graph:
            return self.__make_dot_bracket(regions, [0 for _ in range(len(regions))])

        # determine maximum pseudoknot order as chromatic number bound equal to maximum vertex degree + 1
        max_order = max(map(len, graph.values())) + 1

        # define the problem
        problem = pulp.LpProblem("POA", pulp.LpMaximize)

        # create decision variables
        variables = []
        vars_by_region = defaultdict(list)
        vars_by_order = defaultdict(list)
        var_by_region_order = {}
        region_by_var = {}
        for i in range(len(regions)):
            for j in range(max_order):
                variable = pulp.LpVariable(f"x_{i}_{j}", 0, 1, pulp.LpInteger)
                variables.append(variable)
                vars_by_region[i].append(variable)
                vars_by_order[j].append(variable)
                var_by_region_order[(i, j)] = variable
                region_by_var[variable] = regions[i]

        # define objective function terms
        terms = []

        for order, vars in vars_by_order.items():
            for var in vars:
                length = region_by_var[var][2]
                if order == 0:
                    terms.append(var * length)
                else:
                    terms.append(-1 * var * length * order)

        # define objective function
        problem += pulp.lpSum(terms)

        # define constraints that each region is assigned to exactly one order
        for region_vars in vars_by_region.values():
            problem += pulp.lpSum(region_vars) == 1

        # define constraints that no two adjacent regions are assigned to the same order
        for i in graph.keys():
            for j in graph[i]:
                for order in range(max_order):
                    problem += (
                        var_by_region_order[(i, order)]
                        + var_by_region_order[(j, order)]
                        <= 1
                    )

        # solve the problem
        try:
            logging.debug(f"POA: problem formulation\n{problem}")
            problem.solve(solver)
        except pulp.PulpSolverError:
            logging.warning(
                "POA: failed to solve problem using MILP approach, fallback to FCFS"
            )
            return self.fcfs

        # if problem is infeasible, fallback to FCFS
        if problem.status != pulp.LpStatusOptimal:
            logging.warning("POA: problem is infeasible, fallback to FCFS")
            return self.fcfs

        # log solver time statistics
        logging.debug(
            f"POA: solver {solver.name} took {round(problem.solutionTime, 2)} seconds"
        )

        # map variable values to orders
        orders = [0 for _ in range(len(regions))]
        for variable in problem.variables():
            if variable.varValue == 1:
                name = variable.getName()
                i, order = map(int, name.split("_")[1:])
                orders[i] = order

        return self.__make_dot_bracket(regions, orders)

    def __make_dot_bracket(self, regions, orders):
        # build dot-bracket
        sequence = self.sequence
        structure = ["." for _ in range(len(sequence))]
        brackets = ["()", "[]", "{}", "<>"] + [
            "".join(p) for p in zip(string.ascii_uppercase, string.ascii_lowercase)
        ]

        for i, stem in enumerate(regions):
            bracket = brackets[orders[i]]
            j, k, n = stem

            while n > 0:
                structure[j - 1] = bracket[0]
                structure[k - 1] = bracket[1]
                j += 1
                k -= 1
                n -= 1

        structure = "".join(structure)
        return DotBracket.from_string(sequence, structure)

    @cached_property
    def fcfs(self):
        regions = [
            (stem_entries[0].index_, stem_entries[0].pair, len(stem_entries))
            for stem_entries in self.__stems_entries
        ]
        orders = [0 for i in range(len(regions))]

        for i in range(1, len(regions)):
            k, l, _ = regions[i]
            available = [True for _ in range(len("([{<" + string.ascii_uppercase))]

            for j in range(i):
                m, n, _ = regions[j]
                conflicted = (k < m < l < n) or (m < k < n < l)

                if conflicted:
                    available[orders[j]] = False

            order = next(filter(lambda i: available[i] is True, range(len(available))))
            orders[i] = order

        return self.__make_dot_bracket(regions, orders)

    @cached_property
    def all_dot_brackets(self):
        # build conflict graph
        regions = self.__regions
        graph = defaultdict(set)

        for i, j in itertools.combinations(range(len(regions)), 2):
            ri, rj = regions[i], regions[j]
            k, l, _ = ri
            m, n, _ = rj

            # is pseudoknot?
            if (k < m < l < n) or (m < k < n < l):
                graph[i].add(j)
                graph[j].add(i)

        # early exit for non-pseudoknotted structures
        vertices = list(graph.keys())
        if not vertices:
            return [self.fcfs]

        # find all connected components
        visited = {vertex: False for vertex in vertices}
        components = []

        for vertex in vertices:
            if not visited[vertex]:
                visited[vertex] = True
                stack = [vertex]
                components.append([vertex])

                while stack:
                    current = stack[-1]
                    next_vertex = None

                    for neighbor in graph[current]:
                        if not visited[neighbor]:
                            next_vertex = neighbor
                            break

                    if next_vertex is not None:
                        visited[next_vertex] = True
                        stack.append(next_vertex)
                        components[-1].append(next_vertex)
                    else:
                        stack.pop()

        # find unique orders for each component
        unique = []
        for component in components:
            unique.append(set())

            for permutation in itertools.permutations(component):
                orders = {region: 0 for region in component}

                for i in range(1, len(permutation)):
                    available = [True for _ in range(len(component))]

                    for j in range(i):
                        if permutation[j] in graph[permutation[i]]:
                            available[orders[permutation[j]]] = False

                    order = next(
                        filter(lambda k: available[k] is True, range(len(available)))
                    )
                    orders[permutation[i]] = order

                unique[-1].add(frozenset(orders.items()))

        # generate all possible dot-brackets
        solutions = {}
        for assignment in itertools.product(*unique):
            orders = {region: 0 for region in range(len(regions))}

            for order in assignment:
                orders.update(order)

            solutions[self.__make_dot_bracket(regions, orders)] = None
        return list(solutions)

    def without_pseudoknots(self):
        return BpSeq.from_dotbracket(self.dot_bracket.without_pseudoknots())

    def without_isolated(self):
        stems, _, _, _ = self.elements
        to_unpair = []

        for stem in stems:
            if stem.strand5p.first == stem.strand5p.last:
                to_unpair.append(stem.strand5p.first - 1)
                to_unpair.append(stem.strand3p.first - 1)

        if not to_unpair:
            return self

        entries = [
            Entry(entry.index_, entry.sequence, entry.pair) for entry in self.entries
        ]
        for i in to_unpair:
            entries[i].pair = 0

        return BpSeq(entries)


@dataclass
class DotBracket:
    sequence: str
    structure: str

    @staticmethod
    def from_file(path: str):
        with open(path) as f:
            lines = f.readlines()
        if len(lines) == 2:
            return DotBracket.from_string(lines[0].rstrip(), lines[1].rstrip())
        if len(lines) == 3:
            return DotBracket.from_string(lines[1].rstrip(), lines[2].rstrip())
        raise RuntimeError(f"Failed to read DotBracket from file: {path}")

    @staticmethod
    def from_string(sequence: str, structure: str):
        if len(sequence) != len(structure):
            raise ValueError(
                "Sequence and structure lengths differ, {} vs {}",
                (len(sequence), len(structure)),
            )
        return DotBracket(sequence, structure)

    def __post_init__(self):
        self.pairs = []

        opening = "([{<" + string.ascii_uppercase
        closing = ")]}>" + string.ascii_lowercase
        begins = {bracket: list() for bracket in opening}
        matches = {end: begin for begin, end in zip(opening, closing)}

        for i in range(len(self.structure)):
            c = self.structure[i]
            if c in opening:
                begins[c].append(i)
            elif c in closing:
                begin = matches[c]
                self.pairs.append((begins[begin].pop(), i))

    def __str__(self):
        return f"{self.sequence}\n{self.structure}"

    def __eq__(self, other):
        return self.sequence == other.sequence and self.structure == other.structure

    def __hash__(self) -> int:
        return hash((self.sequence, self.structure))

    def without_pseudoknots(self):
        structure = re.sub(r"[\[\]\{\}\<\>A-Za-z]", ".", self.structure)
        return DotBracket(self.sequence, structure)


@dataclass
class MultiStrandDotBracket(DotBracket):
    strands: List[Strand]

    @staticmethod
    def from_string(input: str):
        strands = []
        first = 1

        for match in re.finditer(
            r"((>.*?\n)?([ACGTURYSWKMBDHVNacgturyswkmbdhvn.-]+)\n([.()\[\]{}<>A-Za-z]+))",
            input,
        ):
            sequence = match.group(3)
            structure = match.group(4)
            assert len(sequence) == len(structure)
            last = first + len(sequence) - 1
            strands.append(Strand(first, last, sequence, structure))
            first = last + 1

        return MultiStrandDotBracket(
            "".join(strand.sequence for strand in strands),
            "".join(strand.structure for strand in strands),
            strands,
        )

    @staticmethod
    def from_file(path: str):
        with open(path) as f:
            return MultiStrandDotBracket.from_string(f.read())


@dataclass(frozen=True, order=True)
class BaseInteractions:
    basePairs: List[BasePair]
    stackings: List[Stacking]
    baseRiboseInteractions: List[BaseRibose]
    basePhosphateInteractions: List[BasePhosphate]
    otherInteractions: List[OtherInteraction]


@dataclass(frozen=True, order=True)
class InterStemParameters:
    stem1_idx: int
    stem2_idx: int
    type: Optional[str]  # Type of closest endpoint pair ('cs55', 'cs53', etc.)
    torsion: Optional[float]  # Torsion angle between stem segments (degrees)
    min_endpoint_distance: Optional[float]  # Minimum distance between stem endpoints
    torsion_angle_pdf: Optional[float]  # PDF value of the torsion angle
    min_endpoint_distance_pdf: Optional[float]  # PDF value of the min endpoint distance
    coaxial_probability: Optional[float]  # Probability of stems being coaxial (0-1)


@dataclass(frozen=True, order=True)
class Structure2D:
    baseInteractions: BaseInteractions
    bpseq: str
    dotBracket: str
    extendedDotBracket: str
    stems: List[Stem]
    singleStrands: List[SingleStrand]
    hairpins: List[Hairpin]
    loops: List[Loop]
    interStemParameters: List[InterStemParameters]
