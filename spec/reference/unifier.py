#!/usr/bin/env python3
import argparse
import os
import sys
from collections import Counter

import pandas as pd

from rnapolis.parser import is_cif
from rnapolis.parser_v2 import (
    fit_to_pdb,
    parse_cif_atoms,
    parse_pdb_atoms,
    write_cif,
    write_pdb,
)
from rnapolis.tertiary_v2 import Structure


def load_components():
    result = {}
    for residue in "ACGU":
        component = os.path.join(
            os.path.abspath(os.path.dirname(__file__)), f"component_{residue}.csv"
        )
        result[residue] = pd.read_csv(component)
    return result


def main():
    """Main function to run the unifier tool."""
    parser = argparse.ArgumentParser(
        description="Unify content of a set of PDB or mmCIF files."
    )
    parser.add_argument("--output", "-o", help="Output directory", required=True)
    parser.add_argument(
        "--format",
        "-f",
        help="Output format (possible values: PDB, mmCIF, keep. Default: keep)",
        default="keep",
    )
    parser.add_argument("files", nargs="+", help="PDB or mmCIF files to compare")
    args = parser.parse_args()

    components = load_components()
    structures = []

    for path in args.files:
        with open(path) as f:
            if is_cif(f):
                atoms = parse_cif_atoms(f)
            else:
                atoms = parse_pdb_atoms(f)

        residues = []

        for residue in Structure(atoms).residues:
            if residue.residue_name not in "ACGU":
                continue

            component = components[residue.residue_name]
            mapping_dict = dict(
                [row["alt_atom_id"], row["atom_id"]] for _, row in component.iterrows()
            )
            valid_names = component["atom_id"]
            valid_names = valid_names[~valid_names.str.startswith("H")]
            valid_order = {value: idx for idx, value in enumerate(valid_names.tolist())}
            column = "name" if residue.format == "PDB" else "auth_atom_id"

            # Replace alternative name with standard name
            residue.atoms[column] = residue.atoms[column].replace(mapping_dict)
            # Leave only standard, non-hydrogen atoms
            residue.atoms = residue.atoms[residue.atoms[column].isin(valid_names)]
            # Reorder atoms
            residue.atoms = residue.atoms.sort_values(
                by=[column], key=lambda col: col.map(valid_order)
            )
            residues.append(residue)

        structures.append((path, residues))

    residues_to_remove = set()
    for path, residues in structures:
        ref_path, ref_residues = structures[0]

        # Validity check 1: residue count must be equal
        if len(residues) != len(ref_residues):
            print(
                f"Number of residues in {path} does not match {ref_path}, cannot continue"
            )
            sys.exit(1)

        # Validity check 2: residue names must be equal
        for i, (residue, ref_residue) in enumerate(zip(residues, ref_residues)):
            if residue.residue_name != ref_residue.residue_name:
                print(
                    f"Residue {str(residue)} in {path} does not match {str(ref_residue)} in {ref_path}, cannot continue"
                )
                sys.exit(1)

        # Find residues with different number of atoms
        for i, (residue, ref_residue) in enumerate(zip(residues, ref_residues)):
            if len(residue.atoms) != len(ref_residue.atoms):
                print(
                    f"Number of atoms in {str(residue)} in {path} does not match {str(ref_residue)} in {ref_path}, will unify this"
                )
                residues_to_remove.add(i)

    # Remove residues with different number of atoms
    for _, residues in structures:
        for i in sorted(residues_to_remove, reverse=True):
            del residues[i]

    # Find most common residue identifiers for each residue
    n = len(structures[0][1])
    counters = [Counter() for _ in range(n)]
    for _, residues in structures:
        for i, residue in enumerate(residues):
            counters[i].update(
                [(residue.chain_id, residue.residue_number, residue.insertion_code)]
            )

    # If any residue has different identifiers, use the most common one in all structures
    for i, counter in enumerate(counters):
        (chain_id, residue_number, insertion_code), count = counter.most_common(1)[0]
        if count != len(structures):
            print(
                f"Residue {i + 1} has different identifiers in different structures, will unify this"
            )
            for _, residues in structures:
                residue = residues[i]
                residue.chain_id = chain_id
                residue.residue_number = residue_number
                residue.insertion_code = insertion_code

    # Write output
    os.makedirs(args.output, exist_ok=True)

    for path, residues in structures:
        base, _ = os.path.splitext(os.path.basename(path))

        if args.format == "keep":
            format = residues[0].atoms.attrs["format"]
        else:
            format = args.format

        ext = ".pdb" if format == "PDB" else ".cif"

        df = pd.concat([residue.atoms for residue in residues])

        try:
            if format == "PDB":
                df_to_write = fit_to_pdb(df)
                with open(f"{args.output}/{base}{ext}", "w") as f:
                    write_pdb(df_to_write, f)
            else:
                with open(f"{args.output}/{base}{ext}", "w") as f:
                    write_cif(df, f)
        except ValueError as e:
            print(
                f"Error processing {path} for PDB output: {e}. Skipping file.",
                file=sys.stderr,
            )
            continue


if __name__ == "__main__":
    main()
