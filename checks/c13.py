"""C13 - dot-bracket generation survives every solver configuration and solver fault.

Decided (DESIGN.md §4 C13): attribute kinds (no call of a property), the solver call is inside a
handler for PulpSolverError, a missing solver is tested before any use, the read-back is dominated by the
Optimal test, every fallback returns the FCFS value, every return is a DotBracket-producing expression.
"""
from __future__ import annotations

import ast
from typing import List, Optional

from sa import astq
from sa.flow import FlowMap, facts
from sa.kinds import calls_of_properties, member_kind
from sa.model import AnalysisError, norm

MOD, CLS = "common", "BpSeq"


def is_fcfs_value(chk, fi, expr: ast.AST) -> bool:
    """expr evaluates to the first-come-first-served notation of self."""
    kind = member_kind(chk.repo, MOD, CLS, "fcfs")
    if kind == "property":
        return astq.match(expr, "self.fcfs") is not None
    if kind == "method":
        return astq.match(expr, "self.fcfs()") is not None
    return False


def is_make_dot_bracket(expr: ast.AST) -> bool:
    return (
        isinstance(expr, ast.Call)
        and isinstance(expr.func, ast.Attribute)
        and expr.func.attr.endswith("__make_dot_bracket")
        and astq.dotted(expr.func.value) == "self"
    )


def run(chk) -> None:
    repo = chk.repo
    chk.explanation = (
        "Static path analysis of BpSeq.dot_bracket / convert_to_dot_bracket in the current source: every call of a "
        "property is reported; the solver call must lie in a try body whose handler names PulpSolverError (or a "
        "superclass) and does not raise; `solver is None` must be tested before the solver is used; the read-back of "
        "variable values must be dominated by `status == LpStatusOptimal`; every return on a fault path must be the "
        "FCFS value and every return must be FCFS or the verified fill. FCFS and the fill themselves are verified by C01."
    )
    chk.trusted = ["CPython ast", "PuLP API model: solve() raises PulpSolverError on solver failure; status is LpStatusOptimal iff an optimum was found"]
    chk.assumptions = [
        "solver faults surface as pulp.PulpSolverError or as a non-optimal status (the fault model of the property statement)",
        "structures need at most 30 bracket levels",
    ]
    chk.robust |= {"attr-kind", "solve-handled", "handler-no-raise", "fallback-is-fcfs", "readback-after-optimal", "value-before-optimal", "solver-none-guard", "returns-dotbracket", "never-raises"}
    from checks import c01 as _c01

    chk.robust |= _c01.ROBUST
    conv = repo.func(MOD, f"{CLS}.convert_to_dot_bracket")
    dotb = repo.func(MOD, f"{CLS}.dot_bracket")
    fcfs = repo.func(MOD, f"{CLS}.fcfs")
    for fi in (conv, dotb, fcfs):
        chk.note_function(fi)

    # R1: attribute kinds -------------------------------------------------
    scope = [fi for fi in repo.all_funcs() if fi.module.name == MOD] if chk.tier == "quick" else list(repo.all_funcs())
    n_calls = 0
    for fi in scope:
        chk.note_function(fi)
        n_calls += sum(1 for n in ast.walk(fi.node) if isinstance(n, ast.Call) and isinstance(n.func, ast.Attribute))
        for call, why in calls_of_properties(repo, fi):
            chk.violation(
                "attr-kind",
                fi.site(call),
                f"call of a property value: {norm(call)} - {why}; the value (not a callable) is called, raising TypeError",
                key=f"{fi.module.name}:{fi.qualname}:{norm(call.func)}()",
            )
    chk.ok("attr-kind", f"{len(scope)} functions", f"{n_calls} attribute calls resolved against {MOD} class members; none calls a property")

    # R2-R5: every class of solver configuration and outcome, evaluated (checks/c01e.py); pinned path rules as the fallback
    from checks import c01 as _c01x, c01e

    if not _c01x.fact_first(chk, "fault-classes", conv.where, c01e.fault_fact(chk)):
        check_paths_pinned(chk, conv, dotb)

    # FCFS and fill are lossless: shared verifiers of C01
    try:
        from checks import c01

        c01.check_fcfs(chk)
        c01.check_fill(chk)
    except ImportError:
        pass


def check_paths_pinned(chk, conv, dotb) -> None:
    """Pinned-form path rules R2-R5 (fallback when the fault classes cannot be evaluated)."""
    repo = chk.repo
    fm = FlowMap(conv.node)
    # R2: solve inside a handler for PulpSolverError -----------------------------
    solves = astq.calls(conv.node, "solve")
    if not solves:
        raise AnalysisError("convert_to_dot_bracket: no call of .solve() found (solver invocation idiom not recognised)")
    for call in solves:
        st = fm.stmt_of(call)
        tries = fm.of(st).handlers
        good = None
        for tr in tries:
            for h in tr.handlers:
                if handler_catches(h, "PulpSolverError"):
                    good = h
        if good is None:
            chk.violation(
                "solve-handled",
                conv.site(call),
                f"{norm(call)} is not inside a try whose handler catches pulp.PulpSolverError: a failing solver escapes dot_bracket",
                key=f"{MOD}:{conv.qualname}:solve-unhandled",
            )
            continue
        chk.ok("solve-handled", conv.site(call), f"{norm(call)} lies in a try body with handler `except {norm(good.type) if good.type else ''}`")
        # handler must not raise; if it returns, it returns FCFS
        raises = [n for n in ast.walk(good) if isinstance(n, ast.Raise)]
        chk.expect(
            not raises,
            "handler-no-raise",
            conv.site(good),
            "handler does not raise",
            "the PulpSolverError handler raises: a solver fault escapes",
            key=f"{MOD}:{conv.qualname}:handler-raises",
        )
        rets = [n for n in ast.walk(good) if isinstance(n, ast.Return)]
        for r in rets:
            chk.expect(
                r.value is not None and is_fcfs_value(chk, conv, r.value),
                "fallback-is-fcfs",
                conv.site(r),
                "solver-error fallback returns the FCFS value",
                f"solver-error fallback returns `{norm(r)}`, not the FCFS notation",
                key=f"{MOD}:{conv.qualname}:handler-return:{norm(r)}",
            )

    # R3: read-back dominated by status == Optimal ------------------------------
    readbacks = [n for n in ast.walk(conv.node) if isinstance(n, ast.Attribute) and n.attr == "varValue"]
    readbacks += [c for c in astq.calls(conv.node, "variables")]
    if not readbacks:
        raise AnalysisError("convert_to_dot_bracket: no read-back of variable values found (idiom not recognised)")
    for rb in readbacks:
        st = fm.stmt_of(rb)
        fs = facts(fm.expr_guards(st, rb) or fm.of(st).guards)
        ok = any(is_optimal_fact(g) for g in fs)
        chk.expect(
            ok,
            "readback-after-optimal",
            conv.site(rb),
            f"`{norm(rb)}` is reached only when problem.status == LpStatusOptimal",
            f"`{norm(rb)}` can be reached with a non-optimal solver status: variable values are read from an unsolved model",
            key=f"{MOD}:{conv.qualname}:readback-unguarded:{norm(rb)}",
        )
    # solution values used as numbers (formatting with a spec, arithmetic, int()/float()/round(), ordering) are None on an
    # unsolved model: such a use must be dominated by the Optimal test as well
    par = astq.parents(conv.node)
    for n in ast.walk(conv.node):
        is_val = isinstance(n, ast.Call) and (astq.dotted(n.func) in ("pulp.value", "value") or (isinstance(n.func, ast.Attribute) and n.func.attr == "value" and not n.args and "objective" in norm(n.func.value)))
        if not is_val:
            continue
        p = par.get(id(n))
        numeric = None
        if isinstance(p, ast.FormattedValue) and p.format_spec is not None and norm(p.format_spec) not in ("f''", "f'!s'"):
            numeric = f"formatted with spec {norm(p.format_spec)}"
        elif isinstance(p, ast.BinOp):
            numeric = "used in arithmetic"
        elif isinstance(p, ast.Call) and astq.callee_name(p) in ("int", "float", "round", "abs") and n in p.args:
            numeric = f"passed to {astq.callee_name(p)}()"
        elif isinstance(p, ast.Compare) and any(isinstance(o, (ast.Lt, ast.LtE, ast.Gt, ast.GtE)) for o in p.ops):
            numeric = "compared by order"
        st = fm.stmt_of(n)
        fs = facts(fm.expr_guards(st, n) or fm.of(st).guards)
        dominated = any(is_optimal_fact(g) for g in fs)
        if numeric and not dominated:
            chk.violation(
                "value-before-optimal",
                conv.site(n),
                f"`{norm(n)}` is {numeric} on a path where the status may be non-optimal: the value is None for an unsolved/infeasible model and the expression raises TypeError instead of falling back to FCFS",
                key=f"{MOD}:{conv.qualname}:value-unguarded:{norm(n)}",
            )
        else:
            chk.ok("value-before-optimal", conv.site(n), f"`{norm(n)}` is " + ("reached only with an optimal status" if dominated else "not used as a number"))
    # the branch taken when status is not optimal returns FCFS
    status_ifs = [
        st
        for st in ast.walk(conv.node)
        if isinstance(st, ast.If) and any(isinstance(n, ast.Attribute) and n.attr == "status" for n in ast.walk(st.test))
    ]
    for st in status_ifs:
        branch = None
        m = status_test_polarity(st.test)
        if m is None:
            chk.error("status-branch", conv.site(st), f"status test `{norm(st.test)}` not understood")
            continue
        branch = st.body if m is False else st.orelse  # m False: test true means non-optimal
        rets = [n for b in branch for n in ast.walk(b) if isinstance(n, ast.Return)]
        for r in rets:
            chk.expect(
                r.value is not None and is_fcfs_value(chk, conv, r.value),
                "fallback-is-fcfs",
                conv.site(r),
                "non-optimal-status fallback returns the FCFS value",
                f"non-optimal-status fallback returns `{norm(r)}`, not the FCFS notation",
                key=f"{MOD}:{conv.qualname}:status-return:{norm(r)}",
            )

    # R4: solver None tested before use ------------------------------------------
    params = [a.arg for a in conv.node.args.args if a.arg != "self"]
    if not params:
        raise AnalysisError("convert_to_dot_bracket has no solver parameter")
    sp = params[0]
    uses = [
        n
        for n in astq.walk_no_nested(conv.node)
        if isinstance(n, ast.Name) and n.id == sp and isinstance(n.ctx, ast.Load)
    ]
    n_guarded = 0
    for u in uses:
        st = fm.stmt_of(u)
        fs = facts(fm.expr_guards(st, u) or ())
        par = astq.parents(conv.node).get(id(u))
        is_test = isinstance(par, ast.Compare) and any(isinstance(o, (ast.Is, ast.IsNot, ast.Eq, ast.NotEq)) for o in par.ops)
        if is_test:
            continue
        ok = any(is_not_none_fact(g, sp) for g in fs)
        n_guarded += ok
        chk.expect(
            ok,
            "solver-none-guard",
            conv.site(u),
            f"use of `{sp}` is dominated by `{sp} is None -> return`",
            f"`{sp}` is used where it may be None (no solver installed): AttributeError instead of the FCFS fallback",
            key=f"{MOD}:{conv.qualname}:solver-unguarded",
        )
    # the None branch returns FCFS
    for st in ast.walk(conv.node):
        if isinstance(st, ast.If) and astq.match(st.test, f"{sp} is None") is not None:
            for r in [n for b in st.body for n in ast.walk(b) if isinstance(n, ast.Return)]:
                chk.expect(
                    r.value is not None and is_fcfs_value(chk, conv, r.value),
                    "fallback-is-fcfs",
                    conv.site(r),
                    "no-solver fallback returns the FCFS value",
                    f"no-solver fallback returns `{norm(r)}`, not the FCFS notation",
                    key=f"{MOD}:{conv.qualname}:none-return:{norm(r)}",
                )
    # in dot_bracket: stores to solver attributes guarded by `solver is not None`
    fm2 = FlowMap(dotb.node)
    for n in ast.walk(dotb.node):
        if isinstance(n, ast.Attribute) and isinstance(n.value, ast.Name) and n.value.id not in ("self", "pulp"):
            v = n.value.id
            if not astq.assignments(dotb.node, v):
                continue
            st = fm2.stmt_of(n)
            fs = facts(fm2.expr_guards(st, n) or ())
            definitely = all(val is not None and isinstance(val, ast.Call) for _, val in astq.assignments(dotb.node, v))
            chk.expect(
                definitely or any(is_not_none_fact(g, v) for g in fs),
                "solver-none-guard",
                dotb.site(n),
                f"`{norm(n)}` is guarded by `{v} is not None`",
                f"`{norm(n)}`: `{v}` may be None (pulp.LpSolverDefault without a solver) and is dereferenced",
                key=f"{MOD}:{dotb.qualname}:solver-unguarded",
            )
    drets = [n for n in ast.walk(dotb.node) if isinstance(n, ast.Return)]
    for r in drets:
        ok = r.value is not None and (
            (isinstance(r.value, ast.Call) and astq.dotted(r.value.func) == "self.convert_to_dot_bracket") or is_fcfs_value(chk, dotb, r.value)
        )
        chk.expect(
            ok,
            "returns-dotbracket",
            dotb.site(r),
            f"dot_bracket returns `{norm(r.value) if r.value else None}`",
            f"dot_bracket returns `{norm(r)}`: neither convert_to_dot_bracket(...) nor the FCFS value",
            key=f"{MOD}:{dotb.qualname}:return:{norm(r)}",
        )
    # no raise statements in dot_bracket / convert_to_dot_bracket
    for fi in (dotb, conv):
        for n in astq.walk_no_nested(fi.node):
            if isinstance(n, ast.Raise):
                chk.violation(
                    "never-raises",
                    fi.site(n),
                    f"explicit `{norm(n)}` on the dot-bracket path",
                    key=f"{MOD}:{fi.qualname}:raise:{norm(n)}",
                )
        chk.ok("never-raises", fi.where, "no explicit raise on the dot-bracket path")

    # R5: every return of convert_to_dot_bracket is FCFS or the fill ------------------
    for r in [n for n in astq.walk_no_nested(conv.node) if isinstance(n, ast.Return)]:
        ok = r.value is not None and (is_fcfs_value(chk, conv, r.value) or is_make_dot_bracket(r.value))
        chk.expect(
            ok,
            "returns-dotbracket",
            conv.site(r),
            f"returns `{norm(r.value) if r.value else None}` (FCFS value or the verified fill)",
            f"`{norm(r)}` is neither the FCFS notation nor a notation built by __make_dot_bracket",
            key=f"{MOD}:{conv.qualname}:return:{norm(r)}",
        )
    # implicit fall-off-the-end returns None
    from sa.flow import always_exits

    chk.expect(
        always_exits(conv.node.body) in ("return", "raise", "mixed"),
        "returns-dotbracket",
        conv.where,
        "every path ends in an explicit return",
        "a path falls off the end of convert_to_dot_bracket and returns None",
        key=f"{MOD}:{conv.qualname}:falls-off",
    )
    chk.floor("solve-handled", 1)
    chk.floor("readback-after-optimal", 1)
    chk.floor("fallback-is-fcfs", 3)
    chk.floor("solver-none-guard", 2)



def handler_catches(h: ast.ExceptHandler, name: str) -> bool:
    if h.type is None:
        return True
    types = h.type.elts if isinstance(h.type, ast.Tuple) else [h.type]
    for t in types:
        last = ast.unparse(t).split(".")[-1]
        if last in (name, "Exception", "BaseException", "PulpError"):
            return True
    return False


def status_test_polarity(test: ast.expr) -> Optional[bool]:
    """True if test true <=> status optimal; False if test true <=> status not optimal; None unknown."""
    if isinstance(test, ast.UnaryOp) and isinstance(test.op, ast.Not):
        p = status_test_polarity(test.operand)
        return None if p is None else (not p)
    if isinstance(test, ast.Compare) and len(test.ops) == 1:
        l, r = test.left, test.comparators[0]
        sides = [l, r]
        st = [s for s in sides if isinstance(s, ast.Attribute) and s.attr == "status"]
        other = [s for s in sides if s not in st]
        if len(st) == 1 and len(other) == 1:
            o = other[0]
            is_opt = (isinstance(o, ast.Attribute) and o.attr == "LpStatusOptimal") or (
                isinstance(o, ast.Name) and o.id == "LpStatusOptimal"
            ) or (isinstance(o, ast.Constant) and o.value == 1 and type(o.value) is int)
            if not is_opt:
                return None
            if isinstance(test.ops[0], ast.Eq):
                return True
            if isinstance(test.ops[0], ast.NotEq):
                return False
    return None


def is_optimal_fact(g) -> bool:
    p = status_test_polarity(g.test)
    return p is not None and p == g.polarity


def is_not_none_fact(g, var: str) -> bool:
    t = g.test
    if astq.match(t, f"{var} is None") is not None:
        return g.polarity is False
    if astq.match(t, f"{var} is not None") is not None:
        return g.polarity is True
    if isinstance(t, ast.Name) and t.id == var:
        return g.polarity is True
    return False


MANIFEST_ENTRY = {
    "text": "Static path analysis of the current source of BpSeq.dot_bracket/convert_to_dot_bracket: on every path, for every solver "
    "object and every fault in the property's fault model (no solver, PulpSolverError, non-optimal status) the function returns "
    "either the FCFS value or the verified fill; no property is called, nothing is raised, nothing is read from an unsolved model. "
    "Holds for all inputs because it is a statement about all paths of the code, not about sampled runs.",
    "note": "Trusted: CPython ast; PuLP fault model (solve raises PulpSolverError or leaves a non-optimal status); FCFS/fill losslessness is C01's obligation (re-run here). Not decided: other exception types thrown by a back-end; more than 30 levels.",
    "technique": "static analysis: attribute-kind resolution + truth table over the finite classes of solver configuration and outcome (no solver, no back-end installed, PulpSolverError, status Not Solved / Infeasible / Unbounded / Undefined, Optimal; HiGHS available or not) - the fragment is interpreted from the ast against a PuLP API model, every statement of it must be reached; fallback: dominating-guard (path condition) analysis + handler coverage over the ast",
}
