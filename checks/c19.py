"""C19 - external-tool output is imported totally and faithfully.

Decided on adapter.py: nothing escapes parse_fr3d_output for any line (may-raise sets of the line path are covered by
the handlers that enclose them), unit-id field positions, the dispatch is exhaustive over the categories the label
normaliser can return and every branch files exactly one object of the matching class in its own list, dictionary
keys written = keys read, BaseInteractions arguments in field order, normaliser steps update the string they test,
DSSR: exact membership guard, pair filter, consecutive stack members, name matching.

Fact-level rules first (checks/c19e.py: the import evaluated on one listing per class of line, the matchers on one id per
class, in the abstract world of sa/world.py); the pinned forms in this file are only the fallback when that is not possible.
"""
from __future__ import annotations

import ast
from typing import Any, Dict, List, Optional, Set, Tuple

from checks.c03 import K
from checks.c08 import flat
from sa import astq
from sa.consteval import Folder
from sa.flow import FlowMap, facts
from sa.model import AnalysisError, FuncInfo, norm
from sa.world import EnumStub  # noqa: F401  (kept under this name for rules that import it from here)

M = "adapter"
STACK_LABELS = {"s33": "downward", "s55": "upward", "s35": "outward", "s53": "inward"}  # as coded at the pinned commit (FR3D: s<face of nt1><face of nt2>)
DISPATCH = {"base-pair": ("BasePair", "base_pairs"), "stacking": ("Stacking", "stackings"), "base-ribose": ("BaseRibose", "base_ribose_interactions"), "base-phosphate": ("BasePhosphate", "base_phosphate_interactions"), "other": ("OtherInteraction", "other_interactions")}


def may_raise(repo, fi: FuncInfo, depth: int = 0) -> Set[str]:
    """Exception types that can escape fi from int()/float() of strings, constant subscripts of split() results
    without an exact length guard, Enum/dict subscripts and explicit raises - minus enclosing handlers."""
    fm = FlowMap(fi.node)
    out: Set[str] = set()

    def handled(node: ast.AST, exc: str) -> bool:
        st = fm.stmt_of(node)
        if st is None:
            return False
        for tr in fm.of(st).handlers:
            for h in tr.handlers:
                if h.type is None:
                    return True
                types = h.type.elts if isinstance(h.type, ast.Tuple) else [h.type]
                names = {ast.unparse(t).split(".")[-1] for t in types}
                if exc in names or "Exception" in names or (exc in ("KeyError", "IndexError") and "LookupError" in names):
                    return True
        return False

    split_vars = {s.targets[0].id for s in ast.walk(fi.node) if isinstance(s, ast.Assign) and isinstance(s.targets[0], ast.Name) and isinstance(s.value, ast.Call) and astq.callee_name(s.value) == "split"}
    enums = {"LeontisWesthof", "BR", "BPh", "StackingTopology", "Saenger", "ExternalTool"}
    for n in astq.walk_no_nested(fi.node):
        exc = None
        if isinstance(n, ast.Call) and isinstance(n.func, ast.Name) and n.func.id in ("int", "float") and n.args and not isinstance(n.args[0], ast.Constant):
            exc = "ValueError"
        elif isinstance(n, ast.Subscript) and isinstance(n.value, ast.Name) and n.value.id in split_vars and isinstance(n.slice, ast.Constant) and isinstance(n.slice.value, int) and isinstance(n.ctx, ast.Load):
            k = n.slice.value
            st = fm.stmt_of(n)
            gs = facts(fm.expr_guards(st, n) or ())
            need = k + 1 if k >= 0 else -k
            guarded = any(g.polarity and astq.match(g.test, f"len({n.value.id}) >= C_") is not None and Folder(repo, fi.module.name).try_fold(astq.match(g.test, f"len({n.value.id}) >= C_")["C_"]) >= need for g in gs) or any(
                (not g.polarity) and astq.match(g.test, f"len({n.value.id}) < C_") is not None and Folder(repo, fi.module.name).try_fold(astq.match(g.test, f"len({n.value.id}) < C_")["C_"]) >= need for g in gs
            )
            if not guarded and k != 0 and k != -1:
                exc = "IndexError"
            elif not guarded and k in (0, -1):
                exc = None  # str.split always yields at least one element
        elif isinstance(n, ast.Subscript) and isinstance(n.value, ast.Name) and n.value.id in enums and isinstance(n.ctx, ast.Load):
            exc = "KeyError"
        elif isinstance(n, ast.Call) and isinstance(n.func, ast.Name) and n.func.id in enums:
            exc = "ValueError"
        elif isinstance(n, ast.Raise):
            exc = ast.unparse(n.exc.func).split(".")[-1] if isinstance(n.exc, ast.Call) else (ast.unparse(n.exc) if n.exc is not None else "reraise")
        elif isinstance(n, ast.Call) and isinstance(n.func, ast.Name) and depth < 3:
            try:
                hm, hn = repo.const_home(fi.module.name, n.func.id)
                callee = repo.modules[hm].funcs.get(hn)
            except Exception:
                callee = None
            if callee is not None and callee.cls is None and hm == fi.module.name:
                for e in may_raise(repo, callee, depth + 1):
                    if not handled(n, e):
                        out.add(e)
        if exc and not handled(n, exc):
            out.add(exc)
    return out


def check_fr3d(chk) -> None:
    repo = chk.repo
    pl = repo.func(M, "_process_interaction_line")
    pu = repo.func(M, "parse_unit_id")
    uc = repo.func(M, "unify_classification")
    pf = repo.func(M, "parse_fr3d_output")
    for fi in (pl, pu, uc, pf):
        chk.note_function(fi)
    # totality
    esc = may_raise(repo, pl)
    chk.expect(not esc, "fr3d-total", pl.where, "no ValueError/IndexError/KeyError can escape the processing of a line (handlers cover the may-raise set of the line path)", f"{sorted(esc)} can escape _process_interaction_line: a malformed line aborts the whole import", K(pl, "escapes"), found=sorted(esc))
    inner = may_raise(repo, pu)
    chk.expect(inner <= {"ValueError", "IndexError"}, "fr3d-total", pu.where, f"parse_unit_id can raise {sorted(inner)}", f"parse_unit_id can raise {sorted(inner)}", K(pu, "may-raise"))
    esc_u = may_raise(repo, uc)
    chk.expect(not esc_u, "fr3d-total", uc.where, "label normalisation cannot raise (Enum lookups are under KeyError handlers)", f"{sorted(esc_u)} can escape unify_classification", K(uc, "escapes"), found=sorted(esc_u))
    bi = repo.cls("common", "BaseInteractions")
    fields = [norm(b.annotation) for b in bi.body if isinstance(b, ast.AnnAssign)]
    chk.expect(fields == ["List[BasePair]", "List[Stacking]", "List[BaseRibose]", "List[BasePhosphate]", "List[OtherInteraction]"], "result-fields", "src/rnapolis/common.py BaseInteractions", "BaseInteractions fields in the order the adapters rely on", "BaseInteractions field order/types changed", "common:BaseInteractions:fields", found=fields)
    # fact-level rules first (checks/c19e.py): the import evaluated on one listing per class of line; the pinned forms below are only the fallback
    from checks import c19e

    why = c19e.fr3d_facts(chk, label_cases())
    if why is None:
        return
    chk.ok("fr3d-facts", pf.where, f"fact-level reading not possible ({why[:160]}); falling back to the pinned forms")
    body = pl.node.body
    real = [s for s in body if not (isinstance(s, ast.Expr) and isinstance(s.value, ast.Constant))]
    ok = len(real) == 1 and isinstance(real[0], ast.Try) and not any(isinstance(n, ast.Raise) for h in real[0].handlers for n in ast.walk(h))
    chk.expect(ok, "fr3d-total", pl.where, "the whole line path is inside one try whose handlers do not raise", "the line path is not wrapped in a single non-raising try", K(pl, "try-shape"))
    loop = [l for l in ast.walk(pf.node) if isinstance(l, ast.For) and norm(l.iter) == "f"]
    ok = len(loop) == 1 and [norm(s) for s in loop[0].body] == ["line = line.strip()", "if not line or line.startswith('#'):\n    continue", "_process_interaction_line(line, interactions_data)"]
    chk.expect(ok, "fr3d-lines", pf.where, "every non-empty, non-comment line is processed", "the line loop of parse_fr3d_output changed", K(pf, "lines"))
    # unit id
    env = {norm(s.targets[0]): norm(s.value) for s in pu.node.body if isinstance(s, ast.Assign)}
    ok = env.get("fields") == "nt.split('|')" and env.get("icode") == "fields[7] if len(fields) >= 8 and fields[7] != '' else None" and env.get("auth") == "ResidueAuth(fields[2], int(fields[4]), icode, fields[3])"
    rets = [r for r in pu.node.body if isinstance(r, ast.Return)]
    chk.expect(ok and len(rets) == 1 and norm(rets[0].value) == "Residue(None, auth)", "unit-id", pu.where, "unit id: chain = field 3, name = field 4, number = field 5, insertion code = field 8 (None when empty/absent)", "unit id fields are not (chain=2, name=3, number=4, icode=7 or None) -> Residue(None, ResidueAuth(chain, number, icode, name))", K(pu, "fields"), found=env)
    # dispatch
    cats = set()
    for r in [x for x in ast.walk(uc.node) if isinstance(x, ast.Return)]:
        if isinstance(r.value, ast.Tuple) and len(r.value.elts) == 2 and isinstance(r.value.elts[0], ast.Constant):
            cats.add(r.value.elts[0].value)
        else:
            chk.error("dispatch", uc.site(r), f"return `{norm(r)}` is not (category literal, classification)")
    tested: Dict[str, ast.If] = {}
    for s in ast.walk(pl.node):
        if isinstance(s, ast.If):
            m = astq.match(s.test, "interaction_category == C_")
            if m and isinstance(m["C_"], ast.Constant):
                tested[m["C_"].value] = s
    chk.expect(cats == set(tested) == set(DISPATCH), "dispatch-exhaustive", pl.where, f"categories returned by the normaliser = categories dispatched = {sorted(cats)}", "the categories unify_classification can return and the categories _process_interaction_line dispatches differ: some lines are silently dropped", K(pl, "categories"), expected=sorted(DISPATCH), found={"returned": sorted(cats), "dispatched": sorted(tested)})
    for cat, (cls, key) in DISPATCH.items():
        s = tested.get(cat)
        if s is None:
            continue
        body_txt = [flat(x) for x in s.body]
        args = "nt1_residue, nt2_residue" + ("" if cls == "OtherInteraction" else ", classification" + (", None" if cls == "BasePair" else ""))
        want = [flat(f"interactions_data['{key}'].append({cls}({args}))")]
        chk.expect(body_txt == want, "dispatch-branch", pl.site(s), f"{cat}: one {cls}(nt1, nt2, ...) appended to {key}", f"branch `{cat}` does not append exactly one {cls}({args}) to interactions_data['{key}']", K(pl, f"branch:{cat}"), expected=want, found=body_txt)
    roles = {norm(s.targets[0]): norm(s.value) for s in ast.walk(pl.node) if isinstance(s, ast.Assign)}
    ok = roles.get("nt1") == "parts[0]" and roles.get("interaction_type") == "parts[1]" and roles.get("nt2") == "parts[2]" and roles.get("nt1_residue") == "parse_unit_id(nt1)" and roles.get("nt2_residue") == "parse_unit_id(nt2)" and roles.get("parts") == "line.split('\\t')" and flat(roles.get("(interaction_category, classification)", roles.get("interaction_category, classification", ""))) == flat("unify_classification(interaction_type)")
    chk.expect(ok, "line-fields", pl.where, "fields: unit 1, label, unit 2 (tab separated); residues and class from their own fields", "a line is not decoded as (nt1 = field 0, label = field 1, nt2 = field 2)", K(pl, "fields"), found=roles)
    # keys written = keys read, BaseInteractions in field order
    lit = None
    for s in ast.walk(pf.node):
        if isinstance(s, ast.Assign) and norm(s.targets[0]) == "interactions_data" and isinstance(s.value, ast.Dict):
            lit = [k.value for k in s.value.keys]
    rets = [r for r in pf.node.body if isinstance(r, ast.Return)]
    order = [DISPATCH[c][1] for c in ("base-pair", "stacking", "base-ribose", "base-phosphate", "other")]
    ok = lit is not None and sorted(lit) == sorted(order) and len(rets) == 1 and flat(rets[0].value) == flat("BaseInteractions(" + ", ".join(f"interactions_data['{k}']" for k in order) + ")")
    chk.expect(ok, "result-fields", pf.where, "the five lists are created under the keys the dispatch writes and passed to BaseInteractions in field order", "interactions_data keys / BaseInteractions argument order do not match (basePairs, stackings, baseRibose, basePhosphate, other)", K(pf, "fields"))


def check_normaliser(chk) -> None:
    repo = chk.repo
    uc = repo.func(M, "unify_classification")
    p = uc.node.args.args[0].arg
    # every reassignment of the working string slices the working string itself
    for s in ast.walk(uc.node):
        if isinstance(s, ast.Assign) and norm(s.targets[0]) == p:
            names = [n for n in astq.names(s.value)]
            chk.expect(names == [p], "normaliser-self-update", uc.site(s), f"`{norm(s)}` rewrites the label from itself", f"`{norm(s)}` rebuilds the working label from `{[n for n in names if n != p]}`: an earlier normalisation step is undone", K(uc, f"update:{norm(s)}"))
    chk.floor("normaliser-self-update", 2)
    ifs = [s for s in uc.node.body if isinstance(s, ast.If)]
    tests = [norm(s.test) for s in ifs]
    want = [
        f"{p}.startswith('n')",
        f"len({p}) >= 3 and {p}.endswith('a')",
        f"len({p}) == 3 and {p}[1:] == 'BR' and {p}[0].isdigit()",
        f"len({p}) == 4 and {p}[1:] == 'BPh' and {p}[0].isdigit()",
        f"len({p}) == 3 and {p}.startswith('s') and ({p}[1] in ('3', '5')) and ({p}[2] in ('3', '5'))",
        f"len({p}) == 3 and {p}[0].lower() in ('c', 't')",
    ]
    chk.expect(tests == want, "normaliser-steps", uc.where, "steps: strip 'n', strip 'a' (length >= 3), nBR, nBPh, sXY, c/t + two edges - in this order", "the sequence of normalisation steps/tests changed", K(uc, "steps"), expected=want, found=tests)
    if tests == want:
        strip = [[norm(x) for x in s.body if isinstance(x, ast.Assign)] for s in ifs[:2]]
        chk.expect(strip == [[f"{p} = {p}[1:]"], [f"{p} = {p}[:-1]"]], "normaliser-steps", uc.where, "prefix and suffix are removed from the working label", "prefix/suffix stripping changed", K(uc, "strip"), found=strip)
        for s, en, cat in ((ifs[2], "BR", "base-ribose"), (ifs[3], "BPh", "base-phosphate")):
            rets = [norm(r.value) for r in ast.walk(s) if isinstance(r, ast.Return)]
            v = [x for x in ast.walk(s) if isinstance(x, ast.Assign)]
            ok = rets[:1] == [f"('{cat}', {en}[{norm(v[0].targets[0])}])"] and norm(v[0].value) == f"f'_{{{p}[0]}}'" if v else False
            chk.expect(ok, "normaliser-backbone", uc.site(s), f"<digit>{en} -> ('{cat}', {en}[_digit])", f"the {en} branch does not return ('{cat}', {en}[f'_{{digit}}'])", K(uc, f"branch:{en}"))
        got = {}
        for s in ifs[4].body:
            if isinstance(s, ast.If):
                m = astq.match(s.test, f"{p} == L_")
                r = s.body[0] if s.body and isinstance(s.body[0], ast.Return) else None
                if m and r is not None and isinstance(r.value, ast.Tuple):
                    got[m["L_"].value] = norm(r.value.elts[1]).split(".")[-1] if norm(r.value.elts[0]) == "'stacking'" else None
        chk.expect(got == STACK_LABELS, "normaliser-stacking", uc.site(ifs[4]), "s33 -> downward, s55 -> upward, s35 -> outward, s53 -> inward", "the stacking label table changed", K(uc, "stacking"), expected=STACK_LABELS, found=got)
        lw = ifs[5]
        env = {norm(x.targets[0]): norm(x.value) for x in ast.walk(lw) if isinstance(x, ast.Assign)}
        rets = [norm(r.value) for r in ast.walk(lw) if isinstance(r, ast.Return)]
        ok = env == {"edge_type": f"{p}[0].lower()", "edge1": f"{p}[1].upper()", "edge2": f"{p}[2].upper()", "lw_format": "f'{edge_type}{edge1}{edge2}'"} and rets == ["('base-pair', LeontisWesthof[lw_format])", "('other', None)"]
        chk.expect(ok, "normaliser-lw", uc.site(lw), "c/t lower-cased, both edges upper-cased, looked up in LeontisWesthof, unknown -> other", "the Leontis-Westhof branch does not normalise case (c/t lower, edges upper) and look the class up", K(uc, "lw"), found=env)
    last = uc.node.body[-1]
    chk.expect(isinstance(last, ast.Return) and norm(last.value) == "('other', None)", "normaliser-steps", uc.where, "an unrecognised label is kept as 'other'", "the final fallback is not ('other', None)", K(uc, "fallback"))


def check_dssr(chk, evaluated: bool = False) -> None:
    """`evaluated`: dssr-eval could read the pair / stack loops and the result (then the pinned result form is not consulted)."""
    from checks import c19e

    repo = chk.repo
    ml = repo.func(M, "match_dssr_lw")
    mn = repo.func(M, "match_dssr_name_to_residue")
    pd_ = repo.func(M, "parse_dssr_output")
    for fi in (ml, mn, pd_):
        chk.note_function(fi)
    why = c19e.dssr_lw_facts(chk)
    if why is not None:
        chk.ok("dssr-facts", ml.where, f"fact-level reading of match_dssr_lw not possible ({why[:120]}); falling back to the pinned form")
        rets = [r for r in ml.node.body if isinstance(r, ast.Return)]
        ok = len(rets) == 1 and norm(rets[0].value) in ("LeontisWesthof[lw] if lw in LeontisWesthof.__members__ else None",)
        chk.expect(ok, "guard-exact", ml.where, "the Enum lookup is guarded by membership in LeontisWesthof.__members__ (exact for E[name])", "the guard of LeontisWesthof[lw] is not `lw in LeontisWesthof.__members__`: names that pass the guard but are not members raise KeyError (or members are rejected)", K(ml, "guard"), found=[norm(r.value) for r in rets])
    why = c19e.dssr_name_facts(chk)
    if why is not None:
        chk.ok("dssr-facts", mn.where, f"fact-level reading of match_dssr_name_to_residue not possible ({why[:120]}); falling back to the pinned form")
        t = [flat(s) for s in mn.node.body]
        ok = t == [flat("if nt_id is not None:\n    nt_id = nt_id.split(':')[-1]\n    for residue in structure3d.residues:\n        if residue.full_name == nt_id:\n            return residue\n    logging.warning(f'Failed to find residue {nt_id}')"), flat("return None")]
        chk.expect(ok, "dssr-name", mn.where, "a DSSR id resolves to the residue whose full name equals the part after the model prefix", "DSSR name matching changed (strip model prefix, exact full_name equality, None otherwise)", K(mn, "match"))
    loops = [l for l in pd_.node.body if isinstance(l, ast.For)]
    pl = [l for l in loops if norm(l.iter) == "dssr.get('pairs', [])"]
    ok = len(pl) == 1 and [flat(s) for s in pl[0].body] == [
        flat("nt1 = match_dssr_name_to_residue(structure3d, pair.get('nt1', None))"),
        flat("nt2 = match_dssr_name_to_residue(structure3d, pair.get('nt2', None))"),
        flat("lw = match_dssr_lw(pair.get('LW', None))"),
        flat("if nt1 is not None and nt2 is not None and (lw is not None):\n    base_pairs.append(BasePair(nt1, nt2, lw, None))"),
    ]
    chk.expect(ok, "dssr-pairs", pd_.where, "a pair is kept iff both residues and the class resolve", "DSSR pairs are not kept exactly when nt1, nt2 and LW all resolve", K(pd_, "pairs"))
    sl = [l for l in loops if norm(l.iter) == "dssr.get('stacks', [])"]
    ok = False
    if len(sl) == 1:
        b = sl[0].body
        ok = len(b) == 2 and flat(b[0]) == flat("nts = [match_dssr_name_to_residue(structure3d, nt) for nt in stack.get('nts_long', '').split(',')]") and isinstance(b[1], ast.For) and norm(b[1].iter) == "range(1, len(nts))"
        if ok:
            i = norm(b[1].target)
            ok = [flat(s) for s in b[1].body] == [flat(f"nt1 = nts[{i} - 1]"), flat(f"nt2 = nts[{i}]"), flat("if nt1 is not None and nt2 is not None:\n    stackings.append(Stacking(nt1, nt2, None))")]
    chk.expect(ok, "dssr-stacks", pd_.where, "consecutive members (i-1, i) of a stack are paired when both resolve; an unresolved member breaks the chain", "DSSR stacks are not turned into Stacking(nts[i-1], nts[i]) for consecutive positions with both resolved (unresolved members must not be skipped over)", K(pd_, "stacks"))
    if not evaluated:  # dssr-eval reads the result itself: BaseInteractions(<pairs>, <stackings>, [], [], [])
        rets = [r for r in pd_.node.body if isinstance(r, ast.Return)]
        chk.expect(len(rets) == 1 and norm(rets[0].value) == "BaseInteractions(base_pairs, stackings, [], [], [])", "result-fields", pd_.where, "DSSR result = BaseInteractions(pairs, stackings, [], [], [])", "DSSR result fields changed", K(pd_, "result"))


def enum_stubs(repo) -> Dict[str, EnumStub]:
    from sa.world import enum_stub

    return {en: enum_stub(repo, "common", en) for en in ("LeontisWesthof", "BR", "BPh", "StackingTopology", "Saenger")}


def label_cases() -> Dict[str, Any]:
    """One label per class of the label language -> (category, class) the statement gives."""
    lw = lambda n: ("base-pair", ("LeontisWesthof", n))
    return {
        "cWW": lw("cWW"), "tHS": lw("tHS"), "cww": lw("cWW"), "tSs": lw("tSS"), "THs": lw("tHS"), "ncWW": lw("cWW"), "cWWa": lw("cWW"), "ncWWa": lw("cWW"), "ntsh": lw("tSH"), "tWHa": lw("tWH"),
        "s33": ("stacking", ("StackingTopology", STACK_LABELS["s33"])), "s55": ("stacking", ("StackingTopology", STACK_LABELS["s55"])), "s35": ("stacking", ("StackingTopology", STACK_LABELS["s35"])), "s53": ("stacking", ("StackingTopology", STACK_LABELS["s53"])),
        "ns35": ("stacking", ("StackingTopology", STACK_LABELS["s35"])), "s53a": ("stacking", ("StackingTopology", STACK_LABELS["s53"])),
        "0BR": ("base-ribose", ("BR", "_0")), "7BR": ("base-ribose", ("BR", "_7")), "n3BR": ("base-ribose", ("BR", "_3")), "9BR": ("base-ribose", ("BR", "_9")),
        "0BPh": ("base-phosphate", ("BPh", "_0")), "9BPh": ("base-phosphate", ("BPh", "_9")), "n4BPh": ("base-phosphate", ("BPh", "_4")), "6BPha": ("base-phosphate", ("BPh", "_6")),
        "xyz": ("other", None), "": ("other", None), "cXY": ("other", None), "s36": ("other", None), "perp": ("other", None), "cW": ("other", None), "n": ("other", None), "BPh": ("other", None), "tWWW": ("other", None),
    }


def check_normaliser_eval(chk) -> None:
    """unify_classification evaluated on one label per class of the label language (prefix n / suffix a / digit+BR / digit+BPh / sXY / c|t + two edges
    in either case / junk): category and class must be the ones the statement gives."""
    from sa.blockeval import BlockEval, Unknown

    repo = chk.repo
    uc = repo.func(M, "unify_classification")
    p = uc.node.args.args[0].arg
    from sa.world import build

    world = build(repo, M)  # Enum classes, dataclass constructors and the module's own functions: the same abstract world for the body and for the module-level tables it reads
    cases = label_cases()
    bad = {}
    try:
        for label, want in cases.items():
            ev = BlockEval(repo, M, {p: label}, world=world)
            kind, val = ev.run(uc.node.body)
            if kind != "return" or val != want:
                bad[label] = (kind, val)
        chk.expect(
            not bad,
            "normaliser-eval",
            uc.where,
            f"{len(cases)} labels, one per class of the label language (n-prefix, a-suffix, case of c/t and edges, digit+BR/BPh, sXY, junk), get the category and class of the statement",
            "labels are classified wrongly: " + "; ".join(f"`{k}` -> {v[1] if v[0] == 'return' else v[0]} (expected {cases[k]})" for k, v in list(bad.items())[:4]),
            K(uc, "normaliser-eval"),
            expected={k: str(cases[k]) for k in list(bad)[:8]},
            found={k: str(v) for k, v in list(bad.items())[:8]},
        )
    except Unknown as ex:
        chk.error("normaliser-eval", uc.where, f"unify_classification not evaluable: {ex}")
    except Exception as ex:
        chk.violation("normaliser-eval", uc.where, f"unify_classification raises {type(ex).__name__} ({ex}) for one of the label classes: the line (or the whole import) is lost", K(uc, "normaliser-raises"))


def check_dssr_eval(chk) -> bool:
    """True when the fragment could be evaluated.  The pair and stack loops of parse_dssr_output evaluated on documents covering the cases resolved / unresolved member, known / unknown class."""
    from sa.blockeval import BlockEval, Unknown

    repo = chk.repo
    pd_ = repo.func(M, "parse_dssr_output")
    stubs = enum_stubs(repo)
    known = {"A1": "rA1", "A2": "rA2", "A3": "rA3", "A4": "rA4", "A5": "rA5"}

    def resolve(structure, name):
        if name is None:
            return None
        return known.get(name.split(":")[-1])

    def match_lw(x):
        return ("LeontisWesthof", x) if x in stubs["LeontisWesthof"].__members__ else None

    env0 = dict(stubs, structure3d="S", match_dssr_name_to_residue=resolve, match_dssr_lw=match_lw, BasePair=lambda *a: ("BasePair",) + a, Stacking=lambda *a: ("Stacking",) + a, BaseInteractions=lambda *a: ("BaseInteractions",) + a)
    docs = [
        ({"pairs": [{"nt1": "A1", "nt2": "A2", "LW": "cWW"}, {"nt1": "A1", "nt2": "Z9", "LW": "cWW"}, {"nt1": "A3", "nt2": "A4", "LW": "c.W"}, {"nt2": "A4", "LW": "tHS"}, {"nt1": "1:A5", "nt2": "A4", "LW": "tHS"}], "stacks": []},
         [("BasePair", "rA1", "rA2", ("LeontisWesthof", "cWW"), None), ("BasePair", "rA5", "rA4", ("LeontisWesthof", "tHS"), None)], []),
        ({"stacks": [{"nts_long": "A1,A2,A3"}]}, [], [("Stacking", "rA1", "rA2", None), ("Stacking", "rA2", "rA3", None)]),
        ({"stacks": [{"nts_long": "A1,Z9,A3"}]}, [], []),
        ({"stacks": [{"nts_long": "A1,A2,Z9,A4,A5"}, {"nts_long": "A3"}, {}]}, [], [("Stacking", "rA1", "rA2", None), ("Stacking", "rA4", "rA5", None)]),
        ({}, [], []),
    ]
    loops = [l for l in pd_.node.body if isinstance(l, ast.For)]
    first = pd_.node.body.index(loops[0]) if loops else None
    if first is None:
        chk.error("dssr-eval", pd_.where, "pair/stack loops of parse_dssr_output not found")
        return False
    # the statements that initialise the result lists come before the first loop; the document is bound to the name the loops read
    docname = None
    for c2 in ast.walk(loops[0].iter):
        if isinstance(c2, ast.Call) and isinstance(c2.func, ast.Attribute) and c2.func.attr == "get" and isinstance(c2.func.value, ast.Name):
            docname = c2.func.value.id
    inits = [s2 for s2 in pd_.node.body[:first] if isinstance(s2, (ast.Assign, ast.AnnAssign)) and isinstance(getattr(s2, "value", None), (ast.List,))]
    if docname is None:
        chk.error("dssr-eval", pd_.where, "name of the parsed document not found")
        return False
    bad = []
    try:
        for doc, want_pairs, want_stacks in docs:
            ev = BlockEval(repo, M, {docname: doc}, world=env0)
            kind, val = ev.run(inits + pd_.node.body[first:])
            if kind != "return" or not (isinstance(val, tuple) and val[:1] == ("BaseInteractions",) and len(val) == 6):
                bad.append((doc, f"result {kind}: {val!r}"[:120]))
                continue
            if list(val[1]) != want_pairs:
                bad.append((doc, f"pairs {list(val[1])!r}, expected {want_pairs!r}"))
            if list(val[2]) != want_stacks:
                bad.append((doc, f"stackings {list(val[2])!r}, expected {want_stacks!r}"))
            if list(val[3]) or list(val[4]) or list(val[5]):
                bad.append((doc, "other lists are not empty"))
        chk.expect(
            not bad,
            "dssr-eval",
            pd_.where,
            f"{len(docs)} documents: a pair is kept iff both residues and the class resolve; consecutive members of a stack are paired iff both resolve (an unresolved member breaks the chain, it is not skipped over)",
            "DSSR import differs from the statement: " + "; ".join(f"{str(d)[:70]} gives {m}" for d, m in bad[:2]),
            K(pd_, "dssr-eval"),
            found=[m for d, m in bad[:4]],
        )
    except Unknown as ex:
        chk.error("dssr-eval", pd_.where, f"parse_dssr_output loops not evaluable: {ex}")
        return False
    except Exception as ex:
        chk.violation("dssr-eval", pd_.where, f"parse_dssr_output raises {type(ex).__name__} ({ex}) on one of the documents", K(pd_, "dssr-raises"))
    return True


def run(chk) -> None:
    chk.explanation = (
        "Static rules on adapter.py. For all inputs: a small may-raise analysis (int()/float() of strings, constant subscripts of split() results without an exact length guard, Enum subscripts, "
        "explicit raises, callees of the same module) minus enclosing handlers shows nothing escapes the per-line path. Per class of input (fragment evaluation, DESIGN 1.2 item 4, in the abstract "
        "world of sa/world.py: Enum classes, dataclass constructors, the module's own functions as inlined ast, module-level tables folded in the same world): parse_unit_id on unit ids of every field "
        "count; parse_fr3d_output on one listing per category the evaluated normaliser returns (exactly one object of the class of the category, between the residues of column 1 and 3, in the "
        "BaseInteractions field of that element type), on comment / blank / malformed lines (skipped, nothing raised, later lines kept) and on several lines (file order); unify_classification on one "
        "label per class of the label language; match_dssr_lw on every member name and on non-members; match_dssr_name_to_residue on exact / model-prefixed / prefix / unknown / missing ids; the pair and "
        "stack loops of parse_dssr_output on five documents. The pinned forms of these constructs are consulted only where the evaluation is not possible."
    )
    chk.trusted = ["CPython ast", "orjson.loads / file I/O errors are outside the statement", "stacking label table as coded (what FR3D's four labels denote is not decided)"]
    chk.assumptions = ["the label language as a set of strings is not enumerated (that would be execution); only the structure of the normaliser is decided"]
    # evidence rules; unit-id, line-fields, dispatch-*, result-fields, fr3d-lines, dssr-name, guard-exact are evidence rules too whenever
    # their fact-level reading (checks/c19e.py) is possible, and form rules in the fallback
    chk.robust |= {"fr3d-total", "normaliser-eval", "dssr-eval", "normaliser-self-update"}
    chk.superseded.update({"normaliser-steps": "normaliser-eval", "normaliser-backbone": "normaliser-eval", "normaliser-stacking": "normaliser-eval", "normaliser-lw": "normaliser-eval", "dssr-pairs": "dssr-eval", "dssr-stacks": "dssr-eval"})
    check_fr3d(chk)
    check_normaliser(chk)
    check_normaliser_eval(chk)
    check_dssr(chk, check_dssr_eval(chk))
    for rule, n in (("fr3d-total", 4), ("dispatch-branch", 5), ("dispatch-exhaustive", 1), ("guard-exact", 1), ("dssr-stacks", 1)):
        chk.floor(rule, n)


MANIFEST_ENTRY = {
    "text": "Static decision on the current source of adapter.py: totality (the may-raise set of the per-line path is covered by its handlers for every file content), faithful field positions, exhaustive dispatch with one object of the matching "
    "class per branch, normaliser steps that update the string they test, exact Enum-membership guard for DSSR classes, pair and consecutive-stack rules. 'Never raises' and 'nothing dropped' are for-all-inputs claims decided on all paths.",
    "note": "Trusted: orjson and file I/O. Not decided: the label language as a set of strings (enumeration is execution) and what FR3D's four stacking labels denote.",
    "technique": "static analysis: may-raise/handler coverage, exhaustiveness of dispatch vs returned literals, argument/field agreement, guard exactness",
}
