"""C19 - external-tool output is imported totally and faithfully.

Decided on adapter.py: nothing escapes parse_fr3d_output for any line (may-raise sets of the line path are covered by
the handlers that enclose them), unit-id field positions, the dispatch is exhaustive over the categories the label
normaliser can return and every branch files exactly one object of the matching class in its own list, dictionary
keys written = keys read, BaseInteractions arguments in field order, normaliser steps update the string they test,
DSSR: exact membership guard, pair filter, consecutive stack members, name matching.

Fact-level rules first (checks/c19e.py: the import evaluated on one listing per class of line and of label, the matchers on one
id per class, in the abstract world of sa/world.py and the process model of sa/procstate.py; here: normaliser-eval on every label
class, dssr-eval on documents whose expected import is computed from the statement's words, import-history for both importers);
the pinned forms in this file are only the fallback when that is not possible.

Round 4: label-total (every class of label files exactly one interaction - an exception of a label path must not end in the handler
for malformed lines), import-history (two imports in one process give what each gives alone; a result already returned is not
rewritten), may-raise sites are named with construct / reason / enclosing handlers and know Enum(value) -> ValueError and lookups
dominated by a membership test; stackings are recorded exactly for members adjacent in a stack's own list.
"""
from __future__ import annotations

import ast
from typing import Any, Dict, List, Optional, Set, Tuple

from checks.c03 import K
from checks.c08 import flat
from sa import astq
from sa.consteval import Folder
from sa.flow import FlowMap, facts
from sa.model import AnalysisError, FuncInfo, norm
from sa.world import EnumStub  # noqa: F401  (kept under this name for rules that import it from here)

M = "adapter"
STACK_LABELS = {"s33": "downward", "s55": "upward", "s35": "outward", "s53": "inward"}  # as coded at the pinned commit (FR3D: s<face of nt1><face of nt2>)
DISPATCH = {"base-pair": ("BasePair", "base_pairs"), "stacking": ("Stacking", "stackings"), "base-ribose": ("BaseRibose", "base_ribose_interactions"), "base-phosphate": ("BasePhosphate", "base_phosphate_interactions"), "other": ("OtherInteraction", "other_interactions")}


def enum_names(repo, module: str) -> Set[str]:
    """Names visible in `module` that are Enum classes of the package."""
    from sa.world import _is_enum

    out: Set[str] = set()
    m = repo.module(module)
    for name in list(m.imports) + list(m.classes):
        try:
            hm, hn = repo.const_home(module, name)
            c = repo.module(hm).classes.get(hn)
        except Exception:
            continue
        if c is not None and _is_enum(c):
            out.add(name)
    return out


WHY_RAISES = {
    "int-float": "int()/float() of a string that is not a number",
    "split-index": "a fixed position of a split() result that is not guarded by the number of parts",
    "enum-name": "an Enum subscripted by a name that is not a member raises KeyError",
    "enum-value": "an Enum called with a value that no member has raises ValueError (not KeyError)",
    "raise": "explicit raise",
}


def raise_sites(repo, fi: FuncInfo, depth: int = 0) -> Dict[str, List[str]]:
    """Exception type -> the constructs of fi (and of the same-module functions it calls) that can raise it and are not inside a
    handler that accepts it: int()/float() of strings, constant subscripts of split() results without an exact length guard,
    Enum subscripts (KeyError) and Enum calls by value (ValueError), explicit raises."""
    fm = FlowMap(fi.node)
    out: Dict[str, List[str]] = {}

    def handlers_of(node: ast.AST) -> List[str]:
        st = fm.stmt_of(node)
        names: List[str] = []
        if st is None:
            return names
        for tr in fm.of(st).handlers:
            for h in tr.handlers:
                if h.type is None:
                    names.append("*")
                else:
                    types = h.type.elts if isinstance(h.type, ast.Tuple) else [h.type]
                    names.extend(ast.unparse(t).split(".")[-1] for t in types)
        return names

    def handled(node: ast.AST, exc: str) -> bool:
        names = set(handlers_of(node))
        return "*" in names or exc in names or "Exception" in names or "BaseException" in names or (exc in ("KeyError", "IndexError") and "LookupError" in names)

    def add(node: ast.AST, exc: str, why: str, via: str = "") -> None:
        hs = handlers_of(node)
        where = f"line {getattr(node, 'lineno', '?')} `{ast.unparse(node)[:70]}`" + (f" -> {via}" if via else "")
        out.setdefault(exc, []).append(f"{where} ({why}; " + (f"the enclosing handlers accept only {', '.join(sorted(set(hs)))}" if hs else f"no handler in {fi.qualname} encloses it") + ")")

    split_vars = {s.targets[0].id for s in ast.walk(fi.node) if isinstance(s, ast.Assign) and isinstance(s.targets[0], ast.Name) and isinstance(s.value, ast.Call) and astq.callee_name(s.value) == "split"}
    enums = enum_names(repo, fi.module.name)

    def member_guarded(n: ast.AST, enum: str, arg: ast.AST, by_value: bool) -> bool:
        """The lookup is dominated by a test that `arg` is a member name (`arg in E.__members__` holds / `arg not in E.__members__`
        left the function), the tested name is not rebound between the test and the lookup, and - for a lookup by value - every
        member's value is its name (read from the class)."""
        if not isinstance(arg, ast.Name):
            return False
        if by_value:
            try:
                from sa.world import enum_stub

                hm, hn = repo.const_home(fi.module.name, enum)
                if any(m.value != m.name for m in enum_stub(repo, hm, hn)):
                    return False
            except Exception:
                return False
        st = fm.stmt_of(n)
        for g in facts(fm.expr_guards(st, n) or ()):
            t = g.test
            if isinstance(t, ast.Compare) and len(t.ops) == 1 and isinstance(t.left, ast.Name) and t.left.id == arg.id and ast.unparse(t.comparators[0]) == f"{enum}.__members__":
                holds = (isinstance(t.ops[0], ast.In) and g.polarity) or (isinstance(t.ops[0], ast.NotIn) and not g.polarity)
                rebound = any(isinstance(x, ast.Name) and x.id == arg.id and isinstance(x.ctx, ast.Store) and getattr(t, "lineno", 0) < getattr(x, "lineno", 0) <= getattr(n, "lineno", 0) for x in ast.walk(fi.node))
                if holds and not rebound:
                    return True
        return False

    for n in astq.walk_no_nested(fi.node):
        exc = why = None
        if isinstance(n, ast.Call) and isinstance(n.func, ast.Name) and n.func.id in ("int", "float") and n.args and not isinstance(n.args[0], ast.Constant):
            exc, why = "ValueError", WHY_RAISES["int-float"]
        elif isinstance(n, ast.Subscript) and isinstance(n.value, ast.Name) and n.value.id in split_vars and isinstance(n.slice, ast.Constant) and isinstance(n.slice.value, int) and isinstance(n.ctx, ast.Load):
            k = n.slice.value
            st = fm.stmt_of(n)
            gs = facts(fm.expr_guards(st, n) or ())
            need = k + 1 if k >= 0 else -k
            guarded = any(g.polarity and astq.match(g.test, f"len({n.value.id}) >= C_") is not None and Folder(repo, fi.module.name).try_fold(astq.match(g.test, f"len({n.value.id}) >= C_")["C_"]) >= need for g in gs) or any(
                (not g.polarity) and astq.match(g.test, f"len({n.value.id}) < C_") is not None and Folder(repo, fi.module.name).try_fold(astq.match(g.test, f"len({n.value.id}) < C_")["C_"]) >= need for g in gs
            )
            if not guarded and k != 0 and k != -1:  # str.split always yields at least one element
                exc, why = "IndexError", WHY_RAISES["split-index"]
        elif isinstance(n, ast.Subscript) and isinstance(n.value, ast.Name) and n.value.id in enums and isinstance(n.ctx, ast.Load):
            if not member_guarded(n, n.value.id, n.slice, False):
                exc, why = "KeyError", WHY_RAISES["enum-name"]
        elif isinstance(n, ast.Call) and isinstance(n.func, ast.Name) and n.func.id in enums:
            if not (len(n.args) == 1 and not n.keywords and member_guarded(n, n.func.id, n.args[0], True)):
                exc, why = "ValueError", WHY_RAISES["enum-value"]
        elif isinstance(n, ast.Raise):
            exc = ast.unparse(n.exc.func).split(".")[-1] if isinstance(n.exc, ast.Call) else (ast.unparse(n.exc) if n.exc is not None else "reraise")
            why = WHY_RAISES["raise"]
        elif isinstance(n, ast.Call) and isinstance(n.func, ast.Name) and depth < 3:
            try:
                hm, hn = repo.const_home(fi.module.name, n.func.id)
                callee = repo.modules[hm].funcs.get(hn)
            except Exception:
                callee = None
            if callee is not None and callee.cls is None and hm == fi.module.name:
                for e, sites in raise_sites(repo, callee, depth + 1).items():
                    if not handled(n, e):
                        add(n, e, f"{callee.qualname} lets it out", via=sites[0])
        if exc and not handled(n, exc):
            add(n, exc, why or "")
    return out


def may_raise(repo, fi: FuncInfo, depth: int = 0) -> Set[str]:
    return set(raise_sites(repo, fi, depth))


def _escapes(sites: Dict[str, List[str]]) -> str:
    return "; ".join(f"{e} from {v[0]}" + (f" and {len(v) - 1} more" if len(v) > 1 else "") for e, v in sorted(sites.items()))


def check_fr3d(chk) -> None:
    repo = chk.repo
    pl = repo.func(M, "_process_interaction_line")
    pu = repo.func(M, "parse_unit_id")
    uc = repo.func(M, "unify_classification")
    pf = repo.func(M, "parse_fr3d_output")
    for fi in (pl, pu, uc, pf):
        chk.note_function(fi)
    # totality
    sites = raise_sites(repo, pl)
    esc = set(sites)
    chk.expect(not esc, "fr3d-total", pl.where, "no ValueError/IndexError/KeyError can escape the processing of a line (handlers cover the may-raise set of the line path)", f"{sorted(esc)} can escape _process_interaction_line - a line aborts the whole import: {_escapes(sites)}", K(pl, "escapes"), found=sorted(esc))
    sites_u = raise_sites(repo, pu)
    inner = set(sites_u)
    chk.expect(inner <= {"ValueError", "IndexError"}, "fr3d-total", pu.where, f"parse_unit_id can raise {sorted(inner)}", f"parse_unit_id can raise {sorted(inner)}: {_escapes({e: v for e, v in sites_u.items() if e not in ('ValueError', 'IndexError')})}", K(pu, "may-raise"))
    sites_n = raise_sites(repo, uc)
    esc_u = set(sites_n)
    chk.expect(not esc_u, "fr3d-total", uc.where, "label normalisation cannot raise: every Enum lookup on a label path is inside a handler that accepts what that lookup raises (KeyError for E[name], ValueError for E(value))", f"{sorted(esc_u)} can escape unify_classification - the line dispatcher takes the label for a malformed line (or the import aborts) instead of keeping it as 'other': {_escapes(sites_n)}", K(uc, "escapes"), found=sorted(esc_u))
    bi = repo.cls("common", "BaseInteractions")
    fields = [norm(b.annotation) for b in bi.body if isinstance(b, ast.AnnAssign)]
    chk.expect(fields == ["List[BasePair]", "List[Stacking]", "List[BaseRibose]", "List[BasePhosphate]", "List[OtherInteraction]"], "result-fields", "src/rnapolis/common.py BaseInteractions", "BaseInteractions fields in the order the adapters rely on", "BaseInteractions field order/types changed", "common:BaseInteractions:fields", found=fields)
    # fact-level rules first (checks/c19e.py): the import evaluated on one listing per class of line; the pinned forms below are only the fallback
    from checks import c19e

    why = c19e.fr3d_facts(chk, label_cases(chk.tier == "thorough"))
    if why is None:
        return
    chk.ok("fr3d-facts", pf.where, f"fact-level reading not possible ({why[:160]}); falling back to the pinned forms")
    body = pl.node.body
    real = [s for s in body if not (isinstance(s, ast.Expr) and isinstance(s.value, ast.Constant))]
    ok = len(real) == 1 and isinstance(real[0], ast.Try) and not any(isinstance(n, ast.Raise) for h in real[0].handlers for n in ast.walk(h))
    chk.expect(ok, "fr3d-total", pl.where, "the whole line path is inside one try whose handlers do not raise", "the line path is not wrapped in a single non-raising try", K(pl, "try-shape"))
    loop = [l for l in ast.walk(pf.node) if isinstance(l, ast.For) and norm(l.iter) == "f"]
    ok = len(loop) == 1 and [norm(s) for s in loop[0].body] == ["line = line.strip()", "if not line or line.startswith('#'):\n    continue", "_process_interaction_line(line, interactions_data)"]
    chk.expect(ok, "fr3d-lines", pf.where, "every non-empty, non-comment line is processed", "the line loop of parse_fr3d_output changed", K(pf, "lines"))
    # unit id
    env = {norm(s.targets[0]): norm(s.value) for s in pu.node.body if isinstance(s, ast.Assign)}
    ok = env.get("fields") == "nt.split('|')" and env.get("icode") == "fields[7] if len(fields) >= 8 and fields[7] != '' else None" and env.get("auth") == "ResidueAuth(fields[2], int(fields[4]), icode, fields[3])"
    rets = [r for r in pu.node.body if isinstance(r, ast.Return)]
    chk.expect(ok and len(rets) == 1 and norm(rets[0].value) == "Residue(None, auth)", "unit-id", pu.where, "unit id: chain = field 3, name = field 4, number = field 5, insertion code = field 8 (None when empty/absent)", "unit id fields are not (chain=2, name=3, number=4, icode=7 or None) -> Residue(None, ResidueAuth(chain, number, icode, name))", K(pu, "fields"), found=env)
    # dispatch
    cats = set()
    for r in [x for x in ast.walk(uc.node) if isinstance(x, ast.Return)]:
        if isinstance(r.value, ast.Tuple) and len(r.value.elts) == 2 and isinstance(r.value.elts[0], ast.Constant):
            cats.add(r.value.elts[0].value)
        else:
            chk.error("dispatch", uc.site(r), f"return `{norm(r)}` is not (category literal, classification)")
    tested: Dict[str, ast.If] = {}
    for s in ast.walk(pl.node):
        if isinstance(s, ast.If):
            m = astq.match(s.test, "interaction_category == C_")
            if m and isinstance(m["C_"], ast.Constant):
                tested[m["C_"].value] = s
    chk.expect(cats == set(tested) == set(DISPATCH), "dispatch-exhaustive", pl.where, f"categories returned by the normaliser = categories dispatched = {sorted(cats)}", "the categories unify_classification can return and the categories _process_interaction_line dispatches differ: some lines are silently dropped", K(pl, "categories"), expected=sorted(DISPATCH), found={"returned": sorted(cats), "dispatched": sorted(tested)})
    for cat, (cls, key) in DISPATCH.items():
        s = tested.get(cat)
        if s is None:
            continue
        body_txt = [flat(x) for x in s.body]
        args = "nt1_residue, nt2_residue" + ("" if cls == "OtherInteraction" else ", classification" + (", None" if cls == "BasePair" else ""))
        want = [flat(f"interactions_data['{key}'].append({cls}({args}))")]
        chk.expect(body_txt == want, "dispatch-branch", pl.site(s), f"{cat}: one {cls}(nt1, nt2, ...) appended to {key}", f"branch `{cat}` does not append exactly one {cls}({args}) to interactions_data['{key}']", K(pl, f"branch:{cat}"), expected=want, found=body_txt)
    roles = {norm(s.targets[0]): norm(s.value) for s in ast.walk(pl.node) if isinstance(s, ast.Assign)}
    ok = roles.get("nt1") == "parts[0]" and roles.get("interaction_type") == "parts[1]" and roles.get("nt2") == "parts[2]" and roles.get("nt1_residue") == "parse_unit_id(nt1)" and roles.get("nt2_residue") == "parse_unit_id(nt2)" and roles.get("parts") == "line.split('\\t')" and flat(roles.get("(interaction_category, classification)", roles.get("interaction_category, classification", ""))) == flat("unify_classification(interaction_type)")
    chk.expect(ok, "line-fields", pl.where, "fields: unit 1, label, unit 2 (tab separated); residues and class from their own fields", "a line is not decoded as (nt1 = field 0, label = field 1, nt2 = field 2)", K(pl, "fields"), found=roles)
    # keys written = keys read, BaseInteractions in field order
    lit = None
    for s in ast.walk(pf.node):
        if isinstance(s, ast.Assign) and norm(s.targets[0]) == "interactions_data" and isinstance(s.value, ast.Dict):
            lit = [k.value for k in s.value.keys]
    rets = [r for r in pf.node.body if isinstance(r, ast.Return)]
    order = [DISPATCH[c][1] for c in ("base-pair", "stacking", "base-ribose", "base-phosphate", "other")]
    ok = lit is not None and sorted(lit) == sorted(order) and len(rets) == 1 and flat(rets[0].value) == flat("BaseInteractions(" + ", ".join(f"interactions_data['{k}']" for k in order) + ")")
    chk.expect(ok, "result-fields", pf.where, "the five lists are created under the keys the dispatch writes and passed to BaseInteractions in field order", "interactions_data keys / BaseInteractions argument order do not match (basePairs, stackings, baseRibose, basePhosphate, other)", K(pf, "fields"))


def check_normaliser(chk, evaluated: bool = False) -> None:
    """`evaluated`: normaliser-eval could evaluate the function on every label class - then the pinned forms of its steps are not
    consulted (a lookup by value instead of by name, another slicing idiom ... are decided by what the labels give)."""
    repo = chk.repo
    uc = repo.func(M, "unify_classification")
    p = uc.node.args.args[0].arg
    # every reassignment of the working string slices the working string itself
    for s in ast.walk(uc.node):
        if isinstance(s, ast.Assign) and norm(s.targets[0]) == p:
            names = [n for n in astq.names(s.value)]
            chk.expect(names == [p], "normaliser-self-update", uc.site(s), f"`{norm(s)}` rewrites the label from itself", f"`{norm(s)}` rebuilds the working label from `{[n for n in names if n != p]}`: an earlier normalisation step is undone", K(uc, f"update:{norm(s)}"))
    chk.floor("normaliser-self-update", 2)
    if evaluated:
        chk.ok("normaliser-steps", uc.where, "steps, backbone / stacking / Leontis-Westhof branches and the final fallback are decided by normaliser-eval on the current code (pinned forms not consulted)")
        return
    ifs = [s for s in uc.node.body if isinstance(s, ast.If)]
    tests = [norm(s.test) for s in ifs]
    want = [
        f"{p}.startswith('n')",
        f"len({p}) >= 3 and {p}.endswith('a')",
        f"len({p}) == 3 and {p}[1:] == 'BR' and {p}[0].isdigit()",
        f"len({p}) == 4 and {p}[1:] == 'BPh' and {p}[0].isdigit()",
        f"len({p}) == 3 and {p}.startswith('s') and ({p}[1] in ('3', '5')) and ({p}[2] in ('3', '5'))",
        f"len({p}) == 3 and {p}[0].lower() in ('c', 't')",
    ]
    chk.expect(tests == want, "normaliser-steps", uc.where, "steps: strip 'n', strip 'a' (length >= 3), nBR, nBPh, sXY, c/t + two edges - in this order", "the sequence of normalisation steps/tests changed", K(uc, "steps"), expected=want, found=tests)
    if tests == want:
        strip = [[norm(x) for x in s.body if isinstance(x, ast.Assign)] for s in ifs[:2]]
        chk.expect(strip == [[f"{p} = {p}[1:]"], [f"{p} = {p}[:-1]"]], "normaliser-steps", uc.where, "prefix and suffix are removed from the working label", "prefix/suffix stripping changed", K(uc, "strip"), found=strip)
        for s, en, cat in ((ifs[2], "BR", "base-ribose"), (ifs[3], "BPh", "base-phosphate")):
            rets = [norm(r.value) for r in ast.walk(s) if isinstance(r, ast.Return)]
            v = [x for x in ast.walk(s) if isinstance(x, ast.Assign)]
            ok = rets[:1] == [f"('{cat}', {en}[{norm(v[0].targets[0])}])"] and norm(v[0].value) == f"f'_{{{p}[0]}}'" if v else False
            chk.expect(ok, "normaliser-backbone", uc.site(s), f"<digit>{en} -> ('{cat}', {en}[_digit])", f"the {en} branch does not return ('{cat}', {en}[f'_{{digit}}'])", K(uc, f"branch:{en}"))
        got = {}
        for s in ifs[4].body:
            if isinstance(s, ast.If):
                m = astq.match(s.test, f"{p} == L_")
                r = s.body[0] if s.body and isinstance(s.body[0], ast.Return) else None
                if m and r is not None and isinstance(r.value, ast.Tuple):
                    got[m["L_"].value] = norm(r.value.elts[1]).split(".")[-1] if norm(r.value.elts[0]) == "'stacking'" else None
        chk.expect(got == STACK_LABELS, "normaliser-stacking", uc.site(ifs[4]), "s33 -> downward, s55 -> upward, s35 -> outward, s53 -> inward", "the stacking label table changed", K(uc, "stacking"), expected=STACK_LABELS, found=got)
        lw = ifs[5]
        env = {norm(x.targets[0]): norm(x.value) for x in ast.walk(lw) if isinstance(x, ast.Assign)}
        rets = [norm(r.value) for r in ast.walk(lw) if isinstance(r, ast.Return)]
        ok = env == {"edge_type": f"{p}[0].lower()", "edge1": f"{p}[1].upper()", "edge2": f"{p}[2].upper()", "lw_format": "f'{edge_type}{edge1}{edge2}'"} and rets == ["('base-pair', LeontisWesthof[lw_format])", "('other', None)"]
        chk.expect(ok, "normaliser-lw", uc.site(lw), "c/t lower-cased, both edges upper-cased, looked up in LeontisWesthof, unknown -> other", "the Leontis-Westhof branch does not normalise case (c/t lower, edges upper) and look the class up", K(uc, "lw"), found=env)
    last = uc.node.body[-1]
    chk.expect(isinstance(last, ast.Return) and norm(last.value) == "('other', None)", "normaliser-steps", uc.where, "an unrecognised label is kept as 'other'", "the final fallback is not ('other', None)", K(uc, "fallback"))


def check_dssr(chk, evaluated: bool = False) -> None:
    """`evaluated`: dssr-eval could read the pair / stack loops and the result (then the pinned result form is not consulted)."""
    from checks import c19e

    repo = chk.repo
    ml = repo.func(M, "match_dssr_lw")
    mn = repo.func(M, "match_dssr_name_to_residue")
    pd_ = repo.func(M, "parse_dssr_output")
    for fi in (ml, mn, pd_):
        chk.note_function(fi)
    why = c19e.dssr_lw_facts(chk)
    if why is not None:
        chk.ok("dssr-facts", ml.where, f"fact-level reading of match_dssr_lw not possible ({why[:120]}); falling back to the pinned form")
        rets = [r for r in ml.node.body if isinstance(r, ast.Return)]
        ok = len(rets) == 1 and norm(rets[0].value) in ("LeontisWesthof[lw] if lw in LeontisWesthof.__members__ else None",)
        chk.expect(ok, "guard-exact", ml.where, "the Enum lookup is guarded by membership in LeontisWesthof.__members__ (exact for E[name])", "the guard of LeontisWesthof[lw] is not `lw in LeontisWesthof.__members__`: names that pass the guard but are not members raise KeyError (or members are rejected)", K(ml, "guard"), found=[norm(r.value) for r in rets])
    why = c19e.dssr_name_facts(chk)
    if why is not None:
        chk.ok("dssr-facts", mn.where, f"fact-level reading of match_dssr_name_to_residue not possible ({why[:120]}); falling back to the pinned form")
        t = [flat(s) for s in mn.node.body]
        ok = t == [flat("if nt_id is not None:\n    nt_id = nt_id.split(':')[-1]\n    for residue in structure3d.residues:\n        if residue.full_name == nt_id:\n            return residue\n    logging.warning(f'Failed to find residue {nt_id}')"), flat("return None")]
        chk.expect(ok, "dssr-name", mn.where, "a DSSR id resolves to the residue whose full name equals the part after the model prefix", "DSSR name matching changed (strip model prefix, exact full_name equality, None otherwise)", K(mn, "match"))
    if evaluated:  # the loops and the result were evaluated on the documents of dssr-eval: their pinned forms are not consulted
        chk.ok("dssr-pairs", pd_.where, "which pairs are kept is decided by dssr-eval on the current code (pinned form not consulted)")
        chk.ok("dssr-stacks", pd_.where, "which stack members are paired is decided by dssr-eval on the current code (pinned form not consulted)")
        return
    loops = [l for l in pd_.node.body if isinstance(l, ast.For)]
    pl = [l for l in loops if norm(l.iter) == "dssr.get('pairs', [])"]
    ok = len(pl) == 1 and [flat(s) for s in pl[0].body] == [
        flat("nt1 = match_dssr_name_to_residue(structure3d, pair.get('nt1', None))"),
        flat("nt2 = match_dssr_name_to_residue(structure3d, pair.get('nt2', None))"),
        flat("lw = match_dssr_lw(pair.get('LW', None))"),
        flat("if nt1 is not None and nt2 is not None and (lw is not None):\n    base_pairs.append(BasePair(nt1, nt2, lw, None))"),
    ]
    chk.expect(ok, "dssr-pairs", pd_.where, "a pair is kept iff both residues and the class resolve", "DSSR pairs are not kept exactly when nt1, nt2 and LW all resolve", K(pd_, "pairs"))
    sl = [l for l in loops if norm(l.iter) == "dssr.get('stacks', [])"]
    ok = False
    if len(sl) == 1:
        b = sl[0].body
        ok = len(b) == 2 and flat(b[0]) == flat("nts = [match_dssr_name_to_residue(structure3d, nt) for nt in stack.get('nts_long', '').split(',')]") and isinstance(b[1], ast.For) and norm(b[1].iter) == "range(1, len(nts))"
        if ok:
            i = norm(b[1].target)
            ok = [flat(s) for s in b[1].body] == [flat(f"nt1 = nts[{i} - 1]"), flat(f"nt2 = nts[{i}]"), flat("if nt1 is not None and nt2 is not None:\n    stackings.append(Stacking(nt1, nt2, None))")]
    chk.expect(ok, "dssr-stacks", pd_.where, "consecutive members (i-1, i) of a stack are paired when both resolve; an unresolved member breaks the chain", "DSSR stacks are not turned into Stacking(nts[i-1], nts[i]) for consecutive positions with both resolved (unresolved members must not be skipped over)", K(pd_, "stacks"))
    # (with dssr-eval the result is read by the evaluation itself: BaseInteractions(<pairs>, <stackings>, [], [], []))
    rets = [r for r in pd_.node.body if isinstance(r, ast.Return)]
    chk.expect(len(rets) == 1 and norm(rets[0].value) == "BaseInteractions(base_pairs, stackings, [], [], [])", "result-fields", pd_.where, "DSSR result = BaseInteractions(pairs, stackings, [], [], [])", "DSSR result fields changed", K(pd_, "result"))


def enum_stubs(repo) -> Dict[str, EnumStub]:
    from sa.world import enum_stub

    return {en: enum_stub(repo, "common", en) for en in ("LeontisWesthof", "BR", "BPh", "StackingTopology", "Saenger")}


def label_cases(full: bool = False) -> Dict[str, Any]:
    """One label per class of the label language -> (category, class) the statement gives.  `full` (tier thorough): in addition the
    whole product the statement spells out - 18 Leontis-Westhof classes x 8 letter cases, four stacking labels, 0-9BR, 0-9BPh, each
    bare / with the 'n' prefix / with the 'a' suffix / with both."""
    lw = lambda n: ("base-pair", ("LeontisWesthof", n))
    cases = _label_samples(lw)
    if full:
        import itertools

        core: Dict[str, Any] = {}
        for ct, e1, e2 in itertools.product("ct", "WHS", "WHS"):
            for v in itertools.product(*((ch.lower(), ch.upper()) for ch in (ct, e1, e2))):
                core["".join(v)] = lw(f"{ct}{e1}{e2}")
        for lab, top in STACK_LABELS.items():
            core[lab] = ("stacking", ("StackingTopology", top))
        for d in "0123456789":
            core[f"{d}BR"] = ("base-ribose", ("BR", f"_{d}"))
            core[f"{d}BPh"] = ("base-phosphate", ("BPh", f"_{d}"))
        for lab, want in core.items():
            for pre, suf in (("", ""), ("n", ""), ("", "a"), ("n", "a")):
                cases.setdefault(pre + lab + suf, want)
    return cases


def _label_samples(lw) -> Dict[str, Any]:
    return {
        "cWW": lw("cWW"), "tHS": lw("tHS"), "cww": lw("cWW"), "tSs": lw("tSS"), "THs": lw("tHS"), "ncWW": lw("cWW"), "cWWa": lw("cWW"), "ncWWa": lw("cWW"), "ntsh": lw("tSH"), "tWHa": lw("tWH"),
        "s33": ("stacking", ("StackingTopology", STACK_LABELS["s33"])), "s55": ("stacking", ("StackingTopology", STACK_LABELS["s55"])), "s35": ("stacking", ("StackingTopology", STACK_LABELS["s35"])), "s53": ("stacking", ("StackingTopology", STACK_LABELS["s53"])),
        "ns35": ("stacking", ("StackingTopology", STACK_LABELS["s35"])), "s53a": ("stacking", ("StackingTopology", STACK_LABELS["s53"])),
        "0BR": ("base-ribose", ("BR", "_0")), "7BR": ("base-ribose", ("BR", "_7")), "n3BR": ("base-ribose", ("BR", "_3")), "9BR": ("base-ribose", ("BR", "_9")),
        "0BPh": ("base-phosphate", ("BPh", "_0")), "9BPh": ("base-phosphate", ("BPh", "_9")), "n4BPh": ("base-phosphate", ("BPh", "_4")), "6BPha": ("base-phosphate", ("BPh", "_6")),
        "\u00b2BR": ("other", None), "\u0663BPh": ("other", None),  # str.isdigit() accepts more than 0-9: a digit that names no member is an unrecognised label
        "xyz": ("other", None), "": ("other", None), "cXY": ("other", None), "s36": ("other", None), "perp": ("other", None), "cW": ("other", None), "n": ("other", None), "BPh": ("other", None), "tWWW": ("other", None),
    }


def check_normaliser_eval(chk) -> bool:
    """True when the function could be evaluated on every label class.  unify_classification evaluated on one label per class of the label language (prefix n / suffix a / digit+BR / digit+BPh / sXY / c|t + two edges
    in either case / junk): category and class must be the ones the statement gives."""
    from sa.blockeval import BlockEval, Unknown

    repo = chk.repo
    uc = repo.func(M, "unify_classification")
    p = uc.node.args.args[0].arg
    from sa.world import build

    world = build(repo, M)  # Enum classes, dataclass constructors and the module's own functions: the same abstract world for the body and for the module-level tables it reads
    cases = label_cases(chk.tier == "thorough")
    bad = {}
    raised = {}
    try:
        for label, want in cases.items():
            ev = BlockEval(repo, M, {p: label}, world=world)
            try:
                kind, val = ev.run(uc.node.body)
            except Unknown:
                raise
            except Exception as ex:  # an exception of the evaluated code (Enum lookup, subscript ...), not of the analysis
                st = ev.trace[-1] if ev.trace else None
                o = getattr(ex, "_sa_origin", None) or (("unify_classification", getattr(st, "lineno", None), ast.unparse(st).split("\n")[0][:90]) if st is not None else None)
                raised[label] = f"{type(ex).__name__} ({str(ex)[:60]})" + (f" at line {o[1]} `{o[2]}`" if o else "")
                continue
            if kind != "return" or val != want:
                bad[label] = (kind, val)
    except Unknown as ex:
        chk.error("normaliser-eval", uc.where, f"unify_classification not evaluable: {ex}")
        return False
    except Exception as ex:  # anything else is a fault of the analysis, never a verdict
        chk.error("normaliser-eval", uc.where, f"evaluation of unify_classification failed: {type(ex).__name__}: {ex}")
        return False
    chk.expect(
        not bad,
        "normaliser-eval",
        uc.where,
        f"{len(cases)} labels" + (" (one per class of the label language and the whole product 18 classes x 8 letter cases, 4 stacking labels, 0-9BR, 0-9BPh, each bare / n-prefixed / a-suffixed / both)" if len(cases) > 100 else ", one per class of the label language (n-prefix, a-suffix, case of c/t and edges, digit+BR/BPh, sXY, junk),") + " get the category and class of the statement",
        "labels are classified wrongly: " + "; ".join(f"`{k}` -> {v[1] if v[0] == 'return' else v[0]} (expected {cases[k]})" for k, v in list(bad.items())[:4]),
        K(uc, "normaliser-eval"),
        expected={k: str(cases[k]) for k in list(bad)[:8]},
        found={k: str(v) for k, v in list(bad.items())[:8]},
    )
    chk.expect(
        not raised,
        "normaliser-eval",
        uc.where,
        f"none of the {len(cases)} label classes makes unify_classification raise",
        "unify_classification raises instead of returning a (category, class): " + "; ".join(f"label `{k}` (statement: {cases[k]}) -> {v}" for k, v in list(raised.items())[:3]) + " - the line is lost (or the whole import)",
        K(uc, "normaliser-raises"),
        found=dict(list(raised.items())[:8]),
    )
    return True


DSSR_KNOWN = {"A1": "rA1", "A2": "rA2", "A3": "rA3", "A4": "rA4", "A5": "rA5"}  # names that resolve in the structure -> residue; Z* do not resolve
DSSR_DOCS = [
    # pairs: both residues and the class resolve / one residue does not / unknown class / a residue missing / model prefix / class missing or null
    {"pairs": [{"nt1": "A1", "nt2": "A2", "LW": "cWW"}, {"nt1": "A1", "nt2": "Z9", "LW": "cWW"}, {"nt1": "A3", "nt2": "A4", "LW": "c.W"}, {"nt2": "A4", "LW": "tHS"}, {"nt1": "1:A5", "nt2": "A4", "LW": "tHS"}, {"nt1": "A2", "nt2": "A3"}, {"nt1": "A2", "nt2": "A3", "LW": None}], "stacks": []},
    # stacks, by where the member that does not resolve sits: nowhere / in the middle / first / last / two in a row / in the middle of five
    {"stacks": [{"nts_long": "A1,A2,A3"}]},
    {"stacks": [{"nts_long": "A1,Z9,A3"}]},
    {"stacks": [{"nts_long": "Z9,A1,A2"}]},
    {"stacks": [{"nts_long": "A1,A2,Z9"}]},
    {"stacks": [{"nts_long": "A1,Z8,Z9,A2"}]},
    {"stacks": [{"nts_long": "A1,A2,Z9,A4,A5"}, {"nts_long": "A3"}, {}]},
    # two stacks: the last member of one and the first of the next are not members of one stack
    {"stacks": [{"nts_long": "A1,A2"}, {"nts_long": "A3,A4"}]},
    {"pairs": [{"nt1": "A4", "nt2": "A5", "LW": "tSW"}], "stacks": [{"nts_long": "A5,A4"}]},
    {},
]


def _dssr_resolve(name):
    return None if name is None else DSSR_KNOWN.get(name.split(":")[-1])


def dssr_expected(doc: Dict[str, Any], members) -> Tuple[List[tuple], List[tuple]]:
    """What the statement gives for a document: the pairs whose two names resolve and whose class is a member; per stack, the
    members adjacent in the stack's own list that both resolve."""
    pairs, stacks = [], []
    for pr in doc.get("pairs", []):
        a, b, lw = _dssr_resolve(pr.get("nt1")), _dssr_resolve(pr.get("nt2")), pr.get("LW")
        if a is not None and b is not None and isinstance(lw, str) and lw in members:
            pairs.append(("BasePair", a, b, ("LeontisWesthof", lw), None))
    for st in doc.get("stacks", []):
        names = st.get("nts_long", "").split(",")
        for x, y in zip(names, names[1:]):
            a, b = _dssr_resolve(x), _dssr_resolve(y)
            if a is not None and b is not None:
                stacks.append(("Stacking", a, b, None))
    return pairs, stacks


def explain_stacking(doc: Dict[str, Any], got: List[tuple], want: List[tuple]) -> str:
    """Names the members behind the first stacking that is recorded but should not be (or the reverse)."""
    back = {v: k for k, v in DSSR_KNOWN.items()}
    lists = [st.get("nts_long", "").split(",") for st in doc.get("stacks", [])]
    rest = list(want)
    for g in got:
        if g in rest:
            rest.remove(g)
            continue
        a, b = (back.get(g[1]), back.get(g[2])) if isinstance(g, tuple) and len(g) >= 3 else (None, None)
        if a is None or b is None:
            return f"a stacking {g!r} is recorded that is not between two resolved members"
        for names in lists:
            short = [n.split(":")[-1] for n in names]
            if a in short and b in short:
                i, j = short.index(a), short.index(b)
                if abs(i - j) == 1:
                    return f"members `{a}` and `{b}` of the stack `{','.join(names)}` are recorded " + ("more than once" if i < j else "in reverse order")
                between = names[min(i, j) + 1 : max(i, j)]
                gone = [n for n in between if _dssr_resolve(n) is None]
                return f"members `{a}` and `{b}` of the stack `{','.join(names)}` are recorded as a stacking although they are not adjacent in the stack's list (between them: {', '.join('`' + n + '`' for n in between)}" + (f"; {', '.join(gone)} do{'es' if len(gone) == 1 else ''} not resolve in the structure and must break the chain, not be skipped over)" if gone else ")")
        return f"`{a}` and `{b}` are recorded as a stacking although they are members of different stacks ({' | '.join(','.join(n) for n in lists)})"
    if rest:
        m = rest[0]
        return f"no stacking is recorded for `{back.get(m[1])}` and `{back.get(m[2])}`, adjacent in their stack's list and both resolved"
    return "the stackings are recorded in another order than the stacks list them"


def check_dssr_eval(chk) -> bool:
    """True when the fragment could be evaluated.  The pair and stack loops of parse_dssr_output evaluated (in one process model,
    sa/procstate.py) on documents covering: resolved / unresolved residue, known / unknown / missing class; per stack the position of
    an unresolved member; several stacks.  What is expected is computed from the document by the statement's words (dssr_expected)."""
    from sa.blockeval import BlockEval, Unknown
    from sa.procstate import Process, render

    repo = chk.repo
    pd_ = repo.func(M, "parse_dssr_output")
    stubs = enum_stubs(repo)
    members = stubs["LeontisWesthof"].__members__

    def resolve(structure, name, *more):
        return _dssr_resolve(name)

    def match_lw(x):
        return ("LeontisWesthof", x) if isinstance(x, str) and x in members else None

    # fragment fallback (used only when the whole function cannot be evaluated): the loops that read the parsed document, the
    # statements that initialise the result lists before them, the name the document is bound to
    top_loops = [l for l in pd_.node.body if isinstance(l, ast.For)]
    docname = None
    first = None
    for l in top_loops:
        for c2 in ast.walk(l.iter):
            if docname is None and isinstance(c2, ast.Call) and isinstance(c2.func, ast.Attribute) and c2.func.attr == "get" and isinstance(c2.func.value, ast.Name):
                docname = c2.func.value.id
                first = pd_.node.body.index(l)
    inits = [s2 for s2 in pd_.node.body[: first or 0] if isinstance(s2, (ast.Assign, ast.AnnAssign)) and isinstance(getattr(s2, "value", None), (ast.List,))]
    params = [a.arg for a in pd_.node.args.args]
    bad: List[Tuple[Any, str]] = []
    hist: List[str] = []
    try:
        import json

        from sa.world import Obj, opener

        files: Dict[str, str] = {}
        # the structure: one residue per name that resolves (full_name = the name), so that the code's own way of resolving names - a
        # scan, an index built once, a helper - is evaluated with the import; residues print as the labels of DSSR_KNOWN
        residues = [Obj(lab, full_name=name) for name, lab in DSSR_KNOWN.items()]
        structure = Obj("<structure>", residues=residues)
        common = dict(stubs, match_dssr_lw=match_lw, BasePair=lambda *a: ("BasePair",) + a, Stacking=lambda *a: ("Stacking",) + a, BaseInteractions=lambda *a: ("BaseInteractions",) + a, open=opener(files), orjson=Obj("<orjson>", loads=json.loads))
        proc = Process(repo, M, extra=common)
        # modes, tried in this order until one is evaluable: the whole function with the code's own name matching / the whole function
        # with name matching as a stub (dssr-name decides the matcher) / the loops only, with the stub
        mode = ["own-matcher"]

        def plain(v):
            if isinstance(v, Obj):
                return repr(v)
            if isinstance(v, tuple):
                return tuple(plain(x) for x in v)
            if isinstance(v, list):
                return [plain(x) for x in v]
            return v

        def evaluate(doc, fresh: bool = True):
            nonlocal proc
            while True:
                if fresh:
                    proc.restart()
                try:
                    if mode[0] in ("own-matcher", "stub-matcher"):
                        files["dssr.json"] = json.dumps(doc)
                        return "return", plain(proc.world["parse_dssr_output"]("dssr.json", structure if mode[0] == "own-matcher" else "S"))
                    if docname is None:
                        raise Unknown("the loops that read the parsed document were not found")
                    env = {p: v for p, v in zip(params[1:], ("S", None))}
                    env[docname] = doc
                    kind, val = BlockEval(repo, M, env, world=proc.world).run(inits + pd_.node.body[first:])
                    return kind, plain(val)
                except Unknown:
                    if mode[0] == "own-matcher":
                        mode[0] = "stub-matcher"
                        proc = Process(repo, M, extra=dict(common, match_dssr_name_to_residue=resolve))
                    elif mode[0] == "stub-matcher":
                        mode[0] = "loops"
                    else:
                        raise

        alone = []
        for doc in DSSR_DOCS:
            want_pairs, want_stacks = dssr_expected(doc, members)
            kind, val = evaluate(doc)
            alone.append(render((kind, val)))
            if kind != "return" or not (isinstance(val, tuple) and val[:1] == ("BaseInteractions",) and len(val) == 6):
                bad.append((doc, f"result {kind}: {val!r}"[:120]))
                continue
            if list(val[1]) != want_pairs:
                bad.append((doc, f"pairs {list(val[1])!r}, expected {want_pairs!r}"))
            if list(val[2]) != want_stacks:
                bad.append((doc, f"{explain_stacking(doc, list(val[2]), want_stacks)}: stackings {list(val[2])!r}, expected {want_stacks!r}"))
            if list(val[3]) or list(val[4]) or list(val[5]):
                bad.append((doc, "other lists are not empty"))
        # one process, the documents one after the other: each gives what it gives alone
        proc.restart()
        fresh_state = proc.snapshot()
        for k, doc in enumerate(DSSR_DOCS):
            got = render(evaluate(doc, fresh=False))
            if got != alone[k] and not hist:
                left = {n: v for n, v in proc.snapshot().items() if fresh_state.get(n) != v}
                hist.append(f"document {k + 1} ({str(doc)[:60]}) imported after {k} other document(s) in the same process gives {str(got)[:140]}, in a process of its own {str(alone[k])[:140]}" + (f"; state left behind in {sorted(left)[0]}" if left else ""))
    except Unknown as ex:
        chk.error("dssr-eval", pd_.where, f"parse_dssr_output loops not evaluable: {ex}")
        return False
    except Exception as ex:
        chk.violation("dssr-eval", pd_.where, f"parse_dssr_output raises {type(ex).__name__} ({ex}) on one of the documents", K(pd_, "dssr-raises"))
        return True
    chk.expect(
        not bad,
        "dssr-eval",
        pd_.where,
        f"{len(DSSR_DOCS)} documents ({'the whole import with the code own way of resolving names in a structure of ' + str(len(DSSR_KNOWN)) + ' residues' if mode[0] == 'own-matcher' else 'the whole import, name matching as a stub' if mode[0] == 'stub-matcher' else 'the loops over the parsed document'}): a pair is kept iff both residues and the class resolve; a stacking is recorded exactly for the members adjacent in a stack's own list that both resolve (an unresolved member breaks the chain, it is not skipped over; stacks are not joined)",
        "DSSR import differs from the statement: " + "; ".join(f"{str(d)[:70]}: {m}" for d, m in bad[:2]),
        K(pd_, "dssr-eval"),
        found=[m for d, m in bad[:4]],
    )
    chk.expect(not hist, "import-history", pd_.where, f"{len(DSSR_DOCS)} DSSR documents imported one after the other in one process: each gives what it gives in a process of its own", "; ".join(hist[:1]), K(pd_, "dssr-history"), found=hist[:2])
    return True


def run(chk) -> None:
    chk.explanation = (
        "Static rules on adapter.py. For all inputs: a small may-raise analysis (int()/float() of strings, constant subscripts of split() results without an exact length guard, Enum subscripts "
        "(KeyError) and Enum calls by value (ValueError) unless dominated by a membership test, explicit raises, callees of the same module) minus enclosing handlers shows nothing escapes the "
        "per-line path and nothing a label path raises is left to the handler for malformed lines; each site is reported with its construct, reason and enclosing handlers. Per class of input "
        "(fragment evaluation, DESIGN 1.2 item 4, in the abstract world of sa/world.py: Enum classes, dataclass constructors, the module's own functions as inlined ast; in the process model of "
        "sa/procstate.py: module-level objects and default arguments are created once per process and live on between calls): parse_unit_id on unit ids of every field count and on ids that "
        "differ in a single field; parse_fr3d_output on one listing per category the evaluated normaliser returns (exactly one object of the class of the category, between the residues of "
        "column 1 and 3, in the BaseInteractions field of that element type), on one line per class of label (exactly one interaction each: no label path raises into the malformed-line handler), "
        "on comment / blank / malformed lines (skipped, nothing raised, later lines kept), on several lines (file order) and on histories of two imports in one process (the second gives what it "
        "gives alone, the first result is not rewritten); unify_classification on one label per class of the label language (tier thorough: the whole product 18 classes x 8 letter cases, 4 "
        "stacking labels, 0-9BR, 0-9BPh, each bare / n-prefixed / a-suffixed / both); match_dssr_lw on every member name and on non-members; match_dssr_name_to_residue on exact / model-prefixed "
        "/ prefix / unknown / missing ids; parse_dssr_output (file and orjson.loads as stubs) on ten documents - what is expected is computed from each document by the words of the statement "
        "(pairs whose names and class resolve; members adjacent in a stack's own list that both resolve) - alone and one after the other in one process. The pinned forms of these constructs "
        "are consulted only where the evaluation is not possible."
    )
    chk.trusted = ["CPython ast", "orjson.loads / file I/O errors are outside the statement", "stacking label table as coded (what FR3D's four labels denote is not decided)"]
    chk.assumptions = [
        "labels outside the enumerated classes (longer junk, other alphabets) are represented by the junk samples; only the structure of the normaliser is decided for them",
        "call histories: state carried by module-level objects and default arguments is modelled; rebinding through `global`, attributes set on functions/classes and caches of decorators are not (the evaluation stops with 'not evaluable')",
        "a mutable class attribute (a list or dict in a class body) is folded anew at every reference: history carried through one is not visible to rule `import-history` (residual)",
    ]
    # evidence rules; unit-id, line-fields, dispatch-*, result-fields, fr3d-lines, dssr-name, guard-exact are evidence rules too whenever
    # their fact-level reading (checks/c19e.py) is possible, and form rules in the fallback
    chk.robust |= {"fr3d-total", "normaliser-eval", "dssr-eval", "normaliser-self-update", "import-history", "label-total"}
    chk.superseded.update({"normaliser-steps": "normaliser-eval", "normaliser-backbone": "normaliser-eval", "normaliser-stacking": "normaliser-eval", "normaliser-lw": "normaliser-eval", "dssr-pairs": "dssr-eval", "dssr-stacks": "dssr-eval"})
    check_fr3d(chk)
    check_normaliser(chk, check_normaliser_eval(chk))
    check_dssr(chk, check_dssr_eval(chk))
    for rule, n in (("fr3d-total", 4), ("dispatch-branch", 5), ("dispatch-exhaustive", 1), ("guard-exact", 1), ("dssr-stacks", 1)):
        chk.floor(rule, n)


MANIFEST_ENTRY = {
    "text": "Static decision on the current source of adapter.py: totality (the may-raise set of the per-line path is covered by its handlers for every file content; no label path raises into the malformed-line handler), faithful field positions, "
    "exhaustive dispatch with one object of the matching class per category and per class of label, normaliser steps that update the string they test, exact Enum-membership guard for DSSR classes, pairs and stack members adjacent in the stack's own "
    "list, independence of an import from the imports made before it in the same process. 'Never raises' is a for-all-inputs claim decided on all paths; the faithful-import clauses are decided by evaluating the code's ast on one representative per class of input.",
    "note": "Trusted: orjson and file I/O. Not decided: the label language as a set of strings (enumeration is execution) and what FR3D's four stacking labels denote.",
    "technique": "static analysis: may-raise/handler coverage, exhaustiveness of dispatch vs returned literals, argument/field agreement, guard exactness",
}
