"""Cross-cutting facts about state that survives a call, attributed to a property through the call graph of its entry points
(sa/memo.py:ENTRIES), used by C08, C09, C10 and C15:

* `memo-shared-result` (sa/memoshare.py): a memoised function must not hand one mutable object to every caller;
* `shared-state` (the package-wide rule of checks/c14.py, re-read here for the functions this property's entry points reach):
  a function that changes a module-level container - directly or through a local alias of it - starts its next call from the
  state the previous call left, so what it returns for an input depends on the inputs seen before (a table of modified residues
  that keeps the entries of the previous file, a pool of chain ids that runs dry);
* `argument-untouched`: the functions named by the caller (writers, the fit test) never store into the table they are handed.
"""
from __future__ import annotations

import ast
import re
from typing import Iterable, List, Optional, Set, Tuple

from sa import astq
from sa.model import AnalysisError, norm


class _Capture:
    def __init__(self, chk):
        self.repo, self.robust = chk.repo, set()
        self.found: List[Tuple[str, str, str, str]] = []

    def violation(self, rule, site, detail, key=None, **k):
        self.found.append((rule, site, detail, key or ""))

    def __getattr__(self, name):
        return lambda *a, **k: True


def check_shared_state(chk, pid: str) -> None:
    from sa.memo import ENTRIES, relevant

    if pid not in ENTRIES:
        return
    rule = "shared-state"
    chk.robust.add(rule)
    try:
        from checks import c14

        cap = _Capture(chk)
        c14.shared_state(cap)
        rel = relevant(chk.repo, pid) or set()
    except AnalysisError:
        raise
    except Exception as ex:
        chk.error(rule, "-", f"shared-state reading failed internally ({type(ex).__name__}: {str(ex)[:60]})")
        return
    n = 0
    for r, site, detail, key in cap.found:
        m = re.match(r"src/rnapolis/(\w+)\.py(?::\d+)? (\S+)$", site or "")
        if not m:
            continue
        mod, q = m.group(1), m.group(2)
        if (mod, q) in rel or (mod, q.split(".<locals>.")[0]) in rel:
            n += 1
            chk.violation(rule, site, detail, key or f"{mod}:{q}:shared")
    if n == 0:
        chk.ok(rule, "package", "no function reachable from this property's entry points changes a module-level container or rebinds a global")


MUTATING = {"append", "extend", "insert", "remove", "pop", "clear", "sort", "reverse", "update", "add", "discard", "setdefault", "popitem", "drop_duplicates", "fillna", "rename", "drop", "sort_values", "sort_index", "reset_index", "set_index", "replace", "dropna"}


def argument_stores(fn: ast.FunctionDef, param: str) -> List[ast.AST]:
    """Statements / calls of fn that change the object bound to `param` (or to a plain alias of it): subscript / attribute stores,
    deletes, augmented assignments, in-place container methods, pandas methods called with inplace=True."""
    names: Set[str] = {param}
    rebound = {t.id for s in astq.walk_no_nested(fn) if isinstance(s, ast.Assign) for t in s.targets if isinstance(t, ast.Name)}
    changed = True
    while changed:
        changed = False
        for s in astq.walk_no_nested(fn):
            if isinstance(s, ast.Assign) and isinstance(s.value, ast.Name) and s.value.id in names:
                for t in s.targets:
                    if isinstance(t, ast.Name) and t.id not in names:
                        names.add(t.id)
                        changed = True
    # a name that is re-bound to something else (df = df.copy(), df = df.sort_values(...)) no longer is the argument afterwards;
    # flow-insensitively that cannot be told apart, so such names are only followed when every rebinding is a plain alias
    solid = {n for n in names if n == param and not any(isinstance(s, ast.Assign) and any(isinstance(t, ast.Name) and t.id == n for t in s.targets) for s in astq.walk_no_nested(fn))}
    solid |= {n for n in names if n != param}
    if param not in solid:
        return []

    def root(e: ast.AST) -> Optional[str]:
        while isinstance(e, (ast.Subscript, ast.Attribute)):
            e = e.value
        return e.id if isinstance(e, ast.Name) else None

    out: List[ast.AST] = []
    for s in astq.walk_no_nested(fn):
        if isinstance(s, (ast.Assign, ast.AugAssign, ast.Delete)):
            tg = s.targets if isinstance(s, (ast.Assign, ast.Delete)) else [s.target]
            for t in tg:
                if isinstance(t, (ast.Subscript, ast.Attribute)) and root(t) in solid:
                    out.append(s)
        elif isinstance(s, ast.Call) and isinstance(s.func, ast.Attribute) and root(s.func.value) in solid:
            inplace = any(k.arg == "inplace" and isinstance(k.value, ast.Constant) and k.value.value is True for k in s.keywords)
            plain_container = s.func.attr in ("append", "extend", "insert", "remove", "pop", "clear", "sort", "reverse", "update", "add", "discard", "setdefault", "popitem")
            if inplace or (plain_container and isinstance(s.func.value, (ast.Name, ast.Attribute, ast.Subscript)) and not (isinstance(s.func.value, ast.Attribute) and s.func.value.attr in ("str", "cat", "dt"))):
                out.append(s)
    return out


def check_argument_untouched(chk, functions: Iterable[Tuple[str, str]], rule: str = "argument-untouched") -> None:
    repo = chk.repo
    chk.robust.add(rule)
    for module, q in functions:
        if not repo.has_func(module, q):
            continue
        fi = repo.func(module, q)
        args = [a.arg for a in fi.node.args.args if a.arg not in ("self", "cls")]
        if not args:
            continue
        st = argument_stores(fi.node, args[0])
        if st:
            chk.violation(rule, fi.site(st[0]), f"`{norm(st[0])[:70]}` changes the table handed to {q} as `{args[0]}`: the caller's table is not the same after the call (what is written or tested next - the other format, the next model - starts from the changed table)", f"{module}:{q}:argument-store:{norm(st[0])[:40]}")
        else:
            chk.ok(rule, fi.where, f"{q} never stores into the table it is handed (no item / attribute store, no in-place method, no inplace=True)")


def check(chk, pid: str, untouched: Iterable[Tuple[str, str]] = ()) -> None:
    from sa import memoshare

    memoshare.check(chk, pid)
    check_shared_state(chk, pid)
    if untouched:
        check_argument_untouched(chk, untouched)
