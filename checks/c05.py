"""C05 - annotation depends only on internal geometry and identity, not on presentation.

A11 invariance typing of every function on the annotation path (coordinates reach decisions only through
invariants), atoms fetched by name (no positional access that reads name or position), residue identity
compared as a whole and never used in arithmetic, same-residue test by full identity.
"""
from __future__ import annotations

import ast
import copy
import json
import os
from typing import List

from checks import c03
from checks.c03 import K
from sa import astq
from sa.callgraph import CallGraph
from sa.invariance import ATOM, RES, STRUCT, Invariance, L
from sa.model import norm
from sa.report import VERIF

ENTRIES = [("annotator", "extract_base_interactions"), ("annotator", "extract_secondary_structure"), ("parser", "read_3d_structure")]
SCOPE = ("annotator", "tertiary", "parser", "common")
CONSTANT_FIELDS = {"entity_id", "label", "auth", "model"}
# arithmetic on residue numbers: named constructs with their reason (DESIGN.md §4 C05)
NUMBER_ARITH_OK = {
    ("parser", "get_one_letter_name", "label.number - 1"): "mmCIF label_seq_id is by definition the 1-based index into the entity sequence (an index use, not the author numbering)",
}


def _number_truthiness(fi):
    """(node, reason) for truthiness uses of a residue-number valued expression in fi."""
    numberish = set()

    def is_number(e: ast.AST) -> bool:
        if isinstance(e, ast.Attribute) and e.attr == "number":
            return True
        if isinstance(e, ast.Call) and astq.callee_name(e) == "getattr" and len(e.args) >= 2 and isinstance(e.args[1], ast.Constant) and e.args[1].value == "number":
            return True
        if isinstance(e, ast.Name) and e.id in numberish:
            return True
        if isinstance(e, ast.IfExp):
            return is_number(e.body) or is_number(e.orelse)
        return False

    for _ in range(3):
        for s in ast.walk(fi.node):
            if isinstance(s, ast.Assign) and len(s.targets) == 1 and isinstance(s.targets[0], ast.Name) and is_number(s.value):
                numberish.add(s.targets[0].id)
    out = []
    for n in ast.walk(fi.node):
        if isinstance(n, ast.BoolOp) and isinstance(n.op, ast.Or) and any(is_number(v) for v in n.values[:-1]):
            out.append((n, "`or` falls through on the number 0"))
        elif isinstance(n, (ast.If, ast.IfExp, ast.While)) and (is_number(n.test) or (isinstance(n.test, ast.UnaryOp) and isinstance(n.test.op, ast.Not) and is_number(n.test.operand))):
            out.append((n.test, "truthiness test of a residue number"))
    return out


def gap_count_use(fn: ast.AST, root: ast.BinOp, par: dict, fm) -> "dict | None":
    """Is the arithmetic expression `root` the number of gap placeholders between two consecutive residues?
    The role, not the form: the core is `a.number - b.number - 1`; (b, a) are consecutive members of one sequence
    (S[i-1] / S[i], zip(S, S[1:]), enumerate index j and S[j-1]); on the path both are known to be of one chain; the value is
    used only as a count (range(), repetition of a constant string / list, comparison); reached only under self.find_gaps.
    Returns None when the core has another form, else a description with the list of unmet conditions."""
    from sa.flow import facts

    core = root
    use = None
    if isinstance(root.op, ast.Mult):
        for seq, cnt in ((root.left, root.right), (root.right, root.left)):
            if (isinstance(seq, ast.Constant) and isinstance(seq.value, str)) or (isinstance(seq, (ast.List, ast.Tuple)) and all(isinstance(e, ast.Constant) for e in seq.elts)):
                core, use = cnt, f"repetition of {norm(seq)}"
    b = astq.match(core, "A_.number - B_.number - 1")
    if not b or not isinstance(b["A_"], ast.Name) or not isinstance(b["B_"], ast.Name) or not isinstance(core, ast.BinOp):
        return None
    a_, b_ = b["A_"].id, b["B_"].id
    problems = []
    if use is None:
        p = par.get(id(root))
        if isinstance(p, ast.Call) and isinstance(p.func, ast.Name) and p.func.id == "range" and p.args == [root]:
            use = "range()"
        elif isinstance(p, ast.Compare):
            use = "comparison"
        elif isinstance(p, (ast.Assign, ast.AnnAssign)) and isinstance(p.targets[0] if isinstance(p, ast.Assign) else p.target, ast.Name) and len(astq.assignments(fn, (p.targets[0] if isinstance(p, ast.Assign) else p.target).id)) == 1:
            # kept in a local: every use of that local must be a count use
            nm = (p.targets[0] if isinstance(p, ast.Assign) else p.target).id
            uses = [x for x in ast.walk(fn) if isinstance(x, ast.Name) and x.id == nm and isinstance(x.ctx, ast.Load)]
            kinds = set()
            for u in uses:
                q = par.get(id(u))
                if isinstance(q, ast.Call) and isinstance(q.func, ast.Name) and q.func.id == "range" and q.args == [u]:
                    kinds.add("range()")
                elif isinstance(q, ast.Compare):
                    kinds.add("comparison")
                elif isinstance(q, ast.BinOp) and isinstance(q.op, ast.Mult) and any((isinstance(o, ast.Constant) and isinstance(o.value, str)) or (isinstance(o, (ast.List, ast.Tuple)) and all(isinstance(e, ast.Constant) for e in o.elts)) for o in (q.left, q.right)):
                    kinds.add("repetition")
                elif isinstance(q, (ast.JoinedStr, ast.FormattedValue)) or (isinstance(q, ast.Call) and norm(q.func).startswith(("logging.", "logger."))):
                    kinds.add("message")
                else:
                    kinds.add("?")
            if uses and "?" not in kinds:
                use = f"local `{nm}`: " + ", ".join(sorted(kinds))
            else:
                problems.append(f"its value is kept in `{nm}`, which is used other than as a count")
        else:
            problems.append("its value is used other than as a count (range, repetition of a constant sequence, comparison)")
    # consecutive members of one sequence
    pair = None
    seq_name = None
    # by value: whatever expression pairs them up (zip(S, S[1:]), zip([None] + S, S), zip(S[:-1], S[1:]), pairwise(S) ...) is
    # evaluated on a list of four distinct members: every (b, a) it yields must be (S[k-1], S[k]) (or (None, S[0]))
    for n in astq.walk_no_nested(fn):
        if isinstance(n, (ast.For, ast.comprehension)) and isinstance(n.target, ast.Tuple) and [e.id if isinstance(e, ast.Name) else None for e in n.target.elts] == [b_, a_]:
            free = sorted({x.id for x in ast.walk(n.iter) if isinstance(x, ast.Name)} - {"zip", "list", "tuple", "itertools", "pairwise", "len", "range", "None"})
            if len(free) != 1:
                continue
            S = ["s0", "s1", "s2", "s3"]
            try:
                from sa.consteval import Folder

                env = {free[0]: list(S)}
                if "pairwise" in norm(n.iter):
                    env["pairwise"] = lambda xs: list(zip(list(xs), list(xs)[1:]))
                got = list(Folder(None, "tertiary", env).fold(ast.fix_missing_locations(copy.deepcopy(n.iter)))) if "itertools" not in norm(n.iter) else None
            except Exception:
                got = None
            if got and all(isinstance(g, tuple) and len(g) == 2 for g in got) and all((g[1] in S and ((S.index(g[1]) > 0 and g[0] == S[S.index(g[1]) - 1]) or (S.index(g[1]) == 0 and g[0] is None))) for g in got) and [g[1] for g in got if g[0] is not None] == S[1:]:
                pair = f"{norm(n.iter)}"
                seq_name = free[0]
    for n in astq.walk_no_nested(fn):
        if pair is not None:
            break
        if isinstance(n, (ast.For, ast.comprehension)) and isinstance(n.target, ast.Tuple):
            names = [e.id if isinstance(e, ast.Name) else None for e in n.target.elts]
            m = astq.match(n.iter, "zip(S_, S_[1:])")
            if m and names == [b_, a_]:
                pair = f"zip({norm(m['S_'])}, {norm(m['S_'])}[1:])"
            m = astq.match(n.iter, "enumerate(S_)")
            if m and len(names) == 2 and names[1] == a_ and names[0]:
                d = [v for s2, v in astq.assignments(fn, b_) if v is not None]
                if len(d) == 1 and norm(d[0]) == f"{norm(m['S_'])}[{names[0]} - 1]":
                    pair = f"{norm(m['S_'])}[{names[0]} - 1], {norm(m['S_'])}[{names[0]}]"
    if pair is None:
        da = [v for s2, v in astq.assignments(fn, a_) if v is not None]
        db = [v for s2, v in astq.assignments(fn, b_) if v is not None]
        if len(da) == 1 and len(db) == 1:
            ma, mb = astq.match(da[0], "S_[I_]"), astq.match(db[0], "S_[I_ - 1]")
            if ma and mb and norm(ma["S_"]) == norm(mb["S_"]) and norm(ma["I_"]) == norm(mb["I_"]):
                pair = f"{norm(mb['S_'])}[{norm(mb['I_'])} - 1], {norm(ma['S_'])}[{norm(ma['I_'])}]"
    if pair is None:
        # running predecessor: `for a in S: ... b = a` on every way to the next iteration (b is bound nowhere else but to a constant before)
        for n in astq.walk_no_nested(fn):
            if isinstance(n, ast.For) and isinstance(n.target, ast.Name) and n.target.id == a_ and not n.orelse:
                binds = [(s2, v) for s2, v in astq.assignments(fn, b_)]
                inside = [(s2, v) for s2, v in binds if any(s2 is x for x in ast.walk(n))]
                outside = [(s2, v) for s2, v in binds if not any(s2 is x for x in ast.walk(n))]
                if not inside or any(v is None or norm(v) != a_ for s2, v in inside) or any(v is None or not isinstance(v, ast.Constant) for s2, v in outside):
                    continue

                def ends_with_update(block) -> bool:
                    """every way out of the block towards the next iteration passes `b = a` as its last action"""
                    if not block:
                        return False
                    last = block[-1]
                    if isinstance(last, ast.Continue):
                        return len(block) > 1 and isinstance(block[-2], ast.Assign) and norm(block[-2]) == f"{b_} = {a_}"
                    return isinstance(last, ast.Assign) and norm(last) == f"{b_} = {a_}"

                ok = ends_with_update(n.body)
                for x in ast.walk(n):
                    if isinstance(x, ast.Continue):
                        blk = next((getattr(y, f) for y in ast.walk(n) for f in ("body", "orelse") if isinstance(getattr(y, f, None), list) and any(z is x for z in getattr(y, f))), None)
                        ok = ok and blk is not None and ends_with_update(blk)
                    elif isinstance(x, ast.Break):
                        pass
                if ok:
                    pair = f"the member of {norm(n.iter)} met in the previous iteration, and the current one"
    if pair is None:
        problems.append(f"`{a_}` and `{b_}` are not shown to be consecutive members of one sequence")
    st = fm.stmt_of(root)
    fs = facts(fm.of(st).guards) if st is not None else []
    if not any(norm(g.test) == "self.find_gaps" and g.polarity for g in fs):
        problems.insert(0, "it is not guarded by self.find_gaps")
    same = any((norm(g.test) in (f"{a_}.chain != {b_}.chain", f"{b_}.chain != {a_}.chain") and not g.polarity) or (norm(g.test) in (f"{a_}.chain == {b_}.chain", f"{b_}.chain == {a_}.chain") and g.polarity) for g in fs)
    if not same and seq_name is not None:
        # the sequence is one group of itertools.groupby(..., key=<the chain>): all of its members are of one chain
        d = [v for s2, v in astq.assignments(fn, seq_name) if v is not None]
        g = d[0] if len(d) == 1 else None
        if isinstance(g, ast.Call) and isinstance(g.func, ast.Name) and g.func.id in ("list", "tuple") and len(g.args) == 1:
            g = g.args[0]
        gname = g.id if isinstance(g, ast.Name) else seq_name
        for n in astq.walk_no_nested(fn):
            if isinstance(n, (ast.For, ast.comprehension)) and isinstance(n.target, ast.Tuple) and len(n.target.elts) == 2 and isinstance(n.target.elts[1], ast.Name) and n.target.elts[1].id == gname:
                m = astq.match(n.iter, "itertools.groupby(S_, key=K_)") or astq.match(n.iter, "groupby(S_, key=K_)")
                if m and isinstance(m["K_"], ast.Lambda) and len(m["K_"].args.args) == 1 and norm(m["K_"].body) == f"{m['K_'].args.args[0].arg}.chain":
                    same = True
                elif m and norm(m["K_"]) in ("operator.attrgetter('chain')", "attrgetter('chain')"):
                    same = True
    if not same:
        problems.append("the two residues are not known to be of one chain at that point")
    return {"core": norm(core), "pair": pair, "use": use, "problems": problems, "seq": seq_name}


def same_chain_groups_from_caller(repo, fi, seq: str) -> bool:
    """`seq` is a parameter of a helper: every caller in the same class / module hands it one member of a list of groups G that it
    built by run splitting - `G[-1].append(r)` happens only on a path that found `r.chain == G[-1][-1].chain`, a new group starts as
    the display `[r]` - so all members of a group are of one chain.  Read on the symbolic paths of the caller's loops."""
    from sa import symexec as SX

    params = [a.arg for a in fi.node.args.args]
    if seq not in params:
        return False
    pos = params.index(seq) - (1 if params and params[0] in ("self", "cls") else 0)
    hname = fi.node.name
    callers = [g for q, g in fi.module.funcs.items() if g.node is not fi.node and (fi.cls is None or g.cls is fi.cls)]
    n_calls = 0
    for g in callers:
        for c in ast.walk(g.node):
            if not (isinstance(c, ast.Call) and ((isinstance(c.func, ast.Attribute) and c.func.attr == hname) or (isinstance(c.func, ast.Name) and c.func.id == hname))):
                continue
            n_calls += 1
            if pos >= len(c.args) or not isinstance(c.args[pos], ast.Name):
                return False
            a = c.args[pos].id
            G = None
            for x in ast.walk(g.node):
                if isinstance(x, (ast.For, ast.comprehension)) and isinstance(x.target, ast.Name) and x.target.id == a and isinstance(x.iter, ast.Name):
                    G = x.iter.id
            if G is None:
                return False
            ok_runs = False
            for loop in [x for x in g.node.body if isinstance(x, ast.For)]:
                try:
                    paths = SX.run(loop.body, nonnull={G})
                except SX.TooManyPaths:
                    return False
                for p in paths:
                    for e in p.effects:
                        if e.kind != "call":
                            continue
                        if e.recv == f"{G}[-1]" and e.method == "append" and e.args:
                            r = norm(e.args[0])
                            keys = {f"{r}.chain == {G}[-1][-1].chain", f"{G}[-1][-1].chain == {r}.chain"}
                            if not any(k in keys and v for k, v, _ in p.conds):
                                return False
                            ok_runs = True
                        elif e.recv == G and e.method == "append" and e.args:
                            if not (isinstance(e.args[0], ast.List) and len(e.args[0].elts) == 1):
                                return False
                        elif e.recv.split("[")[0] == G and e.method in SX.MUTATORS:
                            return False
            if not ok_runs:
                return False
    return n_calls > 0


def _only_constant_fields_read(repo, fi, parent, node) -> bool:
    """The positionally picked atom is handed to a function of the package that reads nothing of it but residue-constant fields
    (`residue_key(residue_atoms[0])` with `return (atom.label, atom.auth, atom.model)`)."""
    if not (isinstance(parent, ast.Call) and isinstance(parent.func, ast.Name) and any(a is node for a in parent.args) and not parent.keywords):
        return False
    try:
        hm, hn = repo.const_home(fi.module.name, parent.func.id)
        callee = repo.modules[hm].funcs.get(hn)
    except Exception:
        return False
    if callee is None or callee.cls is not None:
        return False
    params = [a.arg for a in callee.node.args.args]
    k = [i for i, a in enumerate(parent.args) if a is node][0]
    if k >= len(params):
        return False
    par = astq.parents(callee.node)
    uses = [x for x in ast.walk(callee.node) if isinstance(x, ast.Name) and x.id == params[k]]
    if any(isinstance(x.ctx, ast.Store) for x in uses):
        return False
    return bool(uses) and all(isinstance(par.get(id(x)), ast.Attribute) and par[id(x)].attr in CONSTANT_FIELDS for x in uses)


ORDER_KEEPING_FUNCS: set = set()  # names of repository functions that return the atoms of a residue in file order (filled per run)


def derived_atom_lists(fn: ast.AST, direct: list = None) -> dict:
    """Locals that hold the atoms of one residue in file order: bound to `<x>.atoms`, or to a comprehension / filter / list /
    tuple / slice / reversed of such a sequence whose members are still the atoms (sorting by a key makes a position canonical
    and ends the derivation)."""
    derived: dict = {}

    def is_src(e: ast.AST) -> bool:
        if isinstance(e, ast.Attribute) and e.attr == "atoms":
            return True
        if isinstance(e, ast.Name) and (e.id in derived or e.id == "residue_atoms"):
            return True
        if (
            isinstance(e, (ast.ListComp, ast.GeneratorExp))
            and len(e.generators) == 1
            and isinstance(e.generators[0].target, ast.Name)
            and (
                (isinstance(e.elt, ast.Name) and e.elt.id == e.generators[0].target.id)
                # one value per atom (its coordinates, its name ...): still one member per atom, in file order
                or (isinstance(e.elt, ast.Attribute) and isinstance(e.elt.value, ast.Name) and e.elt.value.id == e.generators[0].target.id and e.elt.attr not in CONSTANT_FIELDS)
            )
        ):
            t = e.generators[0].target.id
            # a filter that pins one name (`atom.name == X`) leaves the atoms of that name: taking the first is find_atom's own rule
            if any(astq.match(c, f"{t}.name == X_") is not None or astq.match(c, f"X_ == {t}.name") is not None for c in e.generators[0].ifs):
                return False
            return is_src(e.generators[0].iter)
        if isinstance(e, ast.Call) and isinstance(e.func, ast.Name) and e.func.id in ("list", "tuple", "filter", "reversed") and e.args and not e.keywords:
            return is_src(e.args[-1])
        if isinstance(e, ast.Call) and astq.callee_name(e) in ORDER_KEEPING_FUNCS:
            return True  # a function of the package that hands back atoms in the order they are listed
        if isinstance(e, ast.IfExp):
            return is_src(e.body) or is_src(e.orelse)
        if isinstance(e, ast.Subscript) and isinstance(e.slice, ast.Slice):
            return is_src(e.value)
        return False

    for _ in range(4):
        n0 = len(derived)
        for n in astq.walk_no_nested(fn):
            if isinstance(n, (ast.Assign, ast.AnnAssign)) and n.value is not None:
                t = n.targets[0] if isinstance(n, ast.Assign) else n.target
                if isinstance(t, ast.Name) and t.id not in derived and t.id != "residue_atoms" and is_src(n.value) and not (isinstance(n.value, ast.Attribute)):
                    derived[t.id] = n.value
        if len(derived) == n0:
            break
    # a name that is also bound to something else is not reliably such a list
    for name in list(derived):
        others = [v for s, v in astq.assignments(fn, name) if v is not derived[name] and not (v is not None and is_src(v))]
        if others:
            del derived[name]
    if direct is not None:
        # `a, b, c = <such a sequence>` without a name in between
        for n in ast.walk(fn):
            if isinstance(n, ast.Assign) and len(n.targets) == 1 and isinstance(n.targets[0], (ast.Tuple, ast.List)) and not isinstance(n.value, ast.Name) and not any(isinstance(t, ast.Starred) for t in n.targets[0].elts) and is_src(n.value):
                direct.append(n)
    return derived


def run(chk) -> None:
    repo = chk.repo
    chk.robust |= {"invariance-typing", "invariance-kinds", "positional-atom", "identity-arithmetic", "identity-order", "identity-truthiness", "memo-key", "same-residue-identity", "pdb-record-filter", "contact-visit-order"}
    chk.explanation = (
        "Rigid-motion invariance type system (kinds Point, Vector, components, Invariant, Identity) applied to every expression of the functions on the annotation path, "
        "entered from find_pairs, find_stackings, is_connected, is_nucleotide and filter_clashing_atoms and followed into repo callees with the actual argument kinds: any comparison, "
        "sort, min/max, arithmetic or unknown call that consumes a coordinate-dependent value outside the typing rules is reported. Plus: positional access to atom sequences only "
        "for residue-constant fields; no arithmetic on residue numbers outside three named index/gap uses; same-residue test by full label/auth identity."
    )
    chk.trusted = ["CPython ast", "numpy cross/dot/norm/mean and scipy KDTree are rotation/translation equivariant as modelled", "proper rotations only (cross product)"]
    chk.assumptions = [
        "decision quantities are not within 1e-6 of a threshold (float round-off under motion is not decided)",
        "find_gaps=False for the renaming clause",
    ]
    inv = Invariance(repo)
    roots = [
        ("annotator", "find_pairs", None),
        ("annotator", "find_stackings", None),
        ("tertiary", "Residue3D.is_connected", {"next_residue_candidate": RES}),
        ("tertiary", "Residue3D.is_nucleotide", None),
        ("tertiary", "Residue3D.base_normal_vector", None),
        ("parser", "filter_clashing_atoms", {"atoms": L(ATOM)}),
    ]
    for m, q, p in roots:
        fi = repo.func(m, q)
        inv.analyse(fi, p)
    for (m, q, _), ret in inv.analysed.items():
        chk.note_function(repo.func(m, q))
    seen = set()
    for i in inv.issues:
        key = f"{i.fi.module.name}:{i.fi.qualname}:{norm(i.node)[:70]}"
        if key in seen:
            continue
        seen.add(key)
        chk.violation("invariance-typing", i.fi.site(i.node), f"`{norm(i.node)[:80]}`: {i.msg}", key=key)
    chk.ok("invariance-typing", "annotation path", f"{inv.n_typed} expression nodes typed in {len(inv.analysed)} function instances; coordinates reach decisions only through invariants")
    if inv.n_typed < 1500:
        chk.error("invariance-typing", "-", f"only {inv.n_typed} expression nodes typed (about 2800 on the pinned tree): the analysis lost the annotation path")
    # expected kinds of the geometric primitives
    want = {("tertiary", "Residue3D.base_normal_vector"): "VEC", ("annotator", "angle_between_vectors"): "INV", ("tertiary", "calculate_torsion_angle_coords"): "INV", ("tertiary", "torsion_angle"): "INV"}
    for (m, q, _), ret in inv.analysed.items():
        if (m, q) in want:
            fi = repo.func(m, q)
            chk.expect(ret == want[(m, q)], "invariance-kinds", fi.where, f"{q} returns a value of kind {ret}", f"{q} returns kind {ret}, expected {want[(m, q)]}: its result is not an invariant/vector of the inputs", K(fi, "return-kind"), expected=want[(m, q)], found=str(ret))
    got = {(m, q) for (m, q, _) in inv.analysed}
    for k in want:
        if k not in got:
            chk.error("invariance-kinds", "-", f"{k[0]}.{k[1]} was not reached by the typing pass")

    # ---- positional atom access ------------------------------------------------------------------------
    cg = CallGraph(repo)
    reach = {k for k in cg.reachable(ENTRIES) if k[0] in SCOPE}
    n_pos = 0
    for m, q in sorted(reach):
        fi = repo.modules[m].funcs[q]
        chk.note_function(fi)
        par = astq.parents(fi.node)
        for n in ast.walk(fi.node):
            if isinstance(n, ast.Subscript) and not isinstance(n.slice, ast.Slice):
                base = norm(n.value)
                is_atoms = base.endswith(".atoms") or base == "residue_atoms"  # atoms of ONE residue (not the file-order list)
                idx_const = isinstance(n.slice, ast.Constant) or (isinstance(n.slice, ast.UnaryOp) and isinstance(n.slice.operand, ast.Constant))
                if is_atoms and idx_const:
                    n_pos += 1
                    p = par.get(id(n))
                    ok = (isinstance(p, ast.Attribute) and p.attr in CONSTANT_FIELDS) or _only_constant_fields_read(repo, fi, p, n)
                    chk.expect(
                        ok,
                        "positional-atom",
                        fi.site(n),
                        f"`{norm(p) if p is not None else norm(n)}` reads a field that is the same for every atom of the residue",
                        f"`{norm(p) if isinstance(p, ast.Attribute) else norm(n)}` picks an atom by its position in the residue: the result changes when atoms are listed in another order",
                        K(fi, f"positional:{norm(n)}"),
                    )
    # lists derived from the atoms of one residue (comprehension, filter, list/tuple, slice, reversed - anything that keeps the file order):
    # picking a member by its position in such a list is picking an atom by its position in the file
    n_der = 0
    # functions that return such a list: their callers hold a list in file order as well
    ORDER_KEEPING_FUNCS.clear()
    for _ in range(2):
        for mname in SCOPE:
            for q, g in repo.modules[mname].funcs.items():
                d = derived_atom_lists(g.node)
                rets = [r.value for r in astq.walk_no_nested(g.node) if isinstance(r, ast.Return) and r.value is not None and not (isinstance(r.value, ast.Constant) and r.value.value is None)]
                if rets and all((isinstance(r, ast.Name) and r.id in d) or (isinstance(r, ast.IfExp) and any(isinstance(x, ast.Name) and x.id in d for x in (r.body, r.orelse))) for r in rets):
                    ORDER_KEEPING_FUNCS.add(g.node.name)
    for m, q in sorted(reach):
        fi = repo.modules[m].funcs[q]
        direct: list = []
        derived = derived_atom_lists(fi.node, direct)
        for n in direct:
            n_der += 1
            chk.violation(
                "positional-atom",
                fi.site(n),
                f"`{norm(n)[:110]}` gives each name the atom at its position in a sequence that keeps the order in which the atoms of the residue are listed: which atom a name gets depends on the order of the atoms in the file",
                K(fi, f"positional-unpack:{norm(n.targets[0])}"),
            )
        if not derived:
            continue
        par = astq.parents(fi.node)
        # unpacking gives each name the member at its position
        for n in ast.walk(fi.node):
            if isinstance(n, ast.Assign) and len(n.targets) == 1 and isinstance(n.targets[0], (ast.Tuple, ast.List)) and isinstance(n.value, ast.Name) and n.value.id in derived and not any(isinstance(t, ast.Starred) for t in n.targets[0].elts):
                n_der += 1
                chk.violation(
                    "positional-atom",
                    fi.site(n),
                    f"`{norm(n)[:70]}` gives each name the atom at its position in `{n.value.id}`, a sequence that keeps the order in which the atoms of the residue are listed (`{n.value.id} = {norm(derived[n.value.id])[:70]}`): which atom is which changes when the atoms are listed in another order",
                    K(fi, f"positional-unpack:{norm(n.targets[0])}"),
                )
        for n in ast.walk(fi.node):
            if isinstance(n, ast.Subscript) and not isinstance(n.slice, ast.Slice) and isinstance(n.value, ast.Name) and n.value.id in derived:
                free = {x.id for x in ast.walk(n.slice) if isinstance(x, ast.Name)} - {n.value.id, "len"}
                if free:
                    continue  # indexed by something else (a loop counter, a name look-up): not a fixed position
                n_der += 1
                p = par.get(id(n))
                ok = isinstance(p, ast.Attribute) and p.attr in CONSTANT_FIELDS
                chk.expect(
                    ok,
                    "positional-atom",
                    fi.site(n),
                    f"`{norm(p) if p is not None else norm(n)}` reads a field that is the same for every atom of the residue",
                    f"`{norm(n)}` picks an atom by its position in `{n.value.id}`, a list that keeps the order in which the atoms of the residue are listed (`{n.value.id} = {norm(derived[n.value.id])[:70]}`): the result changes when atoms are listed in another order",
                    K(fi, f"positional:{norm(n)}"),
                )
    chk.ok("positional-atom", "annotation path", f"{len(reach)} reachable functions scanned, {n_pos} positional accesses to atom sequences, {n_der} to lists derived from them")

    # ---- residue numbers never in arithmetic -------------------------------------------------------------
    from sa.flow import FlowMap, facts

    n_arith = 0
    for m, q in sorted(reach):
        fi = repo.modules[m].funcs[q]
        par = None
        fm = None
        for n in ast.walk(fi.node):
            if isinstance(n, ast.BinOp) and isinstance(n.op, (ast.Add, ast.Sub, ast.Mult, ast.Div, ast.FloorDiv, ast.Mod)):
                uses = [x for x in ast.walk(n) if isinstance(x, ast.Attribute) and x.attr in ("number", "icode") and not (isinstance(x.value, ast.Name) and x.value.id in ("stem", "strand"))]
                par = par or astq.parents(fi.node)
                if uses and not isinstance(par.get(id(n)), ast.BinOp):
                    n_arith += 1
                    k = (m, q, norm(n))
                    if k in NUMBER_ARITH_OK:
                        chk.ok("identity-arithmetic", fi.site(n), f"`{norm(n)}`: named exception - {NUMBER_ARITH_OK[k]}")
                        continue
                    fm = fm or FlowMap(fi.node)
                    gap = gap_count_use(fi.node, n, par, fm)
                    if gap is not None and gap["problems"] == ["the two residues are not known to be of one chain at that point"] and gap.get("seq") and same_chain_groups_from_caller(repo, fi, gap["seq"]):
                        gap["problems"] = []
                        gap["pair"] = f"{gap['pair']}; `{gap['seq']}` is one of the caller's runs of residues of one chain"
                    if gap is None:
                        chk.violation("identity-arithmetic", fi.site(n), f"`{norm(n)}` does arithmetic on a residue number: the annotation changes under an order-preserving renumbering", K(fi, f"arith:{norm(n)}"))
                    elif gap["problems"]:
                        if "find_gaps" in gap["problems"][0]:
                            chk.violation("identity-arithmetic", fi.site(n), f"`{gap['core']}` is no longer guarded by self.find_gaps: residue numbers enter the default annotation path", K(fi, "gap-unguarded"))
                        else:
                            chk.violation("identity-arithmetic", fi.site(n), f"`{norm(n)}` looks like the gap placeholder count but {gap['problems'][0]}: it does arithmetic on a residue number", K(fi, f"arith:{norm(n)}"))
                    else:
                        chk.ok("identity-arithmetic", fi.site(n), f"`{gap['core']}`: number of gap placeholders between two consecutive residues ({gap['pair']}) of one chain, used only as a count ({gap['use']}), reached only when find_gaps is set (outside the statement's default path)")
                        chk.ok("identity-arithmetic", fi.site(n), "the gap count is reached only when find_gaps is set")
    chk.ok("identity-arithmetic", "annotation path", f"{n_arith} arithmetic uses of residue numbers, all named or recognised by their role")
    # ---- same-residue test by full identity (shared with C03/C11) ------------------------------------------
    c03.check_find_pairs(chk, parts=("contacts",))
    # ordering of residues compares (model, chain, number, icode) only
    for m, cls in (("common", "Residue"), ("tertiary", "Residue3D")):
        fi = repo.func(m, f"{cls}.__lt__")
        chk.note_function(fi)
        rets = [r for r in fi.node.body if isinstance(r, ast.Return)]
        fields = [x.attr for x in ast.walk(rets[0]) if isinstance(x, ast.Attribute)] if rets else []
        ok = len(rets) == 1 and isinstance(rets[0].value, ast.Compare) and set(fields) <= {"model", "chain", "number", "icode"} and {"chain", "number", "icode"} <= set(fields)
        chk.expect(ok, "identity-order", fi.where, f"{cls} order compares (chain, number, icode) (and model) lexicographically", f"{cls}.__lt__ does not compare exactly (model,) chain, number, icode", K(fi, "lt"), found=sorted(set(fields)))
    # ---- a residue is identified by chain, number AND insertion code: a key made of some of them merges residues -------------
    chk.robust |= {"identity-partial-key"}
    n_keys = 0
    for m, q in sorted(reach):
        fi = repo.modules[m].funcs[q]
        for tup in [x for x in ast.walk(fi.node) if isinstance(x, ast.Tuple) and isinstance(getattr(x, "ctx", None), ast.Load)]:
            groups: dict = {}
            for e in tup.elts:
                v = e.values[0] if isinstance(e, ast.BoolOp) and isinstance(e.op, ast.Or) else e
                if isinstance(v, ast.Attribute) and v.attr in ("chain", "number", "icode", "model", "name") and not isinstance(v.value, ast.Constant):
                    groups.setdefault(norm(v.value), set()).add(v.attr)
            for base, fields in sorted(groups.items()):
                if not {"chain", "number"} <= fields:
                    continue
                n_keys += 1
                whole = any(norm(e) == base for e in tup.elts)
                chk.expect(
                    "icode" in fields or whole,
                    "identity-partial-key",
                    fi.site(tup),
                    f"`{norm(tup)[:70]}` names `{base}` by chain, number and insertion code",
                    f"`{norm(tup)[:90]}` identifies `{base}` by {sorted(fields)} without the insertion code: two residues of one chain that share the number (27 and 27A) get the same key - as a dictionary key or set member they collapse into one entry (the later one wins), as a sort key they tie",
                    K(fi, f"partial-key:{base}"),
                    expected=["chain", "number", "icode"],
                    found=sorted(fields),
                )
    chk.ok("identity-partial-key", "annotation path", f"{n_keys} tuples built from the chain and number of one residue, each with its insertion code")
    from checks import c11e

    c11e.check_order_keys(chk, rule="identity-order")
    # ---- residue number / insertion code are optional values whose 0 / "" are legitimate: presence is tested with `is None`
    for m, cls in (("common", "Residue"), ("tertiary", "Residue3D"), ("common", "ResidueAuth"), ("common", "ResidueLabel")):
        for q, fi in sorted(repo.modules[m].funcs.items()):
            if fi.cls is None or fi.cls.name != cls:
                continue
            chk.note_function(fi)
            for n, why in _number_truthiness(fi):
                chk.violation("identity-truthiness", fi.site(n), f"`{norm(n)[:90]}`: {why}: a residue numbered 0 is treated as if it had no number and silently takes another identity", K(fi, f"truthy:{norm(n)[:50]}"))
    chk.ok("identity-truthiness", "common.Residue / tertiary.Residue3D", "no truthiness test (`x or y`, `if x`) on a residue number: presence is tested with `is None`")
    # ---- memoisation keyed by residue identity must not cache geometry ---------------------------------------
    n_memo = 0
    for m in ("tertiary", "annotator", "parser"):
        for q, fi in sorted(repo.modules[m].funcs.items()):
            decs = [d for d in fi.decorators if d.split("(")[0].split(".")[-1] in ("cache", "lru_cache")]
            if not decs or fi.cls is None:
                continue
            n_memo += 1
            try:
                hfi = repo.func(m, f"{fi.cls.name}.__hash__")
                hfields = {x.attr for x in ast.walk(hfi.node) if isinstance(x, ast.Attribute) and isinstance(x.value, ast.Name) and x.value.id == "self"}
            except Exception:
                hfields = None
            geometric = any(isinstance(x, ast.Attribute) and x.attr in ("coordinates", "x", "y", "z", "atoms") for x in ast.walk(fi.node)) or any(isinstance(x, ast.Call) and astq.callee_name(x) == "find_atom" for x in ast.walk(fi.node))
            if geometric and hfields is not None and not ({"atoms", "coordinates"} & hfields):
                chk.violation("memo-key", fi.where, f"`@{decs[0]}` memoises {q} per hash/eq of self = {sorted(hfields)}, which ignores the atoms: another structure's residue with the same identity but other coordinates gets the cached geometry of the first", K(fi, "memo-key"))
            elif geometric and hfields is None:
                chk.error("memo-key", fi.where, f"`@{decs[0]}` on {q}: hash of {fi.cls.name} not found")
    chk.ok("memo-key", "tertiary / annotator / parser", f"{n_memo} process-wide memoised methods; geometry is cached per instance only (cached_property)")
    # PDB vs mmCIF siblings: C15's reader agreement
    try:
        from checks import c15

        c15.check_reader_agreement(chk)
    except ImportError:
        pass
    check_visit_order(chk)
    try:
        from checks import c05e

        chk.robust |= {"format-same-atoms"}
        c05e.check_format_agreement(chk)
    except ImportError:
        pass
    chk.floor("positional-atom", 3)
    chk.floor("identity-arithmetic", 3)


_assigned_outside: dict = {}


def _note_outside(fn: ast.AST, loop: ast.AST) -> None:
    inside = {id(n) for n in ast.walk(loop)}
    names = set()
    for n in ast.walk(fn):
        if isinstance(n, ast.Name) and isinstance(n.ctx, ast.Store) and id(n) not in inside:
            names.add(n.id)
    _assigned_outside[id(loop)] = names


def _fcfs_reads(loop: ast.AST) -> dict:
    """Why the iterations of a loop are not independent of each other: {name: the construct that makes an earlier iteration decide a
    later one}.  A guard (if / conditional expression / comprehension filter / while) that reads a container the same loop fills;
    `X.setdefault(k, v)` (the first value stays); a `break` of the loop itself (what was visited before it counts, the rest does not);
    a scalar carried from one iteration to the next and read by a guard before it is assigned (running best: ties go to the first)."""
    filled = set()
    for x in ast.walk(loop):
        if isinstance(x, ast.Call) and isinstance(x.func, ast.Attribute) and x.func.attr in ("add", "append", "update", "extend", "setdefault", "insert") and isinstance(x.func.value, ast.Name):
            filled.add(x.func.value.id)
        elif isinstance(x, (ast.Assign, ast.AugAssign)):
            for t in x.targets if isinstance(x, ast.Assign) else [x.target]:
                if isinstance(t, ast.Subscript) and isinstance(t.value, ast.Name):
                    filled.add(t.value.id)
    read = {}
    for x in ast.walk(loop):
        tests = []
        if isinstance(x, (ast.If, ast.IfExp, ast.While)):
            tests.append(x.test)
        elif isinstance(x, ast.comprehension):
            tests.extend(x.ifs)
        for t in tests:
            for c in ast.walk(t):
                if isinstance(c, ast.Compare) and any(isinstance(o, (ast.In, ast.NotIn)) for o in c.ops):
                    for comp in c.comparators:
                        if isinstance(comp, ast.Name) and comp.id in filled:
                            read[comp.id] = t
                elif isinstance(c, ast.Subscript) and isinstance(c.value, ast.Name) and c.value.id in filled and isinstance(c.ctx, ast.Load):
                    read[c.value.id] = t
                elif isinstance(c, ast.Call) and isinstance(c.func, ast.Attribute) and c.func.attr in ("get", "count", "index", "isdisjoint", "issubset", "issuperset", "intersection") and isinstance(c.func.value, ast.Name) and c.func.value.id in filled:
                    read[c.func.value.id] = t
                elif isinstance(c, ast.Call) and isinstance(c.func, ast.Name) and c.func.id == "len" and c.args and isinstance(c.args[0], ast.Name) and c.args[0].id in filled:
                    read[c.args[0].id] = t
    for x in ast.walk(loop):
        if isinstance(x, ast.Call) and isinstance(x.func, ast.Attribute) and x.func.attr == "setdefault" and isinstance(x.func.value, ast.Name) and len(x.args) == 2:
            read.setdefault(x.func.value.id, x)
    # break of this very loop
    def own_breaks(block) -> list:
        out = []
        for st in block:
            if isinstance(st, ast.Break):
                out.append(st)
            elif isinstance(st, (ast.For, ast.While, ast.AsyncFor, ast.FunctionDef)):
                continue
            else:
                for f in ("body", "orelse", "finalbody", "handlers"):
                    b2 = getattr(st, f, None)
                    if isinstance(b2, list):
                        out += own_breaks([h for h in b2 if isinstance(h, ast.stmt)] + [s2 for h in b2 if isinstance(h, ast.ExceptHandler) for s2 in h.body])
        return out

    if isinstance(loop, (ast.For, ast.While)):
        for br in own_breaks(loop.body):
            read.setdefault("<break>", br)
        # loop-carried scalar read by a guard before its assignment in the iteration
        first: dict = {}
        order = []
        for st in loop.body:
            for n in ast.walk(st):
                if isinstance(n, ast.Name):
                    order.append(n)
        stored = {n.id for n in order if isinstance(n.ctx, ast.Store)} - {t.id for t in ast.walk(loop.target) if isinstance(t, ast.Name)} if isinstance(loop, ast.For) else set()
        tests_names = {}
        for x in ast.walk(loop):
            if isinstance(x, (ast.If, ast.IfExp)):
                for n in ast.walk(x.test):
                    if isinstance(n, ast.Name) and isinstance(n.ctx, ast.Load):
                        tests_names.setdefault(n.id, x.test)
        outside = set()  # a value carried from one iteration to the next starts from an assignment before the loop
        return_read = read
        for name in sorted(stored & set(tests_names)):
            if name not in _assigned_outside.get(id(loop), set()):
                continue
            occ = sorted([n for n in order if n.id == name], key=lambda n: (n.lineno, n.col_offset))
            # the first textual occurrence in the body is the read in a test: the value comes from an earlier iteration
            if occ and isinstance(occ[0].ctx, ast.Load) and any(occ[0] is n for n in ast.walk(tests_names[name])):
                read.setdefault(name, tests_names[name])
    return read


def _pair_loops(fi) -> list:
    """[(loop, ordered?, text of the iterable)] for the loops of a function that walk the pairs of a KD-tree query, directly, through
    list()/tuple()/sorted() wrappers (sa/model.py strips them off the loop header) or through a local bound once to such an expression."""
    out = []
    for loop in ast.walk(fi.node):
        if not isinstance(loop, ast.For):
            continue
        it = loop.iter
        wrappers = []
        w = getattr(loop, "_order_wrapper", None)
        if w:
            wrappers.append(w)
        for _ in range(4):
            if isinstance(it, ast.Name):
                d = [v for s2, v in astq.assignments(fi.node, it.id) if v is not None]
                if len(d) != 1:
                    break
                it = d[0]
            elif isinstance(it, ast.Call) and isinstance(it.func, ast.Name) and it.func.id in ("sorted", "list", "tuple", "set", "frozenset", "iter", "reversed") and len(it.args) == 1:
                wrappers.append(it.func.id if not it.keywords or it.func.id != "sorted" else "sorted(key=...)")
                it = it.args[0]
            else:
                break
        if isinstance(it, ast.Call) and astq.callee_name(it) == "query_pairs":
            shown = norm(it)[:50]
            for wname in reversed(wrappers):
                shown = f"{wname.split('(')[0]}({shown})"
            # sorted() directly on the set fixes the order (by point index); a later set()/frozenset() forgets it again
            ordered = "sorted" in wrappers and not any(x in ("set", "frozenset") for x in wrappers[: wrappers.index("sorted")])
            out.append((loop, ordered, shown))
    return out


def _order_sinks(fi, loop) -> list:
    """Order-sensitive uses, after the loop, of what the loop appended in visiting order: [(description, node)].
    A list filled by the loop keeps the visiting order; it carries it into every list filled from it and into Counter(...) (ties of
    most_common() are in first-insertion order) until something sorts it; a later loop over such a sequence whose iterations are
    first come, first served (e.g. the greedy edge occupation) turns that order into the result."""
    body = list(fi.node.body)
    if loop not in body:
        return []
    tainted = {x.func.value.id for x in ast.walk(loop) if isinstance(x, ast.Call) and isinstance(x.func, ast.Attribute) and x.func.attr in ("append", "extend", "insert") and isinstance(x.func.value, ast.Name)}
    chain = {t: t for t in tainted}
    sinks = []

    def carries(e: ast.AST):
        """name of a tainted sequence that `e` walks in its order (not under sorted(...))"""
        if isinstance(e, ast.Call) and isinstance(e.func, ast.Name) and e.func.id == "sorted":
            return None
        if isinstance(e, ast.Name) and e.id in tainted:
            return e.id
        if isinstance(e, ast.Call):
            f = e.func
            if isinstance(f, ast.Attribute) and f.attr in ("most_common", "items", "keys", "values", "elements") and isinstance(f.value, (ast.Name, ast.Call)):
                return carries(f.value)
            if isinstance(f, ast.Name) and f.id in ("Counter", "list", "tuple", "reversed", "enumerate", "iter", "dict", "OrderedDict", "zip") or (isinstance(f, ast.Attribute) and f.attr in ("fromkeys", "chain")):
                for a in e.args:
                    r = carries(a)
                    if r:
                        return r
        if isinstance(e, (ast.ListComp, ast.GeneratorExp, ast.DictComp)):
            for g in e.generators:
                r = carries(g.iter)
                if r:
                    return r
        return None

    for st in body[body.index(loop) + 1 :]:
        if isinstance(st, (ast.Assign, ast.AnnAssign)) and st.value is not None:
            t = st.targets[0] if isinstance(st, ast.Assign) else st.target
            src = carries(st.value)
            if isinstance(t, ast.Name):
                if src:
                    tainted.add(t.id)
                    chain[t.id] = f"{chain[src]} -> {t.id}"
                elif t.id in tainted:
                    tainted.discard(t.id)
        elif isinstance(st, ast.For):
            src = carries(st.iter)
            if not src:
                continue
            _note_outside(fi.node, st)
            reads = _fcfs_reads(st)
            if reads:
                nm = sorted(reads)[0]
                sinks.append((f"{chain[src]} -> `for {norm(st.target)[:40]} in {norm(st.iter)[:50]}`, whose iterations are first come, first served (`{norm(reads[nm])[:50]}`)", st))
            for x in ast.walk(st):
                if isinstance(x, ast.Call) and isinstance(x.func, ast.Attribute) and x.func.attr in ("append", "extend", "insert") and isinstance(x.func.value, ast.Name):
                    tainted.add(x.func.value.id)
                    chain.setdefault(x.func.value.id, f"{chain[src]} -> {x.func.value.id}")
    return sinks


def check_visit_order(chk) -> None:
    """A loop over `tree.query_pairs(r)` walks a *set* of index pairs; the order in which CPython iterates that set depends on how
    scipy filled it, i.e. on the KD-tree built from the coordinates, so it changes under a rigid motion although the set does not.
    That is harmless while every iteration is independent of the others and nothing later depends on the order of what was collected;
    it decides the result as soon as (a) the body is first come, first served - a guard that reads a container which the same loop
    fills (F23: `used_atoms` in find_pairs), `setdefault`, a `break`, a running best - or (b) a list the loop filled is consumed in
    its arrival order by something order-sensitive: Counter(...).most_common() ties followed by a greedy first-come selection.
    Such a loop must visit the pairs in an order that is a function of the set (`sorted(...)`: by point index = by input order)."""
    repo = chk.repo
    rule = "contact-visit-order"
    n = 0
    for m, q in (("annotator", "find_pairs"), ("annotator", "find_stackings")):
        if not repo.has_func(m, q):
            continue
        fi = repo.func(m, q)
        for loop, ordered, shown in _pair_loops(fi):
            n += 1
            _note_outside(fi.node, loop)
            read = _fcfs_reads(loop)
            if read and not ordered:
                name = sorted(read)[0]
                what = "a `break` ends it" if name == "<break>" else f"`{norm(read[name])[:60]}` reads `{name}`, which the same loop fills or carries over"
                chk.violation(
                    rule,
                    fi.site(loop),
                    f"`for {norm(loop.target)} in {shown}` walks a set whose iteration order depends on the KD-tree built from the coordinates, and the body is first come, first served "
                    f"({what}): a rigid motion of the structure changes which contact wins",
                    K(fi, f"visit-order:{name}"),
                )
                continue
            if not ordered:
                sinks = _order_sinks(fi, loop)
                if sinks:
                    desc, node = sinks[0]
                    chk.violation(
                        rule,
                        fi.site(loop),
                        f"`for {norm(loop.target)} in {shown}` walks a set whose iteration order depends on the KD-tree built from the coordinates, and what it collects is consumed in that order: {desc}: "
                        f"with equal contact counts the candidate that came first wins, so a rigid motion of the structure can change the reported pairs",
                        K(fi, "visit-order:downstream"),
                    )
                    continue
            if read:
                chk.ok(rule, fi.site(loop), f"first-come-first-served loop ({sorted(read)}) visits the contacts in sorted index order: the order is a function of the contact set, not of the coordinates")
            elif ordered:
                chk.ok(rule, fi.site(loop), "the KD-tree pairs are visited in sorted index order")
            else:
                chk.ok(rule, fi.site(loop), "iterations over the KD-tree pairs are independent of each other (no guard reads a container the loop fills) and nothing collected in visiting order reaches an order-sensitive use unsorted")
    if n == 0:
        chk.error(rule, "-", "no loop over query_pairs found in find_pairs / find_stackings")


def run_thorough(chk) -> None:
    from sa.model import Repo

    fx = os.path.join(VERIF, "fixtures", "c05")
    frepo = Repo(fx)
    for fi in frepo.module("geom").funcs.values():
        if fi.cls is not None or not fi.node.name.startswith(("bad_", "ok_")):
            continue
        inv = Invariance(frepo)
        inv.analyse(fi)
        if fi.node.name.startswith("bad_"):
            if inv.issues:
                chk.ok("fixture-control", f"fixtures/c05 {fi.qualname}", "firing example reported")
            else:
                chk.error("fixture-control", f"fixtures/c05 {fi.qualname}", "firing example NOT reported")
        else:
            if inv.issues:
                chk.error("fixture-control", f"fixtures/c05 {fi.qualname}", f"silent twin reported: {inv.issues[0].msg}")
            else:
                chk.ok("fixture-control", f"fixtures/c05 {fi.qualname}", "silent twin not reported")


MANIFEST_ENTRY = {
    "text": "A rigid-motion invariance type system (Point/Vector/component/Invariant/Identity kinds) is run over every expression of the functions on the annotation path of the current source: "
    "a well-typed path cannot produce a decision that depends on the frame, for every rotation and translation at once - which a finite sample of motions cannot give. Atom-order independence: atoms are fetched by name, "
    "positional access only reads residue-constant fields. Renaming: residue numbers are only compared/hashed/printed; three named arithmetic uses (two under find_gaps, one mmCIF index). Same-residue test by full identity. Since rounds 3-7 also: the visit order of the neighbour pairs and everything computed after it (contact-visit-order), positional binding of atoms from order-keeping sequences (positional-atom), partial identity keys (identity-partial-key), agreement of the decoded atom names between the PDB and the mmCIF reader per class of the name language (format-same-atoms).",
    "note": "Trusted: equivariance model of numpy/scipy primitives; proper rotations. Not decided: float round-off under motion, CPython set order of KD-tree pairs feeding the greedy choices (recorded residual), entity-sequence naming differences between formats.",
    "technique": "static analysis: abstract interpretation with rigid-motion invariance kinds (interprocedural over actual argument kinds) + call-graph-scoped syntactic rules + order/identity dataflow rules (visit order, positional binding, partial identity keys) and sibling agreement of the two readers' decoded names",
}
