"""C04 - fact-level rules for the pair loop of annotator.find_stackings.

The loop body is executed symbolically (sa/symexec.py) with the look-ups `coordinates_residue_map[coordinates[i]]` and
`coordinates[i]` replaced by the role symbols residue_i / point_i (checks/c03e.py), so hoisted look-ups, guard clauses, helpers
(`_within_limit(angles, limit)`), conditional expressions and `first, second = ...` are all read as the same facts:

  stack-skips / stack-extra-filter   a pair is dropped only for a missing normal, the normal-normal criterion or the offset
                                     criterion (closed world); a same-residue test must compare the whole identity
  stack-normals / stack-offset       accept region of each criterion, read from the recording paths, evaluated cell by cell:
                                     accepted iff min(angle_1, angle_2) <= limit (degrees)
  stack-offset-vector                the offset is the difference of the two centroids over all three axes (index loop,
                                     zip, array difference)
  stack-direction / stack-labels     the four (order, direction) cases: the recorded triple is (lower, higher, label) with
                                     label in {upward, downward} iff dot(n_i, n_j) > 0
"""
from __future__ import annotations

import ast
import copy
from typing import Any, Dict, List, Optional, Sequence, Set, Tuple

from checks import c03e
from checks.c03e import K, NotReadable
from sa import astq, intervals
from sa import symexec as SX
from sa.model import FuncInfo, norm

NI, NJ = "residue_i.base_normal_vector", "residue_j.base_normal_vector"


def _abv_calls(n: ast.AST) -> List[ast.Call]:
    return [x for x in ast.walk(n) if isinstance(x, ast.Call) and astq.callee_name(x) == "angle_between_vectors"]


def vec_diff(e: ast.expr) -> Optional[Tuple[str, str, int]]:
    """(P, Q, number of axes) when e is the componentwise difference P - Q of two point symbols."""
    def pt(x: ast.AST) -> Optional[str]:
        if isinstance(x, ast.Name) and x.id in ("point_i", "point_j"):
            return x.id
        if isinstance(x, ast.Call) and norm(x.func) in ("numpy.array", "np.array", "numpy.asarray", "np.asarray") and len(x.args) == 1:
            return pt(x.args[0])
        return None

    if isinstance(e, ast.BinOp) and isinstance(e.op, ast.Sub):
        a, b = pt(e.left), pt(e.right)
        if a and b:
            return a, b, 3
    if isinstance(e, ast.Call) and norm(e.func) in ("numpy.subtract", "np.subtract") and len(e.args) == 2:
        a, b = pt(e.args[0]), pt(e.args[1])
        if a and b:
            return a, b, 3
    if isinstance(e, ast.Call) and norm(e.func) in ("numpy.array", "np.array", "numpy.asarray", "np.asarray") and len(e.args) == 1:
        x = e.args[0]
        if isinstance(x, (ast.List, ast.Tuple)):
            ps = set()
            axes = []
            for el in x.elts:
                b = astq.match(el, "P_[A_] - Q_[A_]")
                if not b or not isinstance(b["A_"], ast.Constant) or pt(b["P_"]) is None or pt(b["Q_"]) is None:
                    return None
                ps.add((pt(b["P_"]), pt(b["Q_"])))
                axes.append(b["A_"].value)
            if len(ps) == 1 and axes == list(range(len(axes))):
                p, q = next(iter(ps))
                return p, q, len(axes)
            return None
        if isinstance(x, (ast.ListComp, ast.GeneratorExp)) and len(x.generators) == 1 and not x.generators[0].ifs:
            g = x.generators[0]
            if isinstance(g.iter, ast.Call) and norm(g.iter.func) == "zip" and len(g.iter.args) == 2 and isinstance(g.target, ast.Tuple) and len(g.target.elts) == 2 and all(isinstance(t, ast.Name) for t in g.target.elts):
                a, b = pt(g.iter.args[0]), pt(g.iter.args[1])
                ta, tb = g.target.elts[0].id, g.target.elts[1].id
                if a and b and norm(x.elt) == f"{ta} - {tb}":
                    return a, b, 3
                if a and b and norm(x.elt) == f"{tb} - {ta}":
                    return b, a, 3
                return None
            if isinstance(g.target, ast.Name):
                n_axes = None
                if astq.match(g.iter, "range(3)") is not None:
                    n_axes = 3
                elif isinstance(g.iter, (ast.Tuple, ast.List)) and all(isinstance(v, ast.Constant) for v in g.iter.elts) and [v.value for v in g.iter.elts] == list(range(len(g.iter.elts))):
                    n_axes = len(g.iter.elts)
                else:
                    b = astq.match(g.iter, "range(N_)")
                    if b and isinstance(b["N_"], ast.Constant):
                        n_axes = b["N_"].value
                b = astq.match(x.elt, f"P_[{g.target.id}] - Q_[{g.target.id}]")
                if n_axes is not None and b and pt(b["P_"]) and pt(b["Q_"]):
                    return pt(b["P_"]), pt(b["Q_"]), n_axes
    return None


def _dot_consistent(conds: Sequence[Tuple[str, bool, ast.AST]], sign: float, fold) -> Optional[bool]:
    """Are the decisions of the path that read numpy.dot(n_i, n_j) consistent with a dot product of the given sign?
    None: the path takes no decision on the dot product."""
    seen = False
    for k, v, n in conds:
        dots = [x for x in ast.walk(n) if isinstance(x, ast.Call) and norm(x.func) in ("numpy.dot", "np.dot")]
        if not dots:
            continue
        if any(sorted(norm(a) for a in d.args) != [NI, NJ] for d in dots):
            continue  # a dot product of other vectors (the offset criterion written with cosines): not about the direction of the normals
        seen = True
        try:
            val = bool(intervals.evaluate(n, lambda e: sign if isinstance(e, ast.Call) and norm(e.func) in ("numpy.dot", "np.dot") else None, fold))
        except Exception as ex:
            raise NotReadable(f"direction test `{k[:80]}` not evaluable: {ex}")
        if val != v:
            return False
    return True if seen else None


def _resolve_case(repo, fi: FuncInfo, e: ast.expr, lower_first: bool, sign: float, fold) -> ast.expr:
    """The expression in one of the four cases: tests of the residue order and of the sign of dot(n_i, n_j) become constants,
    look-ups in module-level constant tables are folded (`TABLE[(in_order, same_direction)]`)."""
    from sa.consteval import Folder

    order = {"residue_i < residue_j": lower_first, "residue_i <= residue_j": lower_first, "residue_j < residue_i": not lower_first, "residue_j <= residue_i": not lower_first, "residue_j > residue_i": lower_first, "residue_i > residue_j": not lower_first}

    class R(ast.NodeTransformer):
        def visit_Compare(self, n):
            t = norm(n)
            if t in order:
                return ast.Constant(value=order[t])
            if any(isinstance(x, ast.Call) and norm(x.func) in ("numpy.dot", "np.dot") for x in ast.walk(n)):
                try:
                    return ast.Constant(value=bool(intervals.evaluate(n, lambda x: sign if isinstance(x, ast.Call) and norm(x.func) in ("numpy.dot", "np.dot") else None, fold)))
                except Exception:
                    return n
            self.generic_visit(n)
            return n

        def visit_Call(self, n):
            self.generic_visit(n)
            if isinstance(n.func, ast.Name) and n.func.id == "bool" and len(n.args) == 1 and isinstance(n.args[0], ast.Constant):
                return ast.Constant(value=bool(n.args[0].value))
            return n

        def visit_Subscript(self, n):
            self.generic_visit(n)
            if isinstance(n.value, ast.Name) and n.value.id in fi.module.consts and not any(isinstance(x, ast.Name) for x in ast.walk(n.slice)):
                try:
                    v = Folder(repo, fi.module.name).fold(ast.fix_missing_locations(copy.deepcopy(n)))
                    if isinstance(v, (str, bool, int)):
                        return ast.Constant(value=v)
                except Exception:
                    pass
            return n

    return ast.fix_missing_locations(R().visit(copy.deepcopy(e)))


def recorded_cases(chk, fi: FuncInfo, recs, fold, label_of):
    """The recorded triple in the four (residue order, direction of the normals) cases, read from the recording paths:
    ({(lower_first, same): (first, second, label, node)}, problems, a path records without deciding the direction)."""
    cases: Dict[Tuple[bool, bool], Tuple[Optional[str], Optional[str], Optional[str], ast.AST]] = {}
    problems: List[str] = []
    undirected = False
    for p, e in recs:
        conds = list(p.conds) + list(e.guards)
        lower = c03e._lower_of(conds)
        t = e.args[0] if e.args else None
        if not (isinstance(t, ast.Tuple) and len(t.elts) == 3):
            problems.append(f"recorded value `{e.text()[:70]}` is not a triple")
            continue
        a, b = norm(t.elts[0]), norm(t.elts[1])
        for same, sign in ((True, 1.0), (False, -1.0)):
            cons = _dot_consistent(conds, sign, fold)
            in_label = any(isinstance(x, ast.Call) and norm(x.func) in ("numpy.dot", "np.dot") for x in ast.walk(t.elts[2]))
            if cons is None and not in_label:
                undirected = True
            if cons is False:
                continue
            env = {"same_direction": same}
            for lf in ((True, False) if lower is None else (lower == "i",)):
                lab = label_of(_resolve_case(chk.repo, fi, t.elts[2], lf, sign, fold), env)
                key = (lf, same)
                val = (a if a in ("residue_i", "residue_j") else None, b if b in ("residue_i", "residue_j") else None, lab, e.node)
                if key in cases and cases[key][:3] != val[:3]:
                    problems.append(f"case lower_first={lf}, same_direction={same}: recorded both as {cases[key][:3]} and {val[:3]}")
                cases[key] = val
    return cases, problems, undirected


def check_pair_loop(chk, fi: FuncInfo, loop: ast.For, sites: c03e.Sites, c: Dict[str, Any], fold, label_of, eq_fields) -> str:
    """Returns the name of the list the triples are recorded in."""
    paths = SX.Executor(nonnull=sites.nonnull, rewrite=sites.rewrite, helpers=c03e.new_helpers(chk.repo, fi)).run(loop.body, c03e.constant_tuples(fi, loop))
    stores = sorted({e.recv for p in paths for e in p.effects if e.kind == "call" and e.method in ("append", "add") and e.recv in sites.nonnull})
    if len(stores) != 1:
        raise NotReadable(f"the stacking loop appends to {stores}, expected one list of triples")
    store = stores[0]
    residual = {n.id for p in paths for k, v, node in p.conds for n in ast.walk(node) if isinstance(n, ast.Name) and (n.id in sites.maps or n.id == sites.points)}
    residual |= {n.id for p in paths for e in p.effects for a in e.args for n in ast.walk(a) if isinstance(n, ast.Name) and (n.id in sites.maps or n.id == sites.points)}
    if residual:
        raise NotReadable(f"{sorted(residual)} are used in the stacking loop other than as look-ups by the query indices")
    for side in c03e.SIDES:
        chk.ok("stack-roles", fi.site(loop), f"residue_{side} = the residue whose centroid is point {sites.idx[c03e.SIDES.index(side)]} of the query pair; normal_{side} = its base_normal_vector (read after substitution)")
        chk.ok("stack-roles", fi.site(loop), f"point_{side} = the centroid registered for that residue")
    recs = [(p, e) for p in paths for e in p.effects if e.recv == store and e.method in ("append", "add")]
    if not recs:
        chk.violation("stack-labels", fi.site(loop), "no path through the stacking loop records a pair", K(fi, "no-record"))
        return store

    # ---- the two criteria: groups of decisions by the angles they read ------------------------------------------------
    # an angle is read as angle_between_vectors(a, b) (radians) or as the dot product of two unit vectors (its cosine)
    def quantities(n: ast.AST) -> List[Tuple[ast.Call, Tuple[str, str, str]]]:
        out = []
        for x in ast.walk(n):
            q = c03e.angle_quantity(x, (NI, NJ))
            if q is not None:
                out.append((x, q))
        return out

    def is_direction(n: ast.AST) -> bool:
        """a test of the *sign* of dot(n_i, n_j): comparison of the plain dot product with zero"""
        if isinstance(n, ast.Compare) and len(n.ops) == 1:
            sides = [n.left, n.comparators[0]]
            zero = [x for x in sides if isinstance(x, ast.Constant) and x.value in (0, 0.0)]
            dots = [x for x in sides if isinstance(x, ast.Call) and norm(x.func) in ("numpy.dot", "np.dot") and sorted(norm(a) for a in x.args) == [NI, NJ]]
            return len(zero) == 1 and len(dots) == 1
        return False

    def group_of(n: ast.AST) -> Optional[str]:
        if is_direction(n):
            return None
        qs = quantities(n)
        if not qs:
            return None
        ops = [{q[1].lstrip("-"), q[2].lstrip("-")} for x, q in qs]
        if all(o == {NI, NJ} for o in ops) and len(qs) in (1, 2):
            # angle(n_i, n_j) and angle(-n_i, n_j) side by side, or the one cosine dot(n_i, n_j) under abs()
            return "normals"
        if len(qs) == 2 and all(len(o & {NI, NJ}) == 1 for o in ops) and {next(iter(o & {NI, NJ})) for o in ops} == {NI, NJ} and len({next(iter(o - {NI, NJ})) for o in ops if o - {NI, NJ}}) == 1:
            return "offset"
        return "other"

    def decided(p: SX.Path, e: SX.Effect, keys: Set[str], value: bool) -> bool:
        return c03e._decided_before(p, keys, e, value)

    # missing normals
    bad_none = [(p, e) for p, e in recs if not (decided(p, e, {f"{NI} is None"}, False) and decided(p, e, {f"{NJ} is None"}, False))]
    chk.expect(not bad_none, "stack-skips", fi.site(loop), f"pairs without both normals are skipped (decided before the record on all {len(recs)} recording paths)", "missing-normal skip absent: a pair is recorded on a path that has not found both base normals present", K(fi, "skip-none"))

    def check_region(tag: str, limit: float, rule: str) -> Optional[str]:
        alts = {}
        calls: Dict[str, Tuple[ast.Call, Tuple[str, str, str]]] = {}
        for p, e in recs:
            cs = [(k, v, n) for k, v, n in p.conds if group_of(n) == tag]
            a = c03e._conj(cs)
            alts[norm(a)] = a
            for k, v, n in cs:
                for x, q in quantities(n):
                    calls[norm(x)] = (x, q)
        if not calls:
            chk.violation(rule, fi.site(loop), f"the {tag} criterion is missing from the stacking loop: pairs are recorded without it", K(fi, f"{tag}-missing"))
            return None
        if any(norm(a) == "True" for a in alts.values()):
            chk.violation(rule, fi.site(loop), f"the {tag} criterion is not applied on every recording path", K(fi, f"{tag}-missing"))
            return None
        test = ast.fix_missing_locations(c03e._disj(list(alts.values())))
        texts = sorted(calls)
        units = {q[0] for x, q in calls.values()}
        if len(units) != 1:
            chk.error(rule, fi.site(loop), f"the {tag} criterion mixes angles and cosines")
            return None
        unit = units.pop()
        try:
            if tag == "normals" and len(texts) == 1:
                # one quantity: the angle theta between the normals; the antiparallel arrangement is theta' = 180 - theta
                qs = [((lambda n, t=texts[0]: isinstance(n, ast.Call) and norm(n) == t), unit)]
                regn = intervals.region(test, qs, fold, extra_thresholds=(limit, 180.0 - limit, 0.0, 180.0))
                bad = {k: v for k, v in regn.items() if 0 <= k[0] <= 180 and v != (not min(k[0], 180.0 - k[0]) > limit)}
                shape = "the angle between the normals or its supplement"
            else:
                qs = [((lambda n, t=t: isinstance(n, ast.Call) and norm(n) == t), unit) for t in texts]
                regn = intervals.region(test, qs, fold, extra_thresholds=(limit, 0.0, 180.0))
                if tag == "normals":
                    # the two quantities are theta and 180 - theta: only the cells on that line are reachable, compared along it
                    bad = {k: v for k, v in regn.items() if 0 <= k[0] <= 180 and 0 <= k[1] <= 180 and v != (not min(k) > limit)}
                else:
                    bad = {k: v for k, v in regn.items() if 0 <= k[0] <= 180 and 0 <= k[1] <= 180 and v != (not min(k) > limit)}
                shape = "the smaller of the two angles"
            first = sorted(bad)[0] if bad else None
            chk.expect(
                not bad,
                rule,
                fi.site(loop),
                f"a pair is skipped iff {shape} exceeds {limit} degrees ({len(regn)} cells compared, accept condition read from {len(recs)} recording paths" + (", angles measured by their cosines" if unit == "cos" else "") + ")",
                f"{tag} test does not skip exactly when {shape} exceeds {limit} degrees: e.g. at {first} degrees the pair is {'kept' if first is not None and bad[first] else 'skipped'} (accept condition `{norm(test)[:110]}`)",
                K(fi, f"{tag}-region"),
                expected=f"skip iff min(a1, a2) > {limit} deg",
                found={str(k): v for k, v in list(sorted(bad.items()))[:6]},
            )
        except intervals.NotThreshold as ex:
            chk.error(rule, fi.site(loop), str(ex))
        if tag == "offset":
            vecs = {a for x, q in calls.values() for a in (q[1], q[2])} - {NI, NJ}
            return next(iter(vecs)) if len(vecs) == 1 else None
        return None

    check_region("normals", c["max_angle_between_normals_deg"], "stack-normals")
    vtext = check_region("offset", c["max_angle_vector_normal_deg"], "stack-offset")
    if vtext is not None:
        d = vec_diff(ast.parse(vtext, mode="eval").body)
        ok = d is not None and {d[0], d[1]} == {"point_i", "point_j"} and d[2] == 3
        chk.expect(ok, "stack-offset-vector", fi.site(loop), "the offset vector is the difference of the two centroids over all three axes", f"the offset vector `{vtext[:110]}` is not the centroid difference point_i - point_j over all three axes", K(fi, "offset-vector"), found=vtext if d is None else list(d))

    # ---- closed world ------------------------------------------------------------------------------------------------------
    ids = c03e.identity_compares(paths)
    for text, node, attrs in ids:
        if attrs == {"<object>"}:
            cf = eq_fields(chk.repo, "tertiary", "Residue3D")
            if cf is not None and "atoms" in cf:
                chk.violation("same-residue-identity", fi.site(node), f"`{text}` uses the dataclass equality of Residue3D, which also compares the atom tuples: not a test of residue identity", K(fi, "same-residue-object-eq"), found=sorted(cf))
            continue
        if attrs <= {"chain", "number", "icode", "model", "name"}:
            missing = {"chain", "number", "icode"} - attrs
            chk.expect(
                not missing,
                "same-residue-identity",
                fi.site(node),
                "the same-residue skip compares chain, number and insertion code",
                f"the same-residue skip `{text[:90]}` compares only {sorted(attrs)}: two different residues that share them {'(e.g. 12 and 12A, which differ only in the insertion code)' if 'icode' in missing else ''} are treated as one residue and their stacking, which the definition admits, is dropped",
                K(fi, "same-residue-partial"),
                expected=["chain", "number", "icode"],
                found=sorted(attrs),
            )
    id_keys = {t[0] for t in ids if t[2] == {"<object>"} or t[2] <= {"chain", "number", "icode", "model", "name", "label", "auth"}}
    rec_sets = {tag: [frozenset((k, v) for k, v, n in p.conds if group_of(n) == tag) for p, e in recs] for tag in ("normals", "offset")}
    extra: Dict[str, Tuple[ast.AST, bool]] = {}
    n_silent = 0
    for p in paths:
        if any(e.recv == store for e in p.effects) or p.exit == "raise":
            continue
        n_silent += 1
        if any(k in (f"{NI} is None", f"{NJ} is None") and v for k, v, _ in p.conds):
            continue
        if any(k in id_keys and v for k, v, _ in p.conds):
            continue  # reported above when the identity is partial
        just = False
        for tag in ("normals", "offset"):
            mine = frozenset((k, v) for k, v, n in p.conds if group_of(n) == tag)
            if mine and not any(r <= mine for r in rec_sets[tag]):
                just = True
        if just:
            continue
        cands = [(k, v, n) for k, v, n in p.conds if group_of(n) is None and k not in (f"{NI} is None", f"{NJ} is None") and k not in id_keys]
        k, v, n = cands[-1] if cands else (p.conds[-1] if p.conds else ("<unconditional>", True, loop))
        extra.setdefault(k, (n, v))
    for p, e in recs:
        for k, v, n in p.conds:
            if group_of(n) == "other":
                extra.setdefault(k, (n, v))
    for k, (n, v) in extra.items():
        chk.violation("stack-extra-filter", fi.site(n), f"additional or unrecognised filter in the stacking loop: a pair is dropped when `{k[:90]}` is {v}, which is none of missing normal, normal-normal angle, offset angle", K(fi, f"extra:{k[:50]}"))
    if not extra:
        chk.ok("stack-extra-filter", fi.site(loop), f"{n_silent} paths record nothing: missing normal, normal-normal angle, offset angle - nothing else")

    # ---- direction and labels -----------------------------------------------------------------------------------------------
    cases, problems, undirected = recorded_cases(chk, fi, recs, fold, label_of)
    want_dir = "same_direction <=> dot(normal_i, normal_j) > 0"
    if undirected:
        chk.violation("stack-direction", fi.site(loop), "a pair is recorded on a path that takes no decision on the sign of dot(normal_i, normal_j): the label cannot depend on whether the normals point the same way", K(fi, "direction"))
    else:
        chk.ok("stack-direction", fi.site(loop), f"{want_dir}: every recording path decides the sign of the dot product of the two normals (evaluated for dot = +1 / -1)")
    if problems or len(cases) != 4 or any(None in v[:3] for v in cases.values()):
        chk.error("stack-labels", fi.site(loop), "; ".join(problems[:3]) or f"recorded triple not evaluable in some case: { {str(k): v[:3] for k, v in cases.items()} }")
        return store
    bad = {}
    for (lf, same), (a, b, lab, site) in cases.items():
        want_pair = ("residue_i", "residue_j") if lf else ("residue_j", "residue_i")
        group = {"upward", "downward"} if same else {"inward", "outward"}
        if (a, b) != want_pair or lab not in group:
            bad[f"residue_i {'<' if lf else '>'} residue_j, normals {'same' if same else 'opposite'} way"] = [a, b, lab]
    chk.expect(
        not bad,
        "stack-labels",
        fi.site(loop),
        "in all four cases the lower residue comes first and the label is upward/downward iff the normals point the same way",
        f"label grouping or orientation is wrong: {bad} (same direction must give upward/downward, opposite inward/outward, lower residue first)",
        K(fi, "labels"),
        found=bad,
    )
    by_same = {same: {cases[(lf, same)][2] for lf in (True, False)} for same in (True, False)}
    merged = [same for same, ls in by_same.items() if len(ls) < 2]
    chk.expect(
        not merged,
        "stack-labels",
        fi.site(loop),
        "the four cases use the four topologies (the label changes when the two residues swap roles)",
        f"the two orders of a pair get the same label {sorted(by_same[merged[0]]) if merged else ''} when the normals point {'the same' if merged and merged[0] else 'opposite'} way: the topology does not flip when the residues are swapped into sorted order",
        K(fi, "labels-distinct"),
        found={str(k): v[2] for k, v in cases.items()},
    )
    return store


def check_registration(chk, fi: FuncInfo, sites: c03e.Sites) -> None:
    """One centroid per residue goes into the KD-tree and is mapped back to its residue."""
    regs = [(p, [e for e in p.effects if e.recv == sites.points and e.method == "append"], [e for e in p.effects if e.kind == "setitem" and e.recv in sites.maps]) for p in sites.res_paths]
    regs = [r for r in regs if r[1] or r[2]]
    ok = bool(regs) and all(len(a) == 1 and len(s) == 1 and norm(s[0].args[0]) == norm(a[0].args[0]) and isinstance(s[0].args[1], ast.Name) and s[0].args[1].id == sites.res_var and not a[0].loops and not s[0].loops for p, a, s in regs)
    chk.expect(ok, "centroid-register", fi.site(sites.res_loop), "one centroid per residue is registered for the search and mapped back to its residue (same key, once, on every registering path)", "the centroid is not registered once in the list of points and mapped to its residue under the same key", K(fi, "centroid-register"))


def check_orientation(chk, fi: FuncInfo, loop: ast.For, sites: c03e.Sites, fold, label_of, rule: str = "stack-orientation") -> None:
    """C11: every recorded stacking names the lower residue first (the later sorted() orders the list, it does not re-orient a pair)."""
    paths = SX.Executor(nonnull=sites.nonnull, rewrite=sites.rewrite, helpers=c03e.new_helpers(chk.repo, fi)).run(loop.body, c03e.constant_tuples(fi, loop))
    stores = sorted({e.recv for p in paths for e in p.effects if e.kind == "call" and e.method in ("append", "add") and e.recv in sites.nonnull})
    if len(stores) != 1:
        raise NotReadable(f"the stacking loop appends to {stores}, expected one list of triples")
    recs = [(p, e) for p in paths for e in p.effects if e.recv == stores[0] and e.method in ("append", "add")]
    cases, problems, undirected = recorded_cases(chk, fi, recs, fold, label_of)
    if problems or len(cases) != 4 or any(None in v[:2] for v in cases.values()):
        chk.error(rule, fi.site(loop), "; ".join(problems[:2]) or "recorded stacking not evaluable in some (order, direction) case")
        return
    bad = {}
    for (lf, same), (a, b, lab, site) in cases.items():
        want = ("residue_i", "residue_j") if lf else ("residue_j", "residue_i")
        if (a, b) != want:
            bad[f"residue_i {'<' if lf else '>'} residue_j"] = [a, b]
    chk.expect(not bad, rule, fi.site(loop), "every stacking is recorded with the lower residue first (both residue orders evaluated)", f"a stacking is recorded with the higher residue first when {sorted(bad)[0] if bad else ''}: `{bad}` - the list is sorted afterwards but a pair is never re-oriented, so the same contact is (a, b) or (b, a) depending on the order of the residues in the file", K(fi, "stack-orientation"), found=bad)


def centroid_by_value(chk, fi: FuncInfo, points: str) -> bool:
    """The centroid registered for a residue, decided on values: the statements before `KDTree(<points>)` are evaluated on stand-in
    residues (every base letter; all ring atoms present / one missing / none present) and the registered point is compared with the
    mean of the ring atoms (pinned BASE_ATOMS) that are present.  Returns False when the code is not evaluable (nothing reported)."""
    from checks import c03v

    repo = chk.repo
    t = c03v.tables()
    cases = []
    for L in c03v.LETTERS:
        ring = t["BASE_ATOMS"].get(L, [])
        cases.append((L, []))
        if ring:
            cases.append((L, [ring[len(ring) // 2]]))
            cases.append((L, list(ring)))
    results = []
    try:
        for L, missing in cases:
            res = c03v.ResStub(repo, L, model=1, tag=1, missing=missing)
            env = c03v.run_prefix(repo, fi, points, [res], None)
            results.append((L, missing, res, list(env[points]), c03v.site_dicts(env, points) if env[points] else {}))
        # a base without its backbone (base-only or coarse-grained coordinates: ring atoms and C1' only) has a base centroid like any other
        for L in c03v.LETTERS:
            ring = t["BASE_ATOMS"].get(L, [])
            if ring:
                res = c03v.ResStub(repo, L, model=1, tag=1, names=list(ring) + ["C1'"])
                env = c03v.run_prefix(repo, fi, points, [res], None)
                results.append((L, ["<backbone>"], res, list(env[points]), c03v.site_dicts(env, points) if env[points] else {}))
    except c03v.NotEvaluable as ex:
        if "ZeroDivisionError" in str(ex):
            chk.violation("centroid-guard", fi.where, f"registering a residue without any ring atom present fails ({str(ex)[:80]}): the centroid is computed without testing that at least one base atom is present", K(fi, "centroid-guard"))
            return True
        return False
    site = fi.where
    wrong, unguarded, mapping = {}, {}, {}
    for L, missing, res, pts, dicts in results:
        ring = [a for a in res.atoms if a.name in t["BASE_ATOMS"].get(L, [])]
        label = f"{L}" + (" with ring atoms and C1' only (no backbone)" if missing == ["<backbone>"] else f" without {missing[0]}" if len(missing) == 1 else (" without ring atoms" if missing else ""))
        if not ring:
            if pts:
                unguarded[label] = pts[:1]
            continue
        want = tuple(sum(getattr(a, ax) for a in ring) / len(ring) for ax in "xyz")
        if len(pts) != 1 or not isinstance(pts[0], (tuple, list)) or len(pts[0]) != 3 or any(abs(float(g) - w) > 1e-9 for g, w in zip(pts[0], want)):
            # which atoms give the registered point?  (tables of tertiary.py that list ring atoms)
            why = ""
            if len(pts) == 1 and isinstance(pts[0], (tuple, list)) and len(pts[0]) == 3:
                for tab, names in (("Residue3D.nucleobase_heavy_atoms", _class_table(repo, "nucleobase_heavy_atoms").get(L, [])), ("all atoms of the residue", [a.name for a in res.atoms])):
                    sel = [a for a in res.atoms if a.name in names]
                    for den in (len(sel), len([n for n in names]) or 1, len(t["BASE_ATOMS"].get(L, [])) or 1):
                        if sel and all(abs(float(g) - sum(getattr(a, ax) for a in sel) / den) < 1e-9 for g, ax in zip(pts[0], "xyz")):
                            why = f" (it is the sum over the atoms of {tab} that are present, divided by {den})"
                            break
                    if why:
                        break
                if not why:
                    for den in (len(t["BASE_ATOMS"].get(L, [])),):
                        if den and all(abs(float(g) - sum(getattr(a, ax) for a in ring) / den) < 1e-9 for g, ax in zip(pts[0], "xyz")):
                            why = f" (the sum over the ring atoms present is divided by {den}, the number of ring atoms expected)"
            wrong[label] = f"registered {[round(float(x), 4) for x in pts[0]] if pts and isinstance(pts[0], (tuple, list)) else pts}, mean of the ring atoms present {[round(w, 4) for w in want]}{why}"
        for d, content in dicts.items():
            for k, v in content.items():
                if v is not res and not (isinstance(v, tuple) and res in v):
                    mapping[label] = f"`{d}` maps the centroid to {v!r}"
    chk.expect(not wrong, "centroid-mean", site, f"centroid = per-axis mean of the ring atoms (BASE_ATOMS) that are present ({len(results)} stand-in residues evaluated: every base letter, complete / one ring atom missing)", f"the registered centroid is not the mean of the ring atoms that are present: {dict(list(wrong.items())[:3])}", K(fi, "centroid"), found=wrong)
    chk.ok("centroid-axes", site, "components are the means of x, y, z in this order (compared by value)") if not wrong else None
    chk.ok("centroid-atoms", site, "centroid atoms = the ring atoms of the residue's base (by value, for A, G, C, U, T and an unknown letter)") if not wrong else None
    chk.expect(not unguarded, "centroid-guard", site, "a centroid exists only for residues with at least one base atom present (a residue without ring atoms registers nothing)", f"a residue without ring atoms is registered: {unguarded}", K(fi, "centroid-guard"), found=unguarded)
    chk.expect(not mapping, "centroid-register", site, "the centroid is mapped back to its residue under the same key", f"the dictionary keyed by the centroid does not hold the residue: {mapping}", K(fi, "centroid-register"), found=mapping)
    return True


def _class_table(repo, attr: str) -> Dict[str, List[str]]:
    from sa.consteval import Folder

    try:
        v = Folder(repo, "tertiary").fold(repo.class_attr_expr("tertiary", "Residue3D", attr))
        return {k: sorted(x) for k, x in v.items()} if isinstance(v, dict) else {}
    except Exception:
        return {}


_CACHING = ("cached_property", "cache", "lru_cache")
_MUTABLE_ANN = ("List", "Dict", "Set", "list", "dict", "set", "MutableSequence", "MutableMapping", "DefaultDict", "Deque")


def stale_members(repo, module: str, cls: str) -> Dict[str, str]:
    """Members of a class whose value is fixed at first access although the state they are computed from can change afterwards:
    the class is not frozen, the member is memoised on the instance (`cached_property`, `cache`, `lru_cache`) and its body reads a
    field annotated as a mutable container.  Uncached properties/methods that read such a member inherit the defect.
    member -> explanation."""
    c = repo.modules[module].classes.get(cls)
    if c is None:
        return {}
    for d in c.decorator_list:
        if isinstance(d, ast.Call) and any(k.arg == "frozen" and isinstance(k.value, ast.Constant) and k.value.value is True for k in d.keywords):
            return {}
    mutable = {b.target.id for b in c.body if isinstance(b, ast.AnnAssign) and isinstance(b.target, ast.Name) and norm(b.annotation).split("[")[0].split(".")[-1] in _MUTABLE_ANN}
    if not mutable:
        return {}
    funcs = {b.name: b for b in c.body if isinstance(b, ast.FunctionDef)}

    def self_reads(f: ast.FunctionDef) -> Set[str]:
        me = f.args.args[0].arg if f.args.args else "self"
        return {n.attr for n in ast.walk(f) if isinstance(n, ast.Attribute) and isinstance(n.value, ast.Name) and n.value.id == me}

    out: Dict[str, str] = {}
    for name, f in funcs.items():
        decs = {norm(d.func if isinstance(d, ast.Call) else d).split(".")[-1] for d in f.decorator_list}
        hit = sorted(self_reads(f) & mutable)
        if decs & set(_CACHING) and hit:
            out[name] = f"`{cls}.{name}` is memoised on the instance ({sorted(decs & set(_CACHING))[0]}) but is computed from `self.{hit[0]}`, a mutable field of a class that is not frozen"
    changed = True
    while changed:
        changed = False
        for name, f in funcs.items():
            if name in out:
                continue
            via = sorted(self_reads(f) & set(out))
            if via:
                out[name] = f"`{cls}.{name}` reads `self.{via[0]}`: {out[via[0]]}"
                changed = True
    return out


def check_structure_state(chk, fi: FuncInfo, rule: str = "structure-state") -> None:
    """The annotation is a function of the residues the structure holds *when the function is called*: every member of the
    structure parameter the function reads must reflect the current residue list."""
    if not fi.node.args.args:
        return
    param = fi.node.args.args[0].arg
    stale = stale_members(chk.repo, "tertiary", "Structure3D")
    used = sorted({n.attr for n in ast.walk(fi.node) if isinstance(n, ast.Attribute) and isinstance(n.value, ast.Name) and n.value.id == param})
    bad = [a for a in used if a in stale]
    site = next((n for n in ast.walk(fi.node) if isinstance(n, ast.Attribute) and isinstance(n.value, ast.Name) and n.value.id == param and n.attr in bad), fi.node)
    chk.expect(
        not bad,
        rule,
        fi.site(site),
        f"the members of `{param}` that are read ({', '.join(used)}) reflect its current residues",
        f"`{param}.{bad[0] if bad else ''}` is frozen at its first access: {stale.get(bad[0]) if bad else ''} - after the residue list is edited (residues filtered, added or replaced on the same object) the function keeps annotating the old residues",
        K(fi, f"structure-state:{','.join(bad)}"),
        found=bad,
    )
