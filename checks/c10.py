"""C10 - fitting to PDB limits is a structure-preserving renaming or a clean refusal.

Decided on parser_v2.can_write_pdb / fit_to_pdb: the limits and the quantities they are applied to, agreement of the
limits with the writer's field widths, ValueError as the only explicit exception, identity return when the table
fits, feasibility checks, chain alphabet, one-to-one chain and residue maps applied to every row, frame condition on
column stores, dtype typestate of category columns, injective and complete rename map, guarded optional column.
"""
from __future__ import annotations

import ast
from typing import Any, Dict, List, Optional, Set

from checks import c09
from checks.c03 import K, spec
from checks.c08 import flat
from sa import astq
from sa.consteval import Folder
from sa.flow import FlowMap, facts
from sa.model import AnalysisError, norm

M = "parser_v2"


def check_can_write(chk) -> None:
    repo = chk.repo
    c = spec("constants.json")["C10"]
    fi = repo.func(M, "can_write_pdb")
    chk.note_function(fi)
    tests = [s for s in ast.walk(fi.node) if isinstance(s, ast.If) and "not in df.columns" in norm(s.test)]
    want = {
        "id": ("pd.to_numeric(df['id'], errors='coerce').max()", c["max_serial"]),
        "auth_asym_id": ("df['auth_asym_id'].dropna().astype(str).str.len().max()", c["max_chain_len"]),
        "auth_seq_id": ("pd.to_numeric(df['auth_seq_id'], errors='coerce').max()", c["max_resseq"]),
    }
    seen = {}
    for t in tests:
        if not (isinstance(t.test, ast.BoolOp) and isinstance(t.test.op, ast.Or) and len(t.test.values) == 2):
            continue
        m = astq.match(t.test.values[0], "C_ not in df.columns")
        cmp_ = t.test.values[1]
        if m and isinstance(m["C_"], ast.Constant) and isinstance(cmp_, ast.Compare) and len(cmp_.ops) == 1:
            col = m["C_"].value
            seen[col] = (norm(cmp_.left), type(cmp_.ops[0]).__name__, Folder(repo, M).try_fold(cmp_.comparators[0]), [norm(s) for s in t.body])
    for col, (q, lim) in want.items():
        g = seen.get(col)
        ok = g is not None and g[0] == q and g[1] == "Gt" and g[2] == lim and g[3] == ["return False"]
        chk.expect(
            ok,
            "fit-test",
            fi.where,
            f"a table does not fit when max of {col} exceeds {lim}",
            f"the fit test for {col} is not `{q} > {lim} -> False`: a table that violates the PDB limit is reported as fitting (and then returned unchanged by fit_to_pdb)",
            K(fi, f"limit:{col}"),
            expected=[q, "Gt", lim],
            found=list(g[:3]) if g else None,
        )
    rets = [norm(r) for r in ast.walk(fi.node) if isinstance(r, ast.Return)]
    chk.expect(rets.count("return True") == 3 and rets.count("return False") == 4, "fit-test", fi.where, "PDB-format and empty tables fit; unknown formats do not", "the set of return paths of can_write_pdb changed", K(fi, "returns"), found=rets)
    # limits agree with the writer's widths
    lay = {}
    try:
        lay = c09.formatter_layout(_Quiet(chk))
    except Exception:
        lay = {}
    if lay:
        w = {k: b - a for k, (a, b) in lay.items()}
        ok = 10 ** w.get("serial", 0) - 1 == c["max_serial"] and 10 ** w.get("resSeq", 0) - 1 == c["max_resseq"] and w.get("chainID") == c["max_chain_len"]
        chk.expect(ok, "limits-vs-widths", fi.where, "limits 99999 / 9999 / 1 are the capacities of the writer's serial, resSeq and chain fields", "the limits of the fit test no longer match the field widths of the PDB writer", K(fi, "widths"), found=w)


class _Quiet:
    """Runs a sibling check without recording its obligations."""

    def __init__(self, chk):
        self.repo = chk.repo

    def __getattr__(self, name):
        return lambda *a, **k: True


def check_fit(chk) -> None:
    repo = chk.repo
    c = spec("constants.json")["C10"]
    fi = repo.func(M, "fit_to_pdb")
    chk.note_function(fi)
    fm = FlowMap(fi.node)
    f = Folder(repo, M)
    # exceptions
    raises = [r for r in astq.walk_no_nested(fi.node) if isinstance(r, ast.Raise)]
    bad = [norm(r) for r in raises if not (isinstance(r.exc, ast.Call) and norm(r.exc.func) == "ValueError")]
    chk.expect(not bad and len(raises) >= 5, "only-valueerror", fi.where, f"{len(raises)} explicit raises, all ValueError", f"fit_to_pdb raises something other than ValueError: {bad}", K(fi, "raises"), found=bad)
    # identity return before any copy
    first_ret = [s for s in fi.node.body if isinstance(s, ast.If) and norm(s.test) == "can_write_pdb(df)"]
    ok = len(first_ret) == 1 and [norm(s) for s in first_ret[0].body] == ["return df"]
    copies = [s for s in fi.node.body if isinstance(s, ast.Assign) and norm(s) == "df_fitted = df.copy()"]
    ok = ok and len(copies) == 1 and first_ret[0].lineno < copies[0].lineno
    chk.expect(ok, "fits-returns-same", fi.where, "a table that already fits is returned itself, before any copy", "a fitting table is not returned unchanged (`if can_write_pdb(df): return df` before the copy)", K(fi, "identity"))
    stores_to_df = [s for s in ast.walk(fi.node) if isinstance(s, (ast.Assign, ast.AugAssign)) and any(isinstance(t, ast.Subscript) and norm(t.value) in ("df", "df.loc") for t in (s.targets if isinstance(s, ast.Assign) else [s.target]))]
    inplace = [c2 for c2 in ast.walk(fi.node) if isinstance(c2, ast.Call) and isinstance(c2.func, ast.Attribute) and norm(c2.func.value) == "df" and any(k.arg == "inplace" for k in c2.keywords)]
    chk.expect(not stores_to_df and not inplace, "input-untouched", fi.where, "the input frame is never written", "fit_to_pdb writes into its argument", K(fi, "input-write"))
    # column selection per format
    sel = {}
    for s in ast.walk(fi.node):
        if isinstance(s, ast.If) and norm(s.test) in ("format_type == 'PDB'", "format_type == 'mmCIF'"):
            sel[norm(s.test)] = {norm(x.targets[0]): x.value.value for x in s.body if isinstance(x, ast.Assign) and isinstance(x.value, ast.Constant)}
    want_sel = {"format_type == 'PDB'": {"serial_col": "serial", "chain_col": "chainID", "resseq_col": "resSeq", "icode_col": "iCode"}, "format_type == 'mmCIF'": {"serial_col": "id", "chain_col": "auth_asym_id", "resseq_col": "auth_seq_id", "icode_col": "pdbx_PDB_ins_code"}}
    chk.expect(sel == want_sel, "column-selection", fi.where, "serial/chain/number/icode columns per format (author items for mmCIF)", "the columns fit_to_pdb renames are not (serial, chainID, resSeq, iCode) / (id, auth_asym_id, auth_seq_id, pdbx_PDB_ins_code)", K(fi, "columns"), found=sel)
    # feasibility
    consts = {nm: f.try_fold(astq.first_assign(fi.node, nm)) for nm in ("max_pdb_serial", "max_pdb_residue") if astq.first_assign(fi.node, nm) is not None}
    alpha = f.try_fold(astq.first_assign(fi.node, "available_chain_ids")) if astq.first_assign(fi.node, "available_chain_ids") is not None else None
    ok = consts == {"max_pdb_serial": c["max_serial"], "max_pdb_residue": c["max_resseq"]}
    chk.expect(ok, "limits", fi.where, "limits fold to 99999 / 9999", f"fit_to_pdb limits fold to {consts}", K(fi, "limits"), expected={"max_pdb_serial": c["max_serial"], "max_pdb_residue": c["max_resseq"]}, found=consts)
    ok = isinstance(alpha, list) and len(alpha) == c["max_chains"] and len(set(alpha)) == len(alpha) and all(isinstance(x, str) and len(x) == 1 for x in alpha)
    mc = astq.first_assign(fi.node, "max_pdb_chains")
    chk.expect(ok and mc is not None and norm(mc) == "len(available_chain_ids)", "chain-alphabet", fi.where, "62 distinct one-character chain ids; the chain limit is the alphabet size", "the chain alphabet is not 62 distinct single characters with max_pdb_chains = its length", K(fi, "alphabet"), found=len(alpha) if isinstance(alpha, list) else None)
    checks = {}
    for s in fi.node.body:
        if isinstance(s, ast.If) and s.body and isinstance(s.body[-1], ast.Raise) and isinstance(s.test, ast.Compare):
            checks[norm(s.test)] = True
    want_checks = ["total_atoms + num_chains > max_pdb_serial", "num_chains > max_pdb_chains", "max_residues_per_chain > max_pdb_residue"]
    missing = [w for w in want_checks if w not in checks]
    chk.expect(not missing, "feasibility", fi.where, "refuses when atoms + TER lines, chains or residues per chain exceed the limits", f"feasibility check(s) missing or altered: {missing}", K(fi, "feasibility"), found=sorted(checks))
    defs = {nm: norm(astq.first_assign(fi.node, nm)) if astq.first_assign(fi.node, nm) is not None else None for nm in ("unique_chains", "num_chains", "total_atoms")}
    chk.expect(defs == {"unique_chains": "df[chain_col].unique()", "num_chains": "len(unique_chains)", "total_atoms": "len(df)"}, "feasibility", fi.where, "counts: chains = distinct chain ids (order of appearance), atoms = rows", "the counted quantities changed", K(fi, "counts"), found=defs)
    rc = astq.first_assign(fi.node, "residue_counts")
    ok = rc is not None and flat(rc) == flat("check_df.groupby('chain').apply(lambda x: x[['resSeq', 'iCode']].drop_duplicates().shape[0])")
    mr = astq.first_assign(fi.node, "max_residues_per_chain")
    ok = ok and mr is not None and norm(mr) == "residue_counts.max() if not residue_counts.empty else 0"
    chk.expect(ok, "feasibility", fi.where, "residues per chain = distinct (number, insertion code) per chain", "residues per chain are not counted as distinct (resSeq, iCode) per chain", K(fi, "residue-count"))
    # index after the `> 62` guard
    cm = astq.first_assign(fi.node, "chain_mapping")
    ok = cm is not None and flat(cm) == flat("{orig_chain: available_chain_ids[i] for i, orig_chain in enumerate(unique_chains)}")
    guard = [s for s in fi.node.body if isinstance(s, ast.If) and norm(s.test) == "num_chains > max_pdb_chains"]
    ok = ok and guard and cm.lineno > guard[0].lineno
    chk.expect(ok, "chain-map", fi.where, "chains are renamed by enumerating the distinct ids into the alphabet (one-to-one), after the size check", "the chain map is not {id: alphabet[i] for i, id in enumerate(unique ids)} built after the size check", K(fi, "chain-map"))
    ap = [s for s in fi.node.body if isinstance(s, ast.Assign) and norm(s) == "df_fitted[chain_col] = df_fitted[chain_col].map(chain_mapping)"]
    chk.expect(len(ap) == 1, "chain-map", fi.where, "the map is applied to every row", "the chain map is not applied to the whole chain column", K(fi, "chain-apply"))
    # residue renumbering loop: closed body
    rl = [l for l in fi.node.body if isinstance(l, ast.For) and norm(l.iter) == "df_fitted.groupby(chain_col)"]
    ok = False
    found = None
    if len(rl) == 1:
        body = [flat(s) for s in rl[0].body]
        found = [norm(s)[:80] for s in rl[0].body]
        want = [
            flat("original_residues = group[[resseq_col, icode_col]].drop_duplicates()"),
            flat("residue_mapping = {tuple(res): i + 1 for i, res in enumerate(original_residues.itertuples(index=False))}"),
            flat("all_new_res_maps[new_chain_id] = residue_mapping"),
            flat("res_indices = group.set_index([resseq_col, icode_col]).index"),
            flat("df_fitted.loc[group.index, new_resseq_col] = res_indices.map(residue_mapping)"),
        ]
        ok = body == want
    chk.expect(ok, "residue-map", fi.site(rl[0]) if rl else fi.where, "every chain is renumbered 1..n over its distinct (number, insertion code) in order of appearance, for all of its rows", "the residue renumbering loop changed: every chain must map distinct (resSeq, iCode) to 1..n and apply it to all rows (a skipped chain collides with the cleared insertion codes)", K(fi, "residue-map"), found=found)
    after = [norm(s) for s in fi.node.body if isinstance(s, ast.Assign) and norm(s.targets[0]) in ("df_fitted[resseq_col]", "df_fitted[icode_col]")]
    chk.expect(after[:2] == ["df_fitted[resseq_col] = df_fitted[new_resseq_col]", "df_fitted[icode_col] = None"], "residue-map", fi.where, "new numbers replace the old ones and insertion codes are cleared together", "new residue numbers / cleared insertion codes are not installed together after the loop", K(fi, "residue-install"), found=after)
    # optional icode column guarded
    g = [s for s in fi.node.body if isinstance(s, ast.If) and norm(s.test) == "icode_col not in df_fitted.columns"]
    ok = len(g) == 1 and [norm(s) for s in g[0].body] == ["df_fitted[icode_col] = None"] and (not rl or g[0].lineno < rl[0].lineno)
    uses_guarded = "if icode_col in df.columns" in norm(fi.node)
    chk.expect(ok and uses_guarded, "column-guard", fi.where, "the optional insertion-code column is tested in the feasibility check and created on the copy before it is indexed", "icode_col is indexed without being tested/created: KeyError for tables without the optional column", K(fi, "icode-guard"))
    # serial renumbering
    sl = [l for l in fi.node.body if isinstance(l, ast.For) and norm(l.iter) == "df_fitted.iterrows()"]
    ok = False
    if len(sl) == 1:
        t = [flat(s) for s in sl[0].body]
        ok = t == [
            flat("current_chain_id = row[chain_col]"),
            flat("if last_chain_id_for_serial is not None and current_chain_id != last_chain_id_for_serial:\n    current_serial += 1"),
            flat("current_serial += 1"),
            flat("if current_serial > max_pdb_serial:\n    raise ValueError('Serial number exceeded PDB limit during renumbering.')"),
            flat("df_fitted.loc[index, new_serial_col] = current_serial"),
            flat("last_chain_id_for_serial = current_chain_id"),
        ]
    srt = [s for s in fi.node.body if isinstance(s, ast.Expr) and norm(s.value) == "df_fitted.sort_index(inplace=True)"]
    chk.expect(ok and len(srt) == 1 and srt[0].lineno < sl[0].lineno, "serial-renumber", fi.where, "serials run 1,2,.. in original row order, leaving one number for the TER of every chain change", "serial renumbering changed (row order, +1 per atom, +1 per chain change, limit check)", K(fi, "serial"))
    # frame condition on column stores
    allowed_vars = {"chain_col", "new_resseq_col", "resseq_col", "icode_col", "new_serial_col", "serial_col"}
    n_st = 0
    for s in ast.walk(fi.node):
        tg = s.targets if isinstance(s, ast.Assign) else ([s.target] if isinstance(s, ast.AugAssign) else [])
        for t in tg:
            if isinstance(t, ast.Subscript) and norm(t.value) in ("df_fitted", "df_fitted.loc"):
                key = t.slice.elts[1] if isinstance(t.slice, ast.Tuple) and len(t.slice.elts) == 2 else t.slice
                kn = norm(key)
                n_st += 1
                if kn in allowed_vars:
                    continue
                if kn == "col":
                    v = norm(s.value)
                    selfmap = "df_fitted[col]" in v and not [x for x in ast.walk(s.value) if isinstance(x, ast.Subscript) and norm(x.value) == "df_fitted" and norm(x.slice) != "col"]
                    create = v == "pd.Series(dtype='object')" and any(norm(g2.test) == "col not in df_fitted.columns" and g2.polarity for g2 in facts(fm.of(s).guards))
                    if selfmap or create:
                        continue
                chk.violation("frame-condition", fi.site(s), f"`{norm(s)[:80]}` stores into a column other than serial/chain/number/insertion code (or is not a type conversion of the column onto itself): data of another field are overwritten", K(fi, f"store:{kn}"))
    chk.ok("frame-condition", fi.where, f"{n_st} column stores: only serial, chain, residue number, insertion code and two temporaries are rewritten; other columns only converted onto themselves or created when absent")
    drops = sorted(norm(c2) for c2 in astq.calls(fi.node, "drop"))
    chk.expect(drops == ["df_fitted.drop(columns=[new_resseq_col], inplace=True)", "df_fitted.drop(columns=[new_serial_col], inplace=True)"], "frame-condition", fi.where, "only the two temporaries are dropped", f"columns dropped: {drops}", K(fi, "drops"))
    # dtype typestate: fillna on a bare column only after add_categories / astype(object)
    for c2 in astq.calls(fi.node, "fillna"):
        recv = c2.func.value
        if isinstance(recv, ast.Call) and astq.callee_name(recv) == "astype":
            chk.ok("dtype-typestate", fi.site(c2), f"`{norm(recv)[:50]}` is converted before fillna")
            continue
        st = fm.stmt_of(c2)
        fs = facts(fm.of(st).guards)
        blk_ok = any(norm(g2.test) == "has_nans" and g2.polarity for g2 in fs) and "add_categories" in norm(fi.node)
        chk.expect(blk_ok, "dtype-typestate", fi.site(c2), "fillna on a categorical column happens after the new category was added", f"`{norm(c2)[:70]}` fills a possibly categorical column with a new value without astype(object)/add_categories: TypeError", K(fi, f"fillna:{norm(recv)[:40]}"))
    # rename map
    rm = astq.first_assign(fi.node, "rename_map")
    base = f.try_fold(rm) if rm is not None else None
    if not isinstance(base, dict):
        chk.error("rename-map", fi.where, "rename_map does not fold to a dict literal")
        return
    vals = list(base.values())
    dup = sorted({v for v in vals if vals.count(v) > 1})
    chk.expect(not dup, "rename-injective", fi.where, "no two source columns are renamed to the same PDB column", f"rename_map sends two columns to {dup}: duplicate column names break every later column access", K(fi, "rename-dup"), found=dup)
    cond = {}
    for s in ast.walk(fi.node):
        if isinstance(s, ast.Assign) and isinstance(s.targets[0], ast.Subscript) and norm(s.targets[0].value) == "rename_map":
            k, v = f.try_fold(s.targets[0].slice), f.try_fold(s.value)
            gs = [norm(g2.test) for g2 in facts(fm.of(s).guards) if g2.polarity]
            cond[k] = (v, gs)
            rivals = [kk for kk, vv in base.items() if vv == v]
            ok = all(f"'{r}' not in df_fitted.columns" in gs for r in rivals)
            chk.expect(ok, "rename-injective", fi.site(s), f"{k} -> {v} only when {rivals} is absent", f"conditional rename {k} -> {v} is not guarded by the absence of {rivals}", K(fi, f"rename-cond:{k}"))
    # coverage against write_pdb's mmCIF preferences
    wp = repo.func(M, "write_pdb")
    cif = c09.extract_atom_data(wp, "mmCIF")
    alias = {"record_name": "record_type"}
    miss = {}
    for k, srcs in cif.items():
        fld = alias.get(k, k)
        for i, item in enumerate(srcs):
            tgt = base.get(item) if item in base else (cond.get(item, (None,))[0])
            if item == fld:
                continue  # same name in both formats (occupancy)
            if i == 0 and tgt != fld:
                miss[item] = [fld, tgt]  # the item write_pdb prefers must be renamed to the field
            if i > 0 and tgt is not None and tgt != fld:
                miss[item] = [fld, tgt]  # a fallback item, when renamed at all, must go to the same field
    chk.expect(not miss, "rename-coverage", fi.where, "every mmCIF item write_pdb reads a field from is renamed to that field", "an mmCIF item that write_pdb reads is not renamed to its PDB column: the fitted table gets an empty column and the data are lost", K(fi, "rename-coverage"), found=miss)
    ess = None
    for s in ast.walk(fi.node):
        if isinstance(s, ast.Assign) and norm(s.targets[0]) == "pdb_essential_cols":
            ess = f.try_fold(s.value)
    chk.expect(ess == list(spec("pdb_columns.json")["atom"].keys())[:0] + ["record_type", "serial", "name", "altLoc", "resName", "chainID", "resSeq", "iCode", "x", "y", "z", "occupancy", "tempFactor", "element", "charge", "model"], "essential-columns", fi.where, "the 16 PDB columns exist in the fitted table", "the list of essential PDB columns changed", K(fi, "essential"))
    fmt = [s for s in fi.node.body if isinstance(s, ast.Assign) and norm(s) == "df_fitted.attrs['format'] = 'PDB'"]
    rets = [r for r in fi.node.body if isinstance(r, ast.Return)]
    chk.expect(len(fmt) == 1 and len(rets) == 1 and norm(rets[0].value) == "df_fitted", "result", fi.where, "the fitted copy is tagged PDB and returned", "the fitted table is not tagged format=PDB and returned", K(fi, "result"))


def run(chk) -> None:
    chk.explanation = (
        "Static rules on parser_v2.can_write_pdb and fit_to_pdb: each limit is tied to the quantity it bounds (numeric maximum of the serial/number column, maximal chain-id length), to its folded constant and to the "
        "writer's field width; ValueError is the only raise; identity return precedes the copy; the input frame is never written; feasibility checks; 62-character alphabet indexed only after the size check; chain and "
        "residue maps built by enumerate over distinct values and applied to all rows (closed loop body); column stores restricted to the renamed fields (frame condition); fillna on categorical data only after "
        "conversion; rename map injective on co-occurring columns and covering every item write_pdb reads; optional insertion-code column guarded."
    )
    chk.trusted = ["CPython ast", "pandas semantics (groupby order, map, drop_duplicates, dtype coercion)"]
    chk.assumptions = ["everything pandas does at run time is outside the decision: the behavioural claim as a whole is not decided"]
    check_can_write(chk)
    check_fit(chk)
    for rule, n in (("fit-test", 4), ("feasibility", 3), ("residue-map", 2), ("chain-map", 2), ("rename-injective", 3), ("rename-coverage", 1), ("dtype-typestate", 3), ("frame-condition", 2)):
        chk.floor(rule, n)


MANIFEST_ENTRY = {
    "text": "Static decision on the current source of the structural conditions of a correct fit: limits bound the right quantities and equal the writer's capacities, clean refusal by ValueError only, identity on fitting tables, "
    "one-to-one chain/residue maps applied to every row of every chain, frame condition on column stores, no fillna on categorical data, injective and complete rename map, guarded optional column. The renaming branch never "
    "runs in the test suite; these rules cover it for all tables as far as the shape of the code determines it.",
    "note": "Trusted: pandas run-time semantics (groupby order, NaN keys in maps, coercions) - therefore the behavioural claim as a whole is not decided, only these necessary conditions.",
    "technique": "static analysis: limit/quantity/width agreement, closed-world loop-body rule, frame condition on stores, dtype typestate, sibling agreement of rename map and writer preferences",
}
