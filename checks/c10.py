"""C10 - fitting to PDB limits is a structure-preserving renaming or a clean refusal.

Decided on parser_v2.can_write_pdb / fit_to_pdb: the limits and the quantities they are applied to, agreement of the
limits with the writer's field widths, ValueError as the only explicit exception, identity return when the table
fits, feasibility checks, chain alphabet, one-to-one chain and residue maps applied to every row, frame condition on
column stores, dtype typestate of category columns, injective and complete rename map, guarded optional column.
"""
from __future__ import annotations

import ast
from typing import Any, Dict, List, Optional, Set

from checks import c09
from checks.c03 import K, spec
from checks.c08 import flat
from sa import astq
from sa.consteval import Folder
from sa.flow import FlowMap, facts
from sa.model import AnalysisError, norm

M = "parser_v2"


def check_can_write(chk) -> None:
    repo = chk.repo
    c = spec("constants.json")["C10"]
    fi = repo.func(M, "can_write_pdb")
    chk.note_function(fi)
    from sa import paths as PT
    from sa.defuse import Inliner

    # the fit test evaluated on one table per class; the reading of its paths below is the fallback
    evaluated = False
    try:
        from checks import c10e

        evaluated = c10e.check_can_write_eval(chk)
    except AnalysisError:
        raise
    except Exception as ex:
        chk.ok("fit-test-eval", fi.where, f"evaluation of can_write_pdb failed internally ({type(ex).__name__}: {str(ex)[:60]}): the reading of its paths decides")
    if evaluated:
        _limits_vs_widths(chk, fi, c)
        return
    # normalisation: a loop over a constant table of (item, predicate) rows is unrolled, predicates that are lambdas or
    # products of closure factories (`def f(limit): return lambda column: ...`) are beta-reduced at their application
    import copy as _copy

    from sa.normalize import beta_block, unroll_tables

    mod = repo.module(M)
    funcs = {q: g.node for q, g in mod.funcs.items() if "." not in q}
    fn = _copy.copy(fi.node)
    try:
        from sa.normalize import inline_local_lambdas

        src = inline_local_lambdas(fi.node)  # a nested single-return helper (`def numeric_max(column): return ...`) is read at its uses
        fn = _copy.copy(src)
        fn.body = beta_block(unroll_tables(list(src.body), mod.consts), funcs, mod.consts)
        ast.fix_missing_locations(fn)
    except Exception:
        fn = fi.node
    inl = Inliner(fn)
    fmx = FlowMap(fn)
    want = {
        "id": ("pd.to_numeric(df['id'], errors='coerce').max()", c["max_serial"]),
        "auth_asym_id": ("df['auth_asym_id'].dropna().astype(str).str.len().max()", c["max_chain_len"]),
        "auth_seq_id": ("pd.to_numeric(df['auth_seq_id'], errors='coerce').max()", c["max_resseq"]),
    }

    def atom_of_test(node: ast.AST):
        """('missing', col) | ('over', col, op, limit) | ('format', name) | ('empty',) | None"""
        e = inl.inline(node, fmx.stmt_of(node), stop=("df", "format_type"))
        t = norm(e)
        m = astq.match(e, "C_ not in df.columns")
        if m and isinstance(m["C_"], ast.Constant):
            return ("missing", m["C_"].value, True)
        m = astq.match(e, "C_ in df.columns")
        if m and isinstance(m["C_"], ast.Constant):
            return ("missing", m["C_"].value, False)
        if isinstance(e, ast.Compare) and len(e.ops) == 1:
            lim = Folder(repo, M).try_fold(e.comparators[0])
            for col, (q, _) in want.items():
                if norm(e.left) == q and lim is not None:
                    return ("over", col, type(e.ops[0]).__name__, lim)
            for col, (q, _) in want.items():
                if lim is not None and any(norm(x) == q for x in ast.walk(e.left)):
                    return ("skewed", col, norm(e.left), lim)  # the column maximum enters the comparison, but not alone
            if norm(e.left) == "format_type" and isinstance(e.comparators[0], ast.Constant):
                return ("format", e.comparators[0].value, isinstance(e.ops[0], ast.Eq))
            if isinstance(lim, (int, float)) and not isinstance(lim, bool):
                return ("other", t)
        if t in ("df.empty", "len(df) == 0"):
            return ("empty",)
        return None

    results = []
    unknown = []
    for events, exit_ in PT.paths(fn.body):
        if exit_ != "return":
            unknown.append("a path falls off the end")
            continue
        ret = events[-1][1].value
        rv = ret.value if isinstance(ret, ast.Constant) else None
        dec = []
        for ev in events:
            if ev[0] == "test":
                a = atom_of_test(ev[3])
                if a is None:
                    unknown.append(ev[1])
                dec.append((a, ev[2]))
        results.append((dec, rv, events[-1][1]))
    if unknown:
        chk.error("fit-test", fi.where, f"conditions of can_write_pdb not understood: {sorted(set(unknown))[:3]}")
    else:
        def fmt_of(dec):
            for a, v in dec:
                if a and a[0] == "format" and (v == a[2]):
                    return a[1]
            return None

        def feasible(dec):
            # `c in df.columns` and `c not in df.columns` are two texts for one fact: a path that takes them both ways does not exist
            seen = {}
            for a, v in dec:
                if a and a[0] == "missing":
                    miss = v == a[2]
                    if seen.setdefault(a[1], miss) != miss:
                        return False
            return True

        cif = [(d, rv, st) for d, rv, st in results if fmt_of(d) == "mmCIF" and feasible(d) and not any(a and a[0] == "empty" and v for a, v in d)]
        for col, (q, lim) in want.items():
            # some path must test the limit with `>` and the pinned constant
            overs = [(a, v) for d, rv, st in cif for a, v in d if a and a[0] == "over" and a[1] == col]
            ops = {(a[2], a[3]) for a, v in overs}
            skew = sorted({(a[2], a[3]) for d, rv, st in cif for a, v in d if a and a[0] == "skewed" and a[1] == col})
            if skew and not overs:
                chk.violation("fit-test", fi.where, f"the fit test for {col} compares `{skew[0][0]}` with {skew[0][1]}, not the maximum of {col} itself: the writer's field holds every value up to {lim}, so a table whose values all fit is reported as not fitting (fit_to_pdb then renumbers serials, chains and residues of a table it has to return unchanged) or one that does not fit as fitting", K(fi, f"limit:{col}"), found=list(skew[0]))
                continue
            unread = [a2[1] for d2, rv2, st2 in cif for a2, v2 in d2 if a2 and a2[0] == "other" and f"'{col}'" in a2[1]]
            if not overs and unread:
                # a comparison that involves the column is there, in a form this reading does not understand (a helper, another way of
                # taking the maximum): the closed-world reading abstains
                chk.error("fit-test", fi.where, f"the fit test for {col} is `{unread[0][:80]}`: not the pinned form and not evaluable on tables - whether it bounds the maximum of {col} is undecided")
                continue
            if not overs:
                chk.violation("fit-test", fi.where, f"no path of can_write_pdb compares the maximum of {col} with its limit: a table that violates the PDB limit is reported as fitting (and then returned unchanged by fit_to_pdb)", K(fi, f"limit:{col}"))
                continue
            chk.expect(ops == {("Gt", lim)}, "fit-test", fi.where, f"a table does not fit when max of {col} exceeds {lim}", f"the fit test for {col} compares with {sorted(ops)}, the PDB limit is `> {lim}`: a table that violates the limit is reported as fitting (and then returned unchanged by fit_to_pdb)", K(fi, f"limit:{col}"), expected=["Gt", lim], found=sorted(ops))
        bad_paths = []
        for d, rv, st in cif:
            fails = any(a and ((a[0] == "missing" and v == a[2] and a[1] in want) or (a[0] in ("over", "skewed") and v)) for a, v in d)
            if fails and rv is not False:
                bad_paths.append((st, "a table with a missing column or a value over the limit is reported as fitting"))
            if not fails and rv is not True:
                covered = {a[1] for a, v in d if a and a[0] in ("over", "skewed")}
                if covered == set(want):
                    bad_paths.append((st, "a table that passes all three limits is reported as not fitting"))
        for st, msg in bad_paths[:2]:
            chk.violation("fit-test", fi.site(st), msg, K(fi, "fit-paths"))
        if not bad_paths:
            chk.ok("fit-test", fi.where, f"{len(cif)} mmCIF paths: False exactly when a needed column is missing or a limit is exceeded")
        pdbp = [(d, rv) for d, rv, st in results if fmt_of(d) == "PDB"]
        chk.expect(bool(pdbp) and all(rv is True for d, rv in pdbp), "fit-test", fi.where, "PDB-format tables fit", "a PDB-format table is not reported as fitting", K(fi, "returns-pdb"))
    _limits_vs_widths(chk, fi, c)


def _limits_vs_widths(chk, fi, c) -> None:
    # limits agree with the writer's widths
    lay = {}
    try:
        lay = c09.formatter_layout(_Quiet(chk))
    except Exception:
        lay = {}
    if lay:
        w = {k: b - a for k, (a, b) in lay.items()}
        ok = 10 ** w.get("serial", 0) - 1 == c["max_serial"] and 10 ** w.get("resSeq", 0) - 1 == c["max_resseq"] and w.get("chainID") == c["max_chain_len"]
        chk.expect(ok, "limits-vs-widths", fi.where, "limits 99999 / 9999 / 1 are the capacities of the writer's serial, resSeq and chain fields", "the limits of the fit test no longer match the field widths of the PDB writer", K(fi, "widths"), found=w)


def _alias(node: ast.AST, scope: ast.AST) -> ast.AST:
    from checks.c08 import _resolve_aliases

    return _resolve_aliases(node, scope, keep=("last_chain_id_for_serial", "current_serial"))


class _Quiet:
    """Runs a sibling check without recording its obligations."""

    def __init__(self, chk):
        self.repo = chk.repo

    def __getattr__(self, name):
        return lambda *a, **k: True


class _Skip:
    """The check as the pinned-form pass sees it after fit_to_pdb was evaluated: a *form* rule that evaluation decided is not recorded
    (its pinned reading is only a fallback); an *evidence* rule (chk.robust: a fact read from every store / path whatever the shape)
    still records what it finds - representatives cannot see everything, e.g. a store of a constant that happens to equal their
    value - but its 'idiom not found' is dropped, since the behaviour was decided on the current code."""

    def __init__(self, chk, decided):
        self._chk = chk
        self._decided = set(decided) | {r + "-form" for r in decided}
        self._evidence = set(chk.robust)
        self.repo, self.robust = chk.repo, chk.robust

    def __getattr__(self, name):
        return getattr(self._chk, name)

    def _form(self, rule) -> bool:
        return rule in self._decided and rule not in self._evidence

    def ok(self, rule, *a, **k):
        if not self._form(rule):
            self._chk.ok(rule, *a, **k)

    def error(self, rule, *a, **k):
        if rule not in self._decided:
            self._chk.error(rule, *a, **k)

    def violation(self, rule, *a, **k):
        if not self._form(rule):
            self._chk.violation(rule, *a, **k)

    def expect(self, cond, rule, *a, **k):
        if not self._form(rule):
            return self._chk.expect(cond, rule, *a, **k)
        return bool(cond)


def check_fit(chk) -> None:
    repo = chk.repo
    c = spec("constants.json")["C10"]
    fi = repo.func(M, "fit_to_pdb")
    chk.note_function(fi)
    fm = FlowMap(fi.node)
    f = Folder(repo, M)
    from checks import c10e

    def _try(f, *a):
        try:
            return f(chk, fi, *a)
        except AnalysisError:
            raise
        except Exception as ex:
            chk.ok("fit-eval", fi.where, f"{f.__name__} failed internally ({type(ex).__name__}: {str(ex)[:60]}): the pinned-form rule decides")
            return False

    # fit_to_pdb interpreted as a whole on representative tables (pandas objects: sa/frame.py) and its refusals on small tables; the
    # pinned-form versions of the rules decided there are only fallbacks and are not recorded
    decided = _try(c10e.check_fit_eval) or set()
    feas = bool(_try(c10e.check_feasibility_eval))  # which quantity meets which limit: evaluated; the pinned counting idiom is then not read
    if feas:
        decided = set(decided) | {"feasibility"}
    real_chk, chk = chk, (_Skip(chk, decided) if decided else chk)
    # exceptions
    raises = [r for r in astq.walk_no_nested(fi.node) if isinstance(r, ast.Raise)]
    bad = [norm(r) for r in raises if not (isinstance(r.exc, ast.Call) and norm(r.exc.func) == "ValueError")]
    chk.expect(not bad and len(raises) >= 5, "only-valueerror", fi.where, f"{len(raises)} explicit raises, all ValueError", f"fit_to_pdb raises something other than ValueError: {bad}", K(fi, "raises"), found=bad)
    # identity return before any copy
    first_ret = [s for s in fi.node.body if isinstance(s, ast.If) and norm(s.test) == "can_write_pdb(df)"]
    ok = len(first_ret) == 1 and [norm(s) for s in first_ret[0].body] == ["return df"]
    copies = [s for s in fi.node.body if isinstance(s, ast.Assign) and norm(s) == "df_fitted = df.copy()"]
    ok = ok and len(copies) == 1 and first_ret[0].lineno < copies[0].lineno
    chk.expect(ok, "fits-returns-same", fi.where, "a table that already fits is returned itself, before any copy", "a fitting table is not returned unchanged (`if can_write_pdb(df): return df` before the copy)", K(fi, "identity"))
    stores_to_df = [s for s in ast.walk(fi.node) if isinstance(s, (ast.Assign, ast.AugAssign)) and any(isinstance(t, ast.Subscript) and norm(t.value) in ("df", "df.loc") for t in (s.targets if isinstance(s, ast.Assign) else [s.target]))]
    inplace = [c2 for c2 in ast.walk(fi.node) if isinstance(c2, ast.Call) and isinstance(c2.func, ast.Attribute) and norm(c2.func.value) == "df" and any(k.arg == "inplace" for k in c2.keywords)]
    chk.expect(not stores_to_df and not inplace, "input-untouched", fi.where, "the input frame is never written", "fit_to_pdb writes into its argument", K(fi, "input-write"))
    # column selection per format
    chk = real_chk

    if not _try(c10e.check_column_selection_eval):
        _column_selection_form(chk, fi)
    _check_fit_rest(_Skip(chk, decided) if decided else chk, fi, fm, f, c, _try, feasibility_evaluated=feas)


def _enclosing_loop(fn: ast.AST, node: ast.AST) -> Optional[ast.For]:
    best = None
    for l in ast.walk(fn):
        if isinstance(l, ast.For) and any(n is node for b in l.body for n in ast.walk(b)):
            best = l  # ast.walk is breadth-first: the last hit is the innermost
    return best


def _column_sources(value: ast.AST, scope: ast.For) -> Set[str]:
    """Keys k of every `df_fitted[k]` the value is computed from, following local names through their assignments inside `scope`
    ('?' for a data source that is not a column of the fitted frame: another frame, a call result that is not a conversion of those)."""
    seen: Set[str] = set()
    out: Set[str] = set()
    todo = [value]
    assigns: Dict[str, List[ast.AST]] = {}
    for st in ast.walk(scope):
        if isinstance(st, ast.Assign) and len(st.targets) == 1 and isinstance(st.targets[0], ast.Name):
            assigns.setdefault(st.targets[0].id, []).append(st.value)
    while todo:
        e = todo.pop()
        for n in ast.walk(e):
            if isinstance(n, ast.Subscript) and isinstance(n.value, ast.Name) and n.value.id in ("df_fitted", "df"):
                out.add(norm(n.slice) if n.value.id == "df_fitted" else "?")
            elif isinstance(n, ast.Name) and isinstance(n.ctx, ast.Load) and n.id in assigns and n.id not in seen:
                seen.add(n.id)
                todo.extend(assigns[n.id])
    return out


def _residue_count(chk, fi) -> None:
    """Residues per chain = number of distinct (number, insertion code) pairs per chain; its maximum (0 for no chains) is what the limit is applied to.
    Read after normalisation: nested single-return functions as lambdas, `x = 0; if t: x = v` as a conditional expression, names inlined."""
    import copy as _copy

    from sa.defuse import Inliner
    from sa.normalize import alpha, inline_local_lambdas, merge_default_override

    try:
        fn = inline_local_lambdas(fi.node)
        if fn is fi.node:
            fn = _copy.copy(fi.node)
        fn.body = merge_default_override(fn.body)
        inl = Inliner(fn)
    except Exception as ex:
        chk.error("feasibility", fi.where, f"residue count not readable ({type(ex).__name__})")
        return
    use = [s2 for s2 in fn.body if isinstance(s2, ast.If) and s2.body and isinstance(s2.body[-1], ast.Raise) and isinstance(s2.test, ast.Compare) and "residue" in norm(s2.test)]
    if len(use) != 1 or len(use[0].test.ops) != 1:
        chk.error("feasibility", fi.where, "the refusal `residues per chain > limit` was not found")
        return
    e = inl.inline(use[0].test.left, use[0], stop=("df", "chain_col", "resseq_col", "icode_col"))
    # e: <counts>.max() if not <counts>.empty else 0   (either orientation)
    counts = None
    if isinstance(e, ast.IfExp):
        t, a, b = e.test, e.body, e.orelse
        if isinstance(t, ast.UnaryOp) and isinstance(t.op, ast.Not):
            t, a, b = t.operand, a, b
        else:
            a, b = b, a
        m = astq.match(a, "C_.max()")
        if m and norm(t) == norm(m["C_"]) + ".empty" and isinstance(b, ast.Constant) and b.value == 0:
            counts = m["C_"]
    else:
        m = astq.match(e, "C_.max()")
        if m:
            counts = m["C_"]  # no empty case: the maximum of no counts is NaN, which compares False with the limit like 0 does
    if counts is None:
        chk.error("feasibility", fi.site(use[0]), f"the quantity compared with the residue limit, `{norm(e)[:90]}`, is not the maximum of per-chain counts (0 when there are none)")
        return
    m = astq.match(counts, "T_.groupby(G_).apply(F_)")
    if not m or not isinstance(m["F_"], ast.Lambda) or len(m["F_"].args.args) != 1:
        chk.error("feasibility", fi.site(use[0]), f"per-chain counts `{norm(counts)[:90]}` are not `<table>.groupby(<chain>).apply(<count function>)`")
        return
    lam = alpha(m["F_"], ["x"])
    mm = astq.match(lam.body, "x[L_].drop_duplicates().shape[0]") or astq.match(lam.body, "len(x[L_].drop_duplicates())") or astq.match(lam.body, "x[L_].drop_duplicates().shape[0]")
    table = m["T_"]
    tm = astq.match(table, "pd.DataFrame(D_)") or astq.match(table, "pandas.DataFrame(D_)")
    if not mm or not tm or not isinstance(tm["D_"], ast.Dict) or not isinstance(mm["L_"], ast.List):
        if mm is None and tm is not None:
            chk.violation("feasibility", fi.site(use[0]), f"residues per chain are counted by `{norm(lam.body)[:80]}`, not as the number of distinct (number, insertion code) pairs of the chain", K(fi, "residue-count"))
        else:
            chk.error("feasibility", fi.site(use[0]), f"count function `{norm(lam.body)[:80]}` / table `{norm(table)[:60]}` not understood")
        return
    src = {}
    for k2, v2 in zip(tm["D_"].keys, tm["D_"].values):
        if isinstance(k2, ast.Constant):
            names = {n.id for n in ast.walk(v2) if isinstance(n, ast.Name)}
            src[k2.value] = "chain" if "chain_col" in names else "number" if "resseq_col" in names else "icode" if "icode_col" in names else "?"
    g = m["G_"].value if isinstance(m["G_"], ast.Constant) else None
    cols = [x.value for x in mm["L_"].elts if isinstance(x, ast.Constant)]
    roles = sorted(src.get(c2, "?") for c2 in cols)
    ok = src.get(g) == "chain" and roles == ["icode", "number"]
    chk.expect(ok, "feasibility", fi.site(use[0]), "residues per chain = distinct (number, insertion code) per chain; the limit is applied to the largest count (0 without chains)", f"residues per chain are counted over the columns {roles} grouped by `{src.get(g)}`, not as distinct (number, insertion code) per chain", K(fi, "residue-count"), found={"group": src.get(g), "distinct over": roles})


def _column_selection_form(chk, fi) -> None:
    sel = {}
    for s in ast.walk(fi.node):
        if isinstance(s, ast.If) and norm(s.test) in ("format_type == 'PDB'", "format_type == 'mmCIF'"):
            sel[norm(s.test)] = {norm(x.targets[0]): x.value.value for x in s.body if isinstance(x, ast.Assign) and isinstance(x.value, ast.Constant)}
    want_sel = {"format_type == 'PDB'": {"serial_col": "serial", "chain_col": "chainID", "resseq_col": "resSeq", "icode_col": "iCode"}, "format_type == 'mmCIF'": {"serial_col": "id", "chain_col": "auth_asym_id", "resseq_col": "auth_seq_id", "icode_col": "pdbx_PDB_ins_code"}}
    chk.expect(sel == want_sel, "column-selection", fi.where, "serial/chain/number/icode columns per format (author items for mmCIF)", "the columns fit_to_pdb renames are not (serial, chainID, resSeq, iCode) / (id, auth_asym_id, auth_seq_id, pdbx_PDB_ins_code)", K(fi, "columns"), found=sel)


def _check_fit_rest(chk, fi, fm, f, c, _try, feasibility_evaluated: bool = False) -> None:
    from checks import c10e

    repo = chk.repo
    # feasibility
    consts = {nm: f.try_fold(astq.first_assign(fi.node, nm)) for nm in ("max_pdb_serial", "max_pdb_residue") if astq.first_assign(fi.node, nm) is not None}
    alpha = f.try_fold(astq.first_assign(fi.node, "available_chain_ids")) if astq.first_assign(fi.node, "available_chain_ids") is not None else None
    ok = consts == {"max_pdb_serial": c["max_serial"], "max_pdb_residue": c["max_resseq"]}
    # when the refusals were evaluated the limits are the values they compare with (recorded there); the named locals are only one
    # way of writing them (module constants, literals in place are others)
    (chk.expect if not feasibility_evaluated else (lambda *a, **k: None))(ok, "limits", fi.where, "limits fold to 99999 / 9999", f"fit_to_pdb limits fold to {consts}", K(fi, "limits"), expected={"max_pdb_serial": c["max_serial"], "max_pdb_residue": c["max_resseq"]}, found=consts)
    ok = isinstance(alpha, list) and len(alpha) == c["max_chains"] and len(set(alpha)) == len(alpha) and all(isinstance(x, str) and len(x) == 1 for x in alpha)
    mc = astq.first_assign(fi.node, "max_pdb_chains")
    alphabet_evaluated = "chain-alphabet" in getattr(chk, "_decided", ())
    (chk.expect if not alphabet_evaluated else (lambda *a, **k: None))(ok and mc is not None and norm(mc) == "len(available_chain_ids)", "chain-alphabet", fi.where, "62 distinct one-character chain ids; the chain limit is the alphabet size", "the chain alphabet is not 62 distinct single characters with max_pdb_chains = its length", K(fi, "alphabet"), found=len(alpha) if isinstance(alpha, list) else None)
    from sa.defuse import Inliner

    inl = Inliner(fi.node)
    if not feasibility_evaluated:
        _feasibility_form(chk, fi, inl)
    _check_fit_rest2(chk, fi, fm, f, c, _try, inl)


def _feasibility_form(chk, fi, inl) -> None:
    """Pinned-form reading of the three refusals (fallback when they are not evaluable on small tables)."""
    checks = {}
    for s in fi.node.body:
        if isinstance(s, ast.If) and s.body and isinstance(s.body[-1], ast.Raise) and isinstance(s.test, ast.Compare):
            checks[norm(inl.inline(s.test, s, stop=("total_atoms", "num_chains", "max_pdb_serial", "max_pdb_chains", "max_residues_per_chain", "max_pdb_residue")))] = True
    want_checks = {"total_atoms + num_chains > max_pdb_serial": ["num_chains + total_atoms > max_pdb_serial"], "num_chains > max_pdb_chains": [], "max_residues_per_chain > max_pdb_residue": []}
    missing = [w for w, alts in want_checks.items() if w not in checks and not any(a in checks for a in alts)]
    weaker = [t for t in checks if t in ("total_atoms > max_pdb_serial", "total_atoms + num_chains >= max_pdb_serial")]
    if weaker:
        chk.violation("feasibility", fi.where, f"the serial feasibility check is `{weaker[0]}`: the TER line of every chain also takes a serial number, so atoms + chains must not exceed the limit", K(fi, "feasibility"), found=sorted(checks))
    else:
        chk.expect(not missing, "feasibility-form", fi.where, "refuses when atoms + TER lines, chains or residues per chain exceed the limits", f"feasibility check(s) missing or altered: {missing}", K(fi, "feasibility"), found=sorted(checks))
        if not missing:
            chk.ok("feasibility", fi.where, "refuses when atoms + TER lines, chains or residues per chain exceed the limits")
    defs = {nm: norm(astq.first_assign(fi.node, nm)) if astq.first_assign(fi.node, nm) is not None else None for nm in ("unique_chains", "num_chains", "total_atoms")}
    chk.expect(defs == {"unique_chains": "df[chain_col].unique()", "num_chains": "len(unique_chains)", "total_atoms": "len(df)"}, "feasibility", fi.where, "counts: chains = distinct chain ids (order of appearance), atoms = rows", "the counted quantities changed", K(fi, "counts"), found=defs)
    _residue_count(chk, fi)


def _check_fit_rest2(chk, fi, fm, f, c, _try, inl) -> None:
    from checks import c10e

    repo = chk.repo
    # index after the `> 62` guard
    cm = astq.first_assign(fi.node, "chain_mapping")
    guard = [s for s in fi.node.body if isinstance(s, ast.If) and norm(inl.inline(s.test, s, stop=("num_chains", "max_pdb_chains"))) == "num_chains > max_pdb_chains"]
    # the alphabet must not be consumed: a pool shared between calls hands out different ids on the second call
    alpha_def = astq.first_assign(fi.node, "available_chain_ids")
    shared = isinstance(alpha_def, ast.Name) and alpha_def.id in repo.module(M).consts
    muts = [c2 for c2 in ast.walk(fi.node) if isinstance(c2, ast.Call) and isinstance(c2.func, ast.Attribute) and norm(c2.func.value) == "available_chain_ids" and c2.func.attr in ("pop", "remove", "clear", "insert", "append", "extend", "sort", "reverse")]
    muts += [d2 for d2 in ast.walk(fi.node) if isinstance(d2, ast.Delete) and any("available_chain_ids" in norm(t2) for t2 in d2.targets)]
    if muts and shared:
        chk.violation("chain-alphabet", fi.site(muts[0]), f"`{norm(muts[0])[:60]}` consumes `{alpha_def.id}`, a module-level list shared by every call: the second table gets other chain ids (and the pool eventually runs dry with IndexError)", K(fi, "alphabet-mutated"))
    cm_forms = (flat("{orig_chain: available_chain_ids[i] for i, orig_chain in enumerate(unique_chains)}"), flat("dict(zip(unique_chains, available_chain_ids))"), flat("{orig_chain: new_chain for orig_chain, new_chain in zip(unique_chains, available_chain_ids)}"))
    if muts and shared:
        pass
    elif _try(c10e.check_chain_map_eval):
        # one-to-one, total, into the alphabet: decided by evaluation.  What remains is that the size check comes first
        # (with more than 62 chains the alphabet runs out: IndexError / StopIteration instead of ValueError).
        ap0 = [k for k, s2 in enumerate(fi.node.body) if isinstance(s2, ast.Assign) and isinstance(s2.value, ast.Call) and isinstance(s2.value.func, ast.Attribute) and s2.value.func.attr == "map"]
        g0 = [k for k, s2 in enumerate(fi.node.body) if guard and s2 is guard[0]]
        chk.expect(bool(g0) and bool(ap0) and g0[0] < ap0[0], "chain-map", fi.where, "the chain map is built after the check that at most 62 chains exist", "the chain map is built without a preceding `number of chains > size of the alphabet` refusal: the alphabet runs out for larger tables", K(fi, "chain-map-guard"))
    else:
        ok = cm is not None and flat(cm) in cm_forms
        ok = ok and guard and cm.lineno > guard[0].lineno
        chk.expect(ok, "chain-map", fi.where, "chains are renamed by pairing the distinct ids with the alphabet in order (one-to-one), after the size check", "the chain map is not {id: alphabet[i] for i, id in enumerate(unique ids)} built after the size check", K(fi, "chain-map"))
    ap = [s for s in fi.node.body if isinstance(s, ast.Assign) and norm(s) == "df_fitted[chain_col] = df_fitted[chain_col].map(chain_mapping)"]
    chk.expect(len(ap) == 1, "chain-map", fi.where, "the map is applied to every row", "the chain map is not applied to the whole chain column", K(fi, "chain-apply"))
    # residue renumbering loop: closed body
    rl = [l for l in fi.node.body if isinstance(l, ast.For) and norm(l.iter) == "df_fitted.groupby(chain_col)"]
    ok = False
    found = None
    if len(rl) == 1:
        body = [flat(s) for s in rl[0].body]
        found = [norm(s)[:80] for s in rl[0].body]
        want = [
            flat("original_residues = group[[resseq_col, icode_col]].drop_duplicates()"),
            flat("residue_mapping = {tuple(res): i + 1 for i, res in enumerate(original_residues.itertuples(index=False))}"),
            flat("all_new_res_maps[new_chain_id] = residue_mapping"),
            flat("res_indices = group.set_index([resseq_col, icode_col]).index"),
            flat("df_fitted.loc[group.index, new_resseq_col] = res_indices.map(residue_mapping)"),
        ]
        ok = body == want
    if len(rl) == 1:
        skips = [n for n in ast.walk(rl[0]) if isinstance(n, (ast.Continue, ast.Break))]
        clears = [s2 for s2 in fi.node.body if isinstance(s2, ast.Assign) and norm(s2) == "df_fitted[icode_col] = None" and s2.lineno > rl[0].lineno]
        if skips and clears:
            chk.violation("residue-map-skip", fi.site(skips[0]), "a chain can leave the renumbering loop early and keep its own residue numbers, while the insertion codes are cleared for every chain after the loop: residues 10 and 10A of such a chain collapse into one", K(fi, "residue-skip"))
        else:
            chk.ok("residue-map-skip", fi.site(rl[0]), "no chain bypasses the renumbering")
    chk.expect(ok, "residue-map", fi.site(rl[0]) if rl else fi.where, "every chain is renumbered 1..n over its distinct (number, insertion code) in order of appearance, for all of its rows", "the residue renumbering loop changed: every chain must map distinct (resSeq, iCode) to 1..n and apply it to all rows (a skipped chain collides with the cleared insertion codes)", K(fi, "residue-map"), found=found)
    after = [norm(s) for s in fi.node.body if isinstance(s, ast.Assign) and norm(s.targets[0]) in ("df_fitted[resseq_col]", "df_fitted[icode_col]")]
    chk.expect(after[:2] == ["df_fitted[resseq_col] = df_fitted[new_resseq_col]", "df_fitted[icode_col] = None"], "residue-map", fi.where, "new numbers replace the old ones and insertion codes are cleared together", "new residue numbers / cleared insertion codes are not installed together after the loop", K(fi, "residue-install"), found=after)
    # optional icode column guarded
    g = [s for s in fi.node.body if isinstance(s, ast.If) and norm(s.test) == "icode_col not in df_fitted.columns"]
    ok = len(g) == 1 and [norm(s) for s in g[0].body] == ["df_fitted[icode_col] = None"] and (not rl or g[0].lineno < rl[0].lineno)
    uses_guarded = "if icode_col in df.columns" in norm(fi.node)
    chk.expect(ok and uses_guarded, "column-guard", fi.where, "the optional insertion-code column is tested in the feasibility check and created on the copy before it is indexed", "icode_col is indexed without being tested/created: KeyError for tables without the optional column", K(fi, "icode-guard"))
    # serial renumbering
    sl = [l for l in fi.node.body if isinstance(l, ast.For) and norm(l.iter) == "df_fitted.iterrows()"]
    srt = [s for s in fi.node.body if isinstance(s, ast.Expr) and norm(s.value) == "df_fitted.sort_index(inplace=True)"]
    if len(sl) != 1:
        chk.error("serial-renumber", fi.where, "serial renumbering loop over df_fitted.iterrows() not found")
    else:
        from sa import paths as PT

        bad = []
        npaths = 0
        for events, exit_ in PT.paths(sl[0].body):
            if exit_ == "raise":
                continue
            npaths += 1
            known = {}
            for ev in events:
                if ev[0] == "test":
                    t = norm(_alias(ev[3], sl[0]))
                    if t in ("last_chain_id_for_serial is not None",):
                        known["has_last"] = ev[2]
                    elif t in ("last_chain_id_for_serial is None",):
                        known["has_last"] = not ev[2]
                    elif t in ("row[chain_col] != last_chain_id_for_serial", "last_chain_id_for_serial != row[chain_col]"):
                        known["differs"] = ev[2]
                    elif t in ("row[chain_col] == last_chain_id_for_serial", "last_chain_id_for_serial == row[chain_col]"):
                        known["differs"] = not ev[2]
                    elif t == "current_serial > max_pdb_serial":
                        pass
                    else:
                        known.setdefault("unknown", []).append(t)
            if "unknown" in known:
                bad.append(("error", f"condition `{known['unknown'][0][:60]}` not understood"))
                continue
            delta = 0
            stored_at = None
            ok_eval = True
            for k, ev in enumerate(events):
                if ev[0] != "stmt":
                    continue
                st = ev[1]
                if isinstance(st, ast.AugAssign) and norm(st.target) == "current_serial" and isinstance(st.op, ast.Add):
                    v = f.try_fold(st.value)
                    if not isinstance(v, int):
                        ok_eval = False
                    else:
                        delta += v
                        if stored_at is not None:
                            bad.append(("serial-renumber", "the serial is stored before it is incremented"))
                elif isinstance(st, ast.Assign) and norm(st.targets[0]) == "df_fitted.loc[index, new_serial_col]" and norm(st.value) == "current_serial":
                    stored_at = k
            if not ok_eval:
                bad.append(("error", "increment of current_serial does not fold"))
                continue
            changed = known.get("has_last") is True and known.get("differs") is True
            want_delta = 2 if changed else 1
            if delta != want_delta:
                bad.append(("serial-renumber", f"on the path where the chain {'changes' if changed else 'does not change'} the serial advances by {delta}, expected {want_delta} (one per atom plus one for the TER line at a chain change)"))
            if stored_at is None:
                bad.append(("serial-renumber", "a row does not get its new serial"))
        errs = [m for r, m in bad if r == "error"]
        viol = [m for r, m in bad if r != "error"]
        if errs:
            chk.error("serial-renumber", fi.site(sl[0]), errs[0])
        elif viol:
            chk.violation("serial-renumber", fi.site(sl[0]), viol[0], K(fi, "serial"))
        else:
            chk.ok("serial-renumber", fi.site(sl[0]), f"{npaths} paths: serials run 1,2,.. in row order, leaving one number for the TER of every chain change")
        lim = [r for r in ast.walk(sl[0]) if isinstance(r, ast.Raise)]
        # since the fix of F24 the rows are numbered in the order they have: a sort by index labels before the loop permutes tables
        # whose labels are not increasing (decided by evaluation as `row-order`; this is the reading of the form when that is impossible)
        if srt:
            chk.violation("row-order", fi.site(srt[0]), f"`{norm(srt[0])[:50]}` before the serial renumbering sorts the rows by their index labels: a table whose labels are not increasing comes back with its atoms permuted", "parser_v2:fit_to_pdb:sort_index")
        chk.expect(bool(lim), "serial-renumber-form", fi.where, "rows are renumbered in the order they have, with a limit safeguard", "serial renumbering lost its limit safeguard", K(fi, "serial-form"))
        upd = [s2 for s2 in sl[0].body if norm(s2) in ("last_chain_id_for_serial = current_chain_id", "last_chain_id_for_serial = row[chain_col]")]
        chk.expect(len(upd) == 1 and sl[0].body[-1] is upd[0], "serial-renumber-form", fi.site(sl[0]), "the chain of the row just numbered is remembered", "the last chain id is not updated at the end of every round", K(fi, "serial-last"))
    # frame condition on column stores
    allowed_vars = {"chain_col", "new_resseq_col", "resseq_col", "icode_col", "new_serial_col", "serial_col"}
    n_st = 0
    for s in ast.walk(fi.node):
        tg = s.targets if isinstance(s, ast.Assign) else ([s.target] if isinstance(s, ast.AugAssign) else [])
        for t in tg:
            if isinstance(t, ast.Subscript) and norm(t.value) in ("df_fitted", "df_fitted.loc"):
                key = t.slice.elts[1] if isinstance(t.slice, ast.Tuple) and len(t.slice.elts) == 2 else t.slice
                kn = norm(key)
                n_st += 1
                if kn in allowed_vars:
                    continue
                loop = _enclosing_loop(fi.node, s)
                # the loop variable that names the column: the target itself, or one member of a tuple target (`for col, flag in table.items()`)
                loop_names = set()
                if loop is not None:
                    loop_names = {loop.target.id} if isinstance(loop.target, ast.Name) else ({e.id for e in loop.target.elts if isinstance(e, ast.Name)} if isinstance(loop.target, ast.Tuple) else set())
                if isinstance(key, ast.Name) and kn in loop_names:
                    # a store into the column the loop is at: allowed when the value is computed from that column only (a conversion of
                    # the column onto itself, possibly through locals), or creates the column when it is absent
                    v = norm(s.value)
                    srcs = _column_sources(s.value, loop)
                    selfmap = bool(srcs) and srcs == {kn}
                    create = v == "pd.Series(dtype='object')" and any(norm(g2.test) == f"{kn} not in df_fitted.columns" and g2.polarity for g2 in facts(fm.of(s).guards))
                    if selfmap or create:
                        continue
                chk.violation("frame-condition", fi.site(s), f"`{norm(s)[:80]}` stores into a column other than serial/chain/number/insertion code (or is not a type conversion of the column onto itself): data of another field are overwritten", K(fi, f"store:{kn}"))
    chk.ok("frame-condition", fi.where, f"{n_st} column stores: only serial, chain, residue number, insertion code and two temporaries are rewritten; other columns only converted onto themselves or created when absent")
    drops = sorted(norm(c2) for c2 in astq.calls(fi.node, "drop"))
    chk.expect(drops == ["df_fitted.drop(columns=[new_resseq_col], inplace=True)", "df_fitted.drop(columns=[new_serial_col], inplace=True)"], "frame-condition", fi.where, "only the two temporaries are dropped", f"columns dropped: {drops}", K(fi, "drops"))
    # dtype typestate: fillna on a bare column only after add_categories / astype(object)
    from sa import paths as PT

    for c2 in astq.calls(fi.node, "fillna"):
        recv = c2.func.value
        if isinstance(recv, ast.Call) and astq.callee_name(recv) == "astype":
            chk.ok("dtype-typestate", fi.site(c2), f"`{norm(recv)[:50]}` is converted before fillna")
            continue
        # typestate along every path of the enclosing loop body that reaches the fillna: before it the filled value was added to the
        # categories, or was established to be one of them already
        fill = norm(c2.args[0]) if c2.args else "?"
        loop = _enclosing_loop(fi.node, c2)
        body = loop.body if loop is not None else fi.node.body
        reach = unsafe = 0
        try:
            for events, exit_ in PT.paths(body):
                idx = next((k for k, ev in enumerate(events) if ev[0] == "stmt" and any(n is c2 for n in ast.walk(ev[1]))), None)
                if idx is None:
                    continue
                reach += 1
                safe = False
                for ev in events[:idx]:
                    if ev[0] == "stmt" and any(isinstance(n, ast.Call) and isinstance(n.func, ast.Attribute) and n.func.attr == "add_categories" and fill in norm(n) for n in ast.walk(ev[1])):
                        safe = True
                    if ev[0] == "test" and ".categories" in ev[1]:
                        t = norm(ev[3])
                        if (t.startswith(f"{fill} not in ") and ev[2] is False) or (t.startswith(f"{fill} in ") and ev[2] is True):
                            safe = True
                if not safe:
                    unsafe += 1
        except Exception as ex:
            chk.error("dtype-typestate", fi.site(c2), f"paths to `{norm(c2)[:50]}` not enumerable ({type(ex).__name__})")
            continue
        if reach == 0:
            chk.error("dtype-typestate", fi.site(c2), f"no path to `{norm(c2)[:50]}` found")
            continue
        chk.expect(unsafe == 0, "dtype-typestate", fi.site(c2), f"{reach} paths: fillna on a categorical column happens only after the new category was added (or is present)", f"`{norm(c2)[:70]}` fills a possibly categorical column with a new value without astype(object)/add_categories on {unsafe} of {reach} paths: TypeError", K(fi, f"fillna:{norm(recv)[:40]}"))
    _rename_rules(chk, fi, fm, f, _try)
    ess = None
    for s in ast.walk(fi.node):
        if isinstance(s, ast.Assign) and norm(s.targets[0]) == "pdb_essential_cols":
            ess = f.try_fold(s.value)
    chk.expect(ess == list(spec("pdb_columns.json")["atom"].keys())[:0] + ["record_type", "serial", "name", "altLoc", "resName", "chainID", "resSeq", "iCode", "x", "y", "z", "occupancy", "tempFactor", "element", "charge", "model"], "essential-columns", fi.where, "the 16 PDB columns exist in the fitted table", "the list of essential PDB columns changed", K(fi, "essential"))
    fmt = [s for s in fi.node.body if isinstance(s, ast.Assign) and norm(s) == "df_fitted.attrs['format'] = 'PDB'"]
    rets = [r for r in fi.node.body if isinstance(r, ast.Return)]
    chk.expect(len(fmt) == 1 and len(rets) == 1 and norm(rets[0].value) == "df_fitted", "result", fi.where, "the fitted copy is tagged PDB and returned", "the fitted table is not tagged format=PDB and returned", K(fi, "result"))


def _rename_rules(chk, fi, fm, f, _try) -> None:
    """The map that renames mmCIF items to PDB columns: injective on the columns of the table, and sending the item write_pdb prefers for
    each field to that field.  Evaluated per class of table when the construction is pure Python; read off the folded literal otherwise."""
    from checks import c10e
    from checks.c08e import evidence
    from sa.blockeval import Unknown

    repo = chk.repo
    wp = repo.func(M, "write_pdb")
    cif = c09.extract_atom_data(wp, "mmCIF")
    alias = c09.key_alias(repo)
    maps = None
    try:
        maps = c10e.rename_maps(chk, fi)
    except AnalysisError:
        raise
    except Unknown as ex:
        chk.ok("rename-eval", fi.where, f"rename map not evaluable ({str(ex)[:70]}): the folded literal decides")
    except Exception as ex:
        chk.ok("rename-eval", fi.where, f"evaluation of the rename map failed internally ({type(ex).__name__}): the folded literal decides")
    if maps is not None and cif:
        with evidence(chk, "rename-injective", "rename-coverage"):
            miss: Dict[str, Any] = {}
            for tag, cols, mp in maps:
                after = [mp.get(c2, c2) for c2 in cols]
                dup = sorted({v for v in after if after.count(v) > 1})
                who = {v: [c2 for c2 in cols if mp.get(c2, c2) == v] for v in dup}
                chk.expect(not dup, "rename-injective", fi.where, f"evaluated ({tag}): no two columns of the table end up with the same PDB name", f"table with {tag}: columns {who.get(dup[0]) if dup else ''} are both renamed to `{dup[0] if dup else ''}`: duplicate column names break every later column access", K(fi, "rename-dup"), found=who)
                for k, srcs in cif.items():
                    fld = alias.get(k, k)
                    present = [i2 for i2 in srcs if i2 in cols]
                    if not present:
                        continue
                    pref = present[0]
                    if mp.get(pref, pref) != fld:
                        miss[pref] = [fld, mp.get(pref), tag]
            chk.expect(not miss, "rename-coverage", fi.where, f"evaluated on {len(maps)} classes of table: every mmCIF item write_pdb prefers for a field is renamed to that field", "an mmCIF item that write_pdb reads is not renamed to its PDB column: the fitted table gets an empty column and the data are lost", K(fi, "rename-coverage"), found=miss)
        return
    rm = astq.first_assign(fi.node, "rename_map")
    base = f.try_fold(rm) if rm is not None else None
    if not isinstance(base, dict):
        chk.error("rename-map", fi.where, "the rename map is neither evaluable nor a dict literal bound to `rename_map`")
        return
    vals = list(base.values())
    dup = sorted({v for v in vals if vals.count(v) > 1})
    chk.expect(not dup, "rename-injective", fi.where, "no two source columns are renamed to the same PDB column", f"rename_map sends two columns to {dup}: duplicate column names break every later column access", K(fi, "rename-dup"), found=dup)
    cond = {}
    for s in ast.walk(fi.node):
        if isinstance(s, ast.Assign) and isinstance(s.targets[0], ast.Subscript) and norm(s.targets[0].value) == "rename_map":
            k, v = f.try_fold(s.targets[0].slice), f.try_fold(s.value)
            gs = [norm(g2.test) for g2 in facts(fm.of(s).guards) if g2.polarity]
            cond[k] = (v, gs)
            rivals = [kk for kk, vv in base.items() if vv == v]
            ok = all(f"'{r}' not in df_fitted.columns" in gs for r in rivals)
            chk.expect(ok, "rename-injective", fi.site(s), f"{k} -> {v} only when {rivals} is absent", f"conditional rename {k} -> {v} is not guarded by the absence of {rivals}", K(fi, f"rename-cond:{k}"))
    # coverage against write_pdb's mmCIF preferences
    miss = {}
    for k, srcs in cif.items():
        fld = alias.get(k, k)
        for i, item in enumerate(srcs):
            tgt = base.get(item) if item in base else (cond.get(item, (None,))[0])
            if item == fld:
                continue  # same name in both formats (occupancy)
            if i == 0 and tgt != fld:
                miss[item] = [fld, tgt]  # the item write_pdb prefers must be renamed to the field
            if i > 0 and tgt is not None and tgt != fld:
                miss[item] = [fld, tgt]  # a fallback item, when renamed at all, must go to the same field
    chk.expect(not miss, "rename-coverage", fi.where, "every mmCIF item write_pdb reads a field from is renamed to that field", "an mmCIF item that write_pdb reads is not renamed to its PDB column: the fitted table gets an empty column and the data are lost", K(fi, "rename-coverage"), found=miss)


def run(chk) -> None:
    chk.explanation = (
        "Static rules on parser_v2.can_write_pdb and fit_to_pdb: each limit is tied to the quantity it bounds (numeric maximum of the serial/number column, maximal chain-id length), to its folded constant and to the "
        "writer's field width; ValueError is the only raise; identity return precedes the copy; the input frame is never written; feasibility checks; 62-character alphabet indexed only after the size check; chain and "
        "residue maps built by enumerate over distinct values and applied to all rows (closed loop body); column stores restricted to the renamed fields (frame condition); fillna on categorical data only after "
        "conversion; rename map injective on co-occurring columns and covering every item write_pdb reads; optional insertion-code column guarded."
    )
    chk.trusted = ["CPython ast", "pandas semantics (groupby order, map, drop_duplicates, dtype coercion)"]
    chk.assumptions = ["everything pandas does at run time is outside the decision: the behavioural claim as a whole is not decided"]
    chk.robust |= {"fit-test", "feasibility", "chain-alphabet", "residue-map-skip", "serial-renumber", "frame-condition", "input-untouched", "limits", "limits-vs-widths", "only-valueerror", "rename-injective", "rename-coverage", "dtype-typestate", "row-order"}
    check_can_write(chk)
    check_fit(chk)
    for rule, n in (("fit-test", 4), ("feasibility", 1), ("residue-map", 2), ("chain-map", 2), ("rename-injective", 3), ("rename-coverage", 1), ("dtype-typestate", 3), ("frame-condition", 2)):
        chk.floor(rule, n)
    from checks import c10w

    try:
        c10w.check_fit_before_write(chk, [("splitter", "main"), ("unifier", "main")])  # observation points: what reaches write_pdb went through the fit
    except AnalysisError:
        raise
    except Exception as ex:
        chk.error("fit-before-write", "-", f"path reading of the CLI write paths failed internally ({type(ex).__name__}: {str(ex)[:60]})")
    from checks import w3cross

    w3cross.check(chk, "C10", untouched=(("parser_v2", "can_write_pdb"), ("parser_v2", "write_pdb")))  # state that survives a call: shared memo results, module-level containers, arguments


MANIFEST_ENTRY = {
    "text": "Static decision on the current source of the structural conditions of a correct fit: limits bound the right quantities and equal the writer's capacities, clean refusal by ValueError only, identity on fitting tables, "
    "one-to-one chain/residue maps applied to every row of every chain, frame condition on column stores, no fillna on categorical data, injective and complete rename map, guarded optional column. The renaming branch never "
    "runs in the test suite; these rules cover it for all tables as far as the shape of the code determines it. Since round 4 can_write_pdb and fit_to_pdb are also interpreted as wholes on one table per input class (sa/frame.py), including pieces of a larger table, non-increasing row labels and tables at every limit; refusals are classified by the quantity they compute; fit-before-write on every path to write_pdb in splitter and unifier.",
    "note": "Trusted: pandas run-time semantics (groupby order, NaN keys in maps, coercions) - therefore the behavioural claim as a whole is not decided, only these necessary conditions.",
    "technique": "static analysis: limit/quantity/width agreement, closed-world loop-body rule, frame condition on stores, dtype typestate, sibling agreement of rename map and writer preferences + whole-function evaluation of the ast on one table per input class over a pandas stand-in, path analysis of the CLI writers",
}
