"""C11 - interaction lists are well-formed and self-consistent.

Decided: same-residue skips and model filter dominate every append of find_pairs; contacts only from the 4.0 A
query; canonical orientation and sorted emission of all four lists; Saenger table closed under reversal and total
into the Saenger members; LeontisWesthof closed under `reverse`; BPh/BR: donor/acceptor roles, class table total
over the base donors and into 0..9, merge rules 3+5->4, 7+9->8, one class per residue pair.
"""
from __future__ import annotations

import ast
from typing import Any, Dict, List, Optional, Set

from checks import c03
from checks.c03 import K, spec
from sa import astq, intervals
from sa.consteval import Folder
from sa.defuse import Inliner
from sa.flow import FlowMap, facts
from sa.model import AnalysisError, norm

AN, CM, T3 = "annotator", "common", "tertiary"


def flat(x) -> str:
    """Text of a construct without parentheses and blanks (tuple display differs between targets and values)."""
    t = x if isinstance(x, str) else norm(x)
    return t.replace("(", "").replace(")", "").replace(" ", "")


def _saenger_lookup_pinned(chk, ds) -> None:
    repo = chk.repo
    inl = Inliner(ds.node)
    fm = FlowMap(ds.node)
    KEY = "(f'{residue_i.one_letter_name}{residue_j.one_letter_name}', lw.value)"
    rets = [r for r in astq.walk_no_nested(ds.node) if isinstance(r, ast.Return)]
    hits = 0
    problems = []
    for r in rets:
        if r.value is None or norm(r.value) == "None":
            continue
        v = inl.inline(r.value, r, stop=("residue_i", "residue_j", "lw"))
        t = flat(v)
        if t == flat(f"Saenger[Saenger.table()[{KEY}]]"):
            fs = facts(fm.of(r).guards)
            present = any((flat(inl.inline(g.test, g.stmt or r, stop=("residue_i", "residue_j", "lw"))) == flat(f"{KEY} in Saenger.table()") and g.polarity) or (flat(inl.inline(g.test, g.stmt or r, stop=("residue_i", "residue_j", "lw"))) == flat(f"{KEY} not in Saenger.table()") and not g.polarity) for g in fs)
            if present:
                hits += 1
            else:
                problems.append(("violation", r, "the Saenger table is subscripted without testing that the key is present: KeyError for pairs that have no Saenger class"))
        elif t.startswith(flat("Saenger[Saenger.table()[")):
            swapped = flat("(f'{residue_j.one_letter_name}{residue_i.one_letter_name}', lw.value)")
            if swapped in t:
                problems.append(("violation", r, "the Saenger key takes the bases in the order (j, i) while the class lw is read from i to j"))
            else:
                problems.append(("error", r, f"Saenger key `{t[24:100]}` not recognised"))
        else:
            problems.append(("error", r, f"return value `{t[:80]}` not recognised"))
    for kind2, r, msg in problems:
        if kind2 == "error":
            chk.error("saenger-lookup", ds.site(r), msg)
        else:
            chk.violation("saenger-lookup", ds.site(r), msg, K(ds, "lookup"))
    if not problems:
        none_ret = any(r.value is None or norm(r.value) == "None" for r in rets)
        chk.expect(hits == 1 and none_ret, "saenger-lookup", ds.where, "Saenger class = table[(bases in pair order, lw name)] when present, else None", "detect_saenger does not look up (base_i + base_j, lw.value) in Saenger.table() and return None otherwise", K(ds, "lookup"))


def _saenger_lookup_by_value(chk, ds, table) -> bool:
    """detect_saenger evaluated (sa/blockeval.py) on every (base, base, Leontis-Westhof class) over the letters of the table and an
    unknown one, with the evaluated Saenger table: the result is the class filed under (bases in pair order, lw) and None when there
    is none - whatever the shape of the code.  False when the function is not evaluable (the reading of the form decides then)."""
    from sa.blockeval import BlockEval, Unknown

    class _Enum:
        _folder_stub = True

        def table(self):
            return dict(table)

        def __getitem__(self, name):
            if name not in set(table.values()):
                raise KeyError(name)
            return ("Saenger", name)

    class _Obj:
        _folder_stub = True

        def __init__(self, **kw):
            self.__dict__.update(kw)

    params = [a.arg for a in ds.node.args.args]
    if len(params) != 3:
        return False
    letters = sorted({c for k in table for c in k[0]} | {"N"})
    lws = [c + a + b for c in "ct" for a in "WHS" for b in "WHS"]
    bad: List[str] = []
    n = 0
    for bi in letters:
        for bj in letters:
            for lw in lws:
                env = {params[0]: _Obj(one_letter_name=bi), params[1]: _Obj(one_letter_name=bj), params[2]: _Obj(value=lw, name=lw), "Saenger": _Enum()}
                try:
                    kind, val = BlockEval(chk.repo, AN, env).run(ds.node.body)
                    got = val if kind == "return" else None
                except Unknown:
                    return False
                except Exception as ex:
                    got = f"raises {type(ex).__name__}"
                n += 1
                want = ("Saenger", table[(bi + bj, lw)]) if (bi + bj, lw) in table else None
                if got != want:
                    bad.append(f"{bi}{bj} {lw}: {got[1] if isinstance(got, tuple) else got}, expected {want[1] if want else None}")
    chk.expect(not bad, "saenger-lookup", ds.where, f"evaluated on {n} (base, base, class) triples: the Saenger class is table[(bases in pair order, lw)] when present, else None", f"detect_saenger does not return the class filed under (bases in pair order, lw), or None when there is none, for {len(bad)} of {n} triples: " + "; ".join(bad[:4]), K(ds, "lookup"), found=bad[:8])
    return True


def check_saenger(chk) -> None:
    repo = chk.repo
    tf = repo.func(CM, "Saenger.table")
    chk.note_function(tf)
    from sa.blockeval import BlockEval, Unknown

    rets = [r for r in tf.node.body if isinstance(r, ast.Return)]
    d = rets[0].value if rets else tf.node
    lits = [n for n in ast.walk(tf.node) if isinstance(n, ast.Dict) and len(n.keys) > 10]
    if lits:
        keys = [Folder(repo, CM).try_fold(k) for k in lits[0].keys]
        dup = sorted({str(k) for k in keys if keys.count(k) > 1})
        chk.expect(not dup, "saenger-table", tf.site(lits[0]), f"{len(keys)} distinct keys", f"duplicate keys in the Saenger table (a later entry silently overrides, its intended twin is missing): {dup}", K(tf, "duplicate-keys"), found=dup)
    try:
        kind, table = BlockEval(repo, CM, {}).run(tf.node.body)
    except Unknown as ex:
        chk.error("saenger-table", tf.where, f"Saenger.table() not evaluable: {ex}")
        return
    except Exception as ex:
        chk.violation("saenger-table", tf.where, f"building the Saenger table raises {type(ex).__name__}: {ex}", K(tf, "table-raises"))
        return
    if kind != "return" or not isinstance(table, dict):
        chk.error("saenger-table", tf.where, "Saenger.table() does not return a dict")
        return
    pinned = {(a, b): c for a, b, c in spec("saenger.json")["table"]}
    extra = {f"{k[0]},{k[1]}": v for k, v in table.items() if k not in pinned}
    missing = {f"{k[0]},{k[1]}": v for k, v in pinned.items() if k not in table}
    changed = {f"{k[0]},{k[1]}": [table[k], v] for k, v in pinned.items() if k in table and table[k] != v}
    chk.expect(
        not extra and not missing and not changed,
        "saenger-pinned",
        tf.where,
        f"the evaluated table equals the pinned Saenger classification ({len(pinned)} entries)",
        "the Saenger table differs from the pinned classification: " + "; ".join(x for x in (f"{len(extra)} entries that define no Saenger class (e.g. {next(iter(extra), None)})" if extra else "", f"{len(missing)} missing (e.g. {next(iter(missing), None)})" if missing else "", f"{len(changed)} changed (e.g. {next(iter(changed.items()), None)})" if changed else "") if x),
        K(tf, "pinned"),
        expected={"missing": dict(list(missing.items())[:6])},
        found={"extra": dict(list(extra.items())[:6]), "changed": dict(list(changed.items())[:6])},
    )
    members = set(repo.enum_members(CM, "Saenger"))
    lw = set(repo.enum_members(CM, "LeontisWesthof"))
    bad = {str(k): v for k, v in table.items() if v not in members}
    chk.expect(not bad, "saenger-values", tf.site(d), "every value is a Saenger member name", "Saenger table values that are not Saenger members: Saenger[...] raises KeyError", K(tf, "values"), found=bad)
    badk = [str(k) for k in table if not (isinstance(k, tuple) and len(k) == 2 and isinstance(k[0], str) and len(k[0]) == 2 and k[1] in lw)]
    chk.expect(not badk, "saenger-keys", tf.site(d), "every key is (two base letters, LW class name)", "malformed Saenger keys", K(tf, "keys"), found=badk)
    asym = {}
    for (bases, cls), v in table.items():
        if not (isinstance(bases, str) and len(bases) == 2 and isinstance(cls, str) and len(cls) == 3):
            continue
        rk = (bases[1] + bases[0], cls[0] + cls[2] + cls[1])
        if table.get(rk) != v:
            asym[f"{bases},{cls}"] = [v, f"{rk[0]},{rk[1]} -> {table.get(rk)}"]
    chk.expect(
        not asym,
        "saenger-symmetric",
        tf.site(d),
        f"table closed under (XY, lw) -> (YX, reversed lw) with equal classes ({len(table)} entries)",
        "the Saenger table is not symmetric under reversal of the pair: a pair and its reverse get different classes",
        K(tf, "symmetry"),
        found=asym,
    )
    # lookup: fact-level (paths of detect_saenger), pinned form only when that reading is impossible
    from checks import c11e

    ds = repo.func(AN, "detect_saenger")
    chk.note_function(ds)
    try:
        if not _saenger_lookup_by_value(chk, ds, table):
            c11e.check_saenger_lookup(chk, ds)
    except (c11e.NotReadable, c11e.SX.TooManyPaths) as ex:
        chk.ok("reading", ds.where, f"detect_saenger: fact-level reading not possible ({str(ex)[:100]}); pinned-form rule used")
        _saenger_lookup_pinned(chk, ds)
    # LW reverse
    from checks import c06

    c06.check_lw_reverse(chk)
    want = {c + a + b for c in "ct" for a in "WHS" for b in "WHS"}
    chk.expect(lw == want, "lw-total", "src/rnapolis/common.py LeontisWesthof", "LeontisWesthof is closed under reverse (all 18 members)", "LeontisWesthof is not the full c/t x {W,H,S}^2 set: reverse can raise KeyError", "common:LeontisWesthof:members", found=sorted(lw ^ want))
    vals_ok = all(isinstance(v, ast.Constant) and v.value == k for k, v in repo.enum_members(CM, "LeontisWesthof").items())
    chk.expect(vals_ok, "lw-values", "src/rnapolis/common.py LeontisWesthof", "every member's value equals its name (table keys use lw.value)", "a LeontisWesthof member's value differs from its name: Saenger lookup by lw.value misses", "common:LeontisWesthof:values")


def classification_table(chk, fi) -> Dict[str, Dict[str, Set[Any]]]:
    """Abstractly evaluate detect_bph_br_classification for every (base letter, donor atom name): set of possible returns."""
    repo = chk.repo
    bases = "ACGUT"
    donors = Folder(repo, T3).fold(repo.const_expr(T3, "BASE_DONORS"))
    p_res, p_donor, p_acc = [a.arg for a in fi.node.args.args]
    out: Dict[str, Dict[str, Set[Any]]] = {}

    def cond(test: ast.AST, b: str, d: str) -> Optional[bool]:
        t = norm(test)
        m = astq.match(test, f"{p_res}.one_letter_name == X_")
        if m and isinstance(m["X_"], ast.Constant):
            return m["X_"].value == b
        m = astq.match(test, f"{p_donor}.name == X_")
        if m and isinstance(m["X_"], ast.Constant):
            return m["X_"].value == d
        m = astq.match(test, f"{p_res}.one_letter_name in X_")
        if m:
            v = Folder(repo, AN).try_fold(m["X_"])
            return None if v is None else b in v
        m = astq.match(test, f"{p_donor}.name in X_")
        if m:
            v = Folder(repo, AN).try_fold(m["X_"])
            return None if v is None else d in v
        if isinstance(test, ast.BoolOp):
            vs = [cond(v, b, d) for v in test.values]
            if isinstance(test.op, ast.And):
                if False in vs:
                    return False
                return None if None in vs else True
            if True in vs:
                return True
            return None if None in vs else False
        return None  # data-dependent (atoms present, torsion): both ways

    def block(stmts, b, d, acc: Set[Any]) -> bool:
        """returns True if the block may fall through."""
        for st in stmts:
            if isinstance(st, ast.Return):
                if isinstance(st.value, ast.IfExp):
                    for x in (st.value.body, st.value.orelse):
                        acc.add(Folder(repo, AN).try_fold(x, "?"))
                else:
                    acc.add(Folder(repo, AN).try_fold(st.value, "?") if st.value is not None else None)
                return False
            if isinstance(st, ast.If):
                c = cond(st.test, b, d)
                ft = fe = False
                if c is not False:
                    ft = block(st.body, b, d, acc)
                if c is not True:
                    fe = block(st.orelse, b, d, acc) if st.orelse else True
                if c is True and not ft:
                    return False
                if c is False and not fe:
                    return False
                if c is None and not ft and not fe:
                    return False
                continue
        return True

    for b in bases:
        out[b] = {}
        for d in donors.get(b, []):
            acc: Set[Any] = set()
            if block(fi.node.body, b, d, acc):
                acc.add(None)
            out[b][d] = acc
    return out


def check_bph(chk) -> None:
    from checks import c11e

    repo = chk.repo
    sp = spec("bph_classes.json")
    fi = repo.func(AN, "detect_bph_br_classification")
    chk.note_function(fi)
    # every class is a member digit 0..9 and both enums have _0.._9
    for en, suffix in (("BPh", "BPh"), ("BR", "BR")):
        mem = repo.enum_members(CM, en)
        ok = set(mem) == {f"_{i}" for i in range(10)} and all(isinstance(v, ast.Constant) and v.value == f"{k[1:]}{suffix}" for k, v in mem.items())
        chk.expect(ok, "bph-enum-total", f"src/rnapolis/common.py {en}", f"{en} has members _0.._9 valued '<digit>{suffix}'", f"{en} members are not _0.._9 with values '<digit>{suffix}': {en}[f'_{{class}}'] can raise KeyError or mislabel", f"common:{en}:members")
    from sa.consteval import NotConst

    try:
        c11e.check_bph_table(chk, fi, sp, Folder(repo, AN).fold)
        return
    except (c11e.NotReadable, c11e.SX.TooManyPaths) as ex:
        chk.ok("reading", fi.where, f"detect_bph_br_classification: fact-level reading not possible ({str(ex)[:100]}); if-ladder reading used")
    except NotConst as ex:
        chk.error("bph-class-table", fi.where, f"the donor table of tertiary.py does not fold to a constant ({str(ex)[:100]}): the classifier cannot be evaluated per (base, donor)")
        return
    try:
        _bph_ladder(chk, fi, sp)
    except NotConst as ex:
        chk.error("bph-class-table", fi.where, f"the donor table of tertiary.py does not fold to a constant ({str(ex)[:100]})")


def _bph_ladder(chk, fi, sp) -> None:
    """Reading of the classifier as an if-ladder over letter / name comparisons (fallback of c11e.check_bph_table)."""
    repo = chk.repo
    table = classification_table(chk, fi)
    for b, row in table.items():
        for d, got in row.items():
            if d == "O2'":
                chk.expect(got == {None}, "bph-class-table", fi.where, f"{b}:{d} (ribose hydroxyl) has no class", f"{b}:{d} unexpectedly classified {got}", K(fi, f"class:{b}:{d}"), found=sorted(map(str, got)))
                continue
            want = set(sp["classes"].get(b, {}).get(d, []))
            conditional = len(want) > 1
            ok = (got - {None}) == want and (conditional or None not in got)
            chk.expect(
                ok,
                "bph-class-table",
                fi.where,
                f"{b}:{d} -> {sorted(want)}",
                f"donor {d} of {b} is classified {sorted(map(str, got))}, the Zirbel et al. table says {sorted(want)}" + ("" if want else " (no class: the contact would be dropped or mis-filed)"),
                K(fi, f"class:{b}:{d}"),
                expected=sorted(want),
                found=sorted(map(str, got)),
            )
    # torsion splits: atoms and +-90 window
    inl = Inliner(fi.node)
    fold = Folder(repo, AN).fold
    n_split = 0
    for r in [x for x in ast.walk(fi.node) if isinstance(x, ast.Return) and isinstance(x.value, ast.IfExp)]:
        n_split += 1
        test = inl.inline(r.value.test, r)
        tc = [n for n in ast.walk(test) if isinstance(n, ast.Call) and astq.callee_name(n) == "torsion_angle"]
        if len(tc) != 1:
            chk.error("bph-split", fi.site(r), "class split does not depend on one torsion_angle(...)")
            continue
        try:
            reg = intervals.region(test, [((lambda n: isinstance(n, ast.Call) and astq.callee_name(n) == "torsion_angle"), "rad")], fold, extra_thresholds=(-90.0, 90.0, -180.0, 180.0))
            bad = {k: v for k, v in reg.items() if -180 <= k[0] <= 180 and v != (-90 < k[0] < 90)}
            chk.expect(not bad, "bph-split", fi.site(r), "the two classes of a donor are split at a torsion of +-90 degrees", f"class split `{norm(r.value.test)}` is not |torsion| < 90 degrees (after unit conversion)", K(fi, f"split:{r.lineno}"), found={str(k): v for k, v in list(bad.items())[:4]})
        except intervals.NotThreshold as ex:
            chk.error("bph-split", fi.site(r), str(ex))
        args = [norm(a) for a in tc[0].args]
        chk.expect(len(args) == 4 and args[2:] == [fi.node.args.args[1].arg, fi.node.args.args[2].arg], "bph-split-atoms", fi.site(r), "torsion runs ... - donor - acceptor", f"torsion atoms {args} do not end in (donor, acceptor)", K(fi, f"split-atoms:{r.lineno}"))
    chk.expect(n_split == 3, "bph-split", fi.where, "three donors (A:N6, G:N2, C:N4) have a torsion split", f"{n_split} torsion splits, expected 3", K(fi, "split-count"))


def check_bph_branches(chk) -> None:
    from checks import c03e, c11e

    repo = chk.repo
    fi = repo.func(AN, "find_pairs")
    chk.note_function(fi)
    fi = c03e.unfolded(repo, fi)
    fm = FlowMap(fi.node)
    loop = c03.kd_loop(chk, fi)
    chk.robust |= {"bph-branch", "bph-record", "result-order"}
    try:
        c11e.check_bph_branches(chk, fi, c03e.pairs_model(chk, fi, loop))
    except (c03e.NotReadable, c03e.SX.TooManyPaths) as ex:
        chk.ok("reading", fi.where, f"base-phosphate / base-ribose branches: fact-level reading not possible ({str(ex)[:100]}); pinned-form rules used")
        saved = set(chk.robust)
        chk.robust -= {"bph-branch", "bph-record"}
        try:
            _bph_branches_pinned(chk, fi, fm, loop)
        finally:
            chk.robust |= saved
    _emission(chk, fi, fm, loop)


def _bph_branches_pinned(chk, fi, fm, loop) -> None:
    repo = chk.repo
    for acc_list, store, name in (("PHOSPHATE_ACCEPTORS", "base_phosphate_pairs", "base-phosphate"), ("RIBOSE_ACCEPTORS", "base_ribose_pairs", "base-ribose")):
        br = [s for s in loop.body if isinstance(s, ast.If) and acc_list in norm(s.test)]
        if len(br) != 1:
            chk.violation("bph-branch", fi.site(loop), f"{name} branch not found in the contact loop", K(fi, f"{name}-branch"))
            continue
        b = br[0]
        want_test = f"(atom_i.name in {acc_list} or atom_j.name in {acc_list}) and atom_i not in used_atoms and (atom_j not in used_atoms)"
        chk.expect(norm(b.test) == want_test, "bph-branch", fi.site(b), f"{name}: one of the two atoms is a {acc_list[:-1].lower().replace('_', ' ')} and neither atom is used yet", f"{name} branch condition changed: `{norm(b.test)[:100]}`", K(fi, f"{name}-test"), expected=want_test, found=norm(b.test))
        chk.expect(isinstance(b.body[-1], ast.Continue), "bph-branch", fi.site(b), "the branch consumes the contact (continue)", f"{name} branch does not end the iteration: the contact also counts as a base-base hydrogen bond", K(fi, f"{name}-continue"))
        # roles: the statements of the branch up to the classification call, evaluated for both typings of the contact
        from sa.blockeval import BlockEval, Unknown

        v_cls = "bph" if name == "base-phosphate" else "br"
        cut = [k for k, x in enumerate(b.body) if isinstance(x, ast.Assign) and norm(x.targets[0]) == v_cls]
        if not cut:
            chk.error("bph-roles", fi.site(b), f"{name}: classification call not found")
        else:
            frag = [x for x in b.body[: cut[0]] if not (isinstance(x, ast.Expr) and isinstance(x.value, ast.Call) and norm(x.value.func).startswith("logging"))]
            call = b.body[cut[0]].value
            bad = {}
            try:
                for ti, tj in (("donor", "acceptor"), ("acceptor", "donor")):
                    ev = BlockEval(repo, AN, {"type_i": ti, "type_j": tj, "residue_i": "Ri", "residue_j": "Rj", "atom_i": "Ai", "atom_j": "Aj"})
                    ev.run(frag)
                    ev.env["detect_bph_br_classification"] = lambda *a: a
                    got = ev.fold(call)
                    want = ("Ri", "Ai", "Aj") if ti == "donor" else ("Rj", "Aj", "Ai")
                    wantp = ("Ri", "Rj") if ti == "donor" else ("Rj", "Ri")
                    ev.env[v_cls] = "CLS"
                    recs = [a for a in astq.calls(b, "append") if astq.dotted(a.func.value) == store and a.args]
                    rec = ev.fold(recs[0].args[0]) if len(recs) == 1 else None
                    gotp = tuple(rec[:2]) if isinstance(rec, tuple) and len(rec) == 3 and rec[2] == "CLS" else rec
                    if got != want or gotp != wantp:
                        bad[f"atom_i is the {ti}"] = {"classified": got, "pair": gotp}
                chk.expect(not bad, "bph-roles", fi.site(b), f"{name}: the class is computed from (donor residue, donor atom, acceptor atom) and the pair is (donor residue, acceptor residue), for both typings of the contact", f"{name}: donor/acceptor roles are wrong: {bad}", K(fi, f"{name}-roles"), found={k: str(v) for k, v in bad.items()})
            except Unknown as ex:
                chk.error("bph-roles", fi.site(b), f"{name}: role assignment not evaluable: {ex}")
            except Exception as ex:
                chk.error("bph-roles", fi.site(b), f"{name}: role assignment not evaluable: {type(ex).__name__} {ex}")
        apps = [a for a in astq.calls(b, "append") if astq.dotted(a.func.value) == store]
        v = "bph" if name == "base-phosphate" else "br"
        ok = len(apps) == 1 and isinstance(apps[0].args[0], ast.Tuple) and len(apps[0].args[0].elts) == 3 and norm(apps[0].args[0].elts[2]) == v and any(norm(g.test) == f"{v} is not None" and g.polarity for g in fm.guards_within(fm.stmt_of(apps[0]), b))
        used = sorted(norm(a.args[0]) for a in astq.calls(b, "add") if astq.dotted(a.func.value) == "used_atoms")
        chk.expect(ok and used == ["atom_i", "atom_j"], "bph-record", fi.site(b), f"a classified contact is recorded as (donor residue, acceptor residue, class) and both atoms are marked used", f"{name}: a classified contact is not recorded as (donor_residue, acceptor_residue, class) with both atoms marked used", K(fi, f"{name}-record"))


def _emission(chk, fi, fm, loop) -> None:
    from checks import c11e

    repo = chk.repo
    # emission
    stores = {"bph": "base_phosphate_pairs", "br": "base_ribose_pairs"}
    try:
        from checks import c03e

        pm = c03e.pairs_model(chk, fi, loop)
        stores = {"bph": pm.bph or stores["bph"], "br": pm.br or stores["br"]}
    except Exception:
        pass
    chk.robust |= {"bph-emission", "sorted-emission"}
    for tag, cls, en in (("bph", "BasePhosphate", "BPh"), ("br", "BaseRibose", "BR")):
        c11e.check_bph_emission(chk, fi, stores[tag], cls, en)
    # base pair emission
    ems = c03.find_emission(c11e.with_local_helpers_inlined(fi), "base_base_pairs")
    if len(ems) != 1 or not (isinstance(ems[0][1], ast.Tuple) and len(ems[0][1].elts) == 3 and all(isinstance(e, ast.Name) for e in ems[0][1].elts)):
        chk.error("sorted-emission", fi.where, "place where the recorded base pairs become BasePair objects not found")
    else:
        it, tgt, rec, site = ems[0]
        a, b, l = (e.id for e in tgt.elts)
        if norm(it) == "sorted(base_base_pairs)":
            chk.ok("sorted-emission", fi.site(site), "base pairs are emitted from sorted(base_base_pairs)")
        elif norm(it) in ("base_base_pairs", "set(base_base_pairs)", "list(base_base_pairs)", "reversed(base_base_pairs)"):
            chk.violation("sorted-emission", fi.site(site), f"base pairs are emitted by iterating `{norm(it)}`, not sorted(base_base_pairs): the order of the list follows the contact counting order", K(fi, "bp-emission"), found=norm(it))
        elif isinstance(it, ast.Call) and astq.callee_name(it) == "sorted" and len(it.args) == 1 and norm(it.args[0]) == "base_base_pairs" and any(k.arg == "key" for k in it.keywords):
            c11e.check_sort_key(chk, fi, it, "sorted-emission", "base pairs")
        else:
            chk.error("sorted-emission", fi.site(site), f"emission source `{norm(it)}` not recognised")
        want = f"BasePair(Residue({a}.label, {a}.auth), Residue({b}.label, {b}.auth), {l}, detect_saenger({a}, {b}, {l}))"
        chk.expect(norm(rec) == want, "bp-emission-record", fi.site(site), "BasePair(first, second, lw, saenger of the same triple)", f"the emitted base pair is `{norm(rec)[:120]}`, not BasePair(Residue(i), Residue(j), lw, detect_saenger(i, j, lw))", K(fi, "bp-emission"), found=norm(rec))
    c11e.check_result_order(chk, fi)
    ebi = repo.func(AN, "extract_base_interactions")
    chk.note_function(ebi)
    body = [norm(s) for s in ebi.node.body if not isinstance(s, ast.Expr)]
    ok = [flat(b) for b in body] == [flat(x) for x in ["base_pairs, base_phosphate, base_ribose = find_pairs(tertiary_structure, model)", "stackings = find_stackings(tertiary_structure, model)", "return BaseInteractions(base_pairs, stackings, base_ribose, base_phosphate, [])"]]
    chk.expect(ok, "result-order", ebi.where, "BaseInteractions(basePairs, stackings, baseRibose, basePhosphate, []) receives the lists in field order", "extract_base_interactions does not file the four lists under their own BaseInteractions fields (or does not pass the model)", K(ebi, "fields"), found=body)


def check_merge(chk) -> None:
    """merge_and_clean_bph_br evaluated on every ordered selection of up to three classes out of {0, 3, 4, 5, 6, 7, 8, 9} for one residue
    pair (plus a second pair that must stay independent): one class per pair, 3+5 -> 4, 7+9 -> 8, no class invented."""
    import itertools

    from sa.blockeval import BlockEval, Unknown

    repo = chk.repo
    fi = repo.func(AN, "merge_and_clean_bph_br")
    chk.note_function(fi)
    universe = [0, 3, 4, 5, 6, 7, 8, 9]
    seqs = [s2 for n in (1, 2, 3) for s2 in itertools.permutations(universe, n)] + [(3, 5, 7, 9), (7, 9, 3, 5), (3, 7, 5, 9)]
    bad_one, bad_merge, bad_member, bad_other = {}, {}, {}, {}
    n_eval = 0
    try:
        for seq in seqs:
            pairs = [("r1", "r2", c) for c in seq] + [("r3", "r4", 6)]
            ev = BlockEval(repo, AN, {fi.node.args.args[0].arg: pairs})
            kind, res = ev.run(fi.node.body)
            n_eval += 1
            if kind != "return" or not isinstance(res, dict) or ("r1", "r2") not in res:
                bad_other[str(seq)] = f"{kind}: {res!r}"[:80]
                continue
            got = list(res[("r1", "r2")])
            other = list(res.get(("r3", "r4"), []))
            if other != [6]:
                bad_other[str(seq)] = f"unrelated pair became {other}"
            merged = set(seq)
            if {3, 5} <= merged:
                merged = (merged - {3, 5}) | {4}
            if {7, 9} <= merged:
                merged = (merged - {7, 9}) | {8}
            if len(got) != 1:
                bad_one[str(seq)] = got
            elif got[0] not in merged:
                if set(seq) in ({3, 5}, {7, 9}) or got[0] in set(seq):
                    bad_merge[str(seq)] = got
                else:
                    bad_member[str(seq)] = got
    except Unknown as ex:
        chk.error("bph-merge", fi.where, f"merge_and_clean_bph_br not evaluable: {ex}")
        return
    except Exception as ex:
        chk.violation("bph-merge", fi.where, f"merge_and_clean_bph_br raises {type(ex).__name__} ({ex}) for one of the class selections", K(fi, "merge-raises"))
        return
    chk.expect(not bad_one, "bph-one-class", fi.where, f"a residue pair keeps exactly one class ({n_eval} ordered class selections evaluated)", f"a residue pair can keep several (or no) classes, e.g. contacts classified {next(iter(bad_one), None)} end as {next(iter(bad_one.values()), None)}", K(fi, "truncate"), found=dict(list(bad_one.items())[:5]))
    chk.expect(not bad_merge, "bph-merge", fi.where, "3+5 -> 4 and 7+9 -> 8 for every residue pair", f"merge rules are not applied: classes {next(iter(bad_merge), None)} end as {next(iter(bad_merge.values()), None)} (3BPh with 5BPh is 4BPh, 7BPh with 9BPh is 8BPh)", K(fi, "merge-rules"), found=dict(list(bad_merge.items())[:5]))
    chk.expect(not bad_member, "bph-merge", fi.where, "the surviving class is one of the (merged) classes observed for the pair", f"a class is invented: {dict(list(bad_member.items())[:3])}", K(fi, "merge-member"), found=dict(list(bad_member.items())[:5]))
    chk.expect(not bad_other, "bph-merge", fi.where, "classes are collected per (donor residue, acceptor residue); pairs do not influence each other", f"result is malformed or pairs interfere: {dict(list(bad_other.items())[:2])}", K(fi, "collect"), found=dict(list(bad_other.items())[:5]))


def run(chk) -> None:
    chk.explanation = (
        "Static rules over find_pairs/find_stackings/merge_and_clean_bph_br/detect_saenger/detect_bph_br_classification and the tables of common.py: same-residue and model skips "
        "dominate every append; the only contact source is the folded 4.0 A query; all four lists are emitted through sorted() in canonical orientation; the Saenger table is "
        "folded and shown closed under reversal, total into the Saenger members, free of duplicate keys; LeontisWesthof is closed under reverse; the BPh/BR classifier is "
        "abstractly evaluated for every (base, donor atom) and compared with the pinned Zirbel table; BPh/BR enums are total over the digits; merge and truncation rules."
    )
    chk.trusted = ["CPython ast", "pinned class table spec/bph_classes.json (provenance there)", "OrderedSet keeps insertion order"]
    chk.assumptions = ["float tests inside the torsion split are not decided beyond their +-90 degree boundary"]
    chk.robust |= c03.ROBUST | {"saenger-table", "saenger-pinned", "saenger-values", "saenger-keys", "saenger-symmetric", "saenger-lookup", "lw-reverse", "lw-total", "lw-values", "bph-class-table", "bph-enum-total", "bph-split", "bph-merge", "bph-one-class", "bph-roles"}
    c03.check_find_pairs(chk, parts=("contacts", "labels"))
    check_bph_branches(chk)
    check_merge(chk)
    check_bph(chk)
    check_saenger(chk)
    from checks import c11e

    chk.robust |= {"order-keys"}
    c11e.check_order_keys(chk)
    # stackings: orientation + sorted emission are C04's rules; re-evaluate the emission part here
    from checks import c04  # noqa: F401  (kept separate: C04 owns the geometric thresholds)

    fs = chk.repo.func(AN, "find_stackings")
    chk.note_function(fs)
    from checks import c03e as _c03e

    fs = _c03e.unfolded(chk.repo, fs)
    if not any(isinstance(l, ast.For) and isinstance(l.iter, ast.Call) and astq.callee_name(l.iter) == "query_pairs" for l in fs.node.body):
        from checks import c03e as _c03e

        fs = _c03e.loopified(fs)
    try:
        from checks import c03e, c04, c04e

        chk.robust |= {"stack-orientation", "sorted-emission"}
        sloop = c03.kd_loop(chk, fs)
        c04e.check_orientation(chk, fs, sloop, c03e.build_sites(fs, sloop, chk.repo), Folder(chk.repo, AN).fold, c04.make_label_of(chk.repo))
    except (c03e.NotReadable, c03e.SX.TooManyPaths) as ex:
        chk.error("stack-orientation", fs.where, f"orientation of the recorded stackings not readable: {str(ex)[:120]}")
    outs = [l for l in ast.walk(fs.node) if isinstance(l, (ast.For, ast.comprehension)) and isinstance(l.iter, ast.Call) and astq.callee_name(l.iter) == "sorted" and len(l.iter.args) == 1 and isinstance(l.iter.args[0], ast.Name)]
    plain = [l for l in outs if not l.iter.keywords]
    keyed = [l for l in outs if any(k.arg == "key" for k in l.iter.keywords)]
    # sorted() is stable: elements its order does not separate keep the iteration order of the input.  `Residue3D.__lt__` compares
    # (model, chain, number, icode) only, so two different residues with one number (alternate conformers, microheterogeneity)
    # are such a tie; a list keeps them in discovery order, a set in hash order (the hash of a residue hashes strings, which is
    # randomised per process)
    for l in plain:
        src = l.iter.args[0].id
        sets = [v for _, v in astq.assignments(fs.node, src) if v is not None and (isinstance(v, (ast.Set, ast.SetComp)) or (isinstance(v, ast.Call) and astq.callee_name(v) in ("set", "frozenset")))]
        chk.expect(
            not sets,
            "sorted-emission",
            fs.site(l.iter),
            f"`{src}` keeps the order in which the stackings were found, so ties of sorted() are reproducible",
            f"`{src}` is a set: sorted() keeps elements that `<` does not separate (residues equal in (model, chain, number, icode), e.g. alternate conformers under one number) in the iteration order of the set, which follows hash values and differs from run to run - the order of the stackings is no longer a function of the input",
            K(fs, "emission-set"),
        )
    if len(outs) == 1 and keyed:
        from checks import c11e

        c11e.check_sort_key(chk, fs, keyed[0].iter, "sorted-emission", "stackings")
    else:
        chk.expect(len(plain) == 1, "sorted-emission", fs.where, "stackings are emitted from sorted(<recorded triples>)", "stackings are not emitted by iterating sorted(<recorded triples>)", K(fs, "emission"))
    for rule, n in (("saenger-symmetric", 1), ("bph-class-table", 19), ("contact-skips", 4), ("sorted-emission", 4), ("bph-merge", 3), ("bph-one-class", 1), ("saenger-lookup", 1)):
        chk.floor(rule, n)


MANIFEST_ENTRY = {
    "text": "Static decision on the current source that every interaction list is well-formed: same-residue and model skips dominate all appends, contacts come only from the folded 4.0 A query, "
    "all lists pass through sorted() with the lower residue first, the Saenger table (folded) is symmetric under pair reversal, duplicate-free and total into Saenger, LeontisWesthof is closed under reverse, "
    "the BPh/BR classifier (abstractly evaluated over every base and donor atom) equals the pinned class table and lands in 0..9, merge rules 3+5->4, 7+9->8 and one class per residue pair. Since round 3 the emission sites are decided by fact-level rules (checks/c11e.py): sort keys must hold every component the comparison reads (also through a module-level key function), sorted() over a set with a non-total order leaves ties in hash order, registration of interactions by value.",
    "note": "Trusted: pinned Zirbel class table, OrderedSet order. Not decided: float tests inside the torsion split beyond their boundary; uniqueness of interactions relies on KD-tree pair uniqueness and the occupied-edge rule of C03.",
    "technique": "static analysis: table folding and closure checks, abstract evaluation of the classifier over its finite input domain, dominance of skips, must-pass-through sorted() + symbolic path execution of the emission sites, sort-key/total-order analysis",
}
