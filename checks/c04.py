"""C04 - stacking annotation equals its geometric definition.

Decided on annotator.find_stackings: centroid of the present base atoms per residue, radius 6.0, min over
{angle(n_i,n_j), angle(-n_i,n_j)} <= 35 degrees, min over {angle(v,n_i), angle(v,n_j)} <= 45 degrees with v the
centroid difference, closed set of skips, same_direction <=> dot > 0, label grouping and (lower, higher)
orientation in every branch, sorted emission.
"""
from __future__ import annotations

import ast
import copy
import itertools
from typing import Dict, List, Optional

from checks.c03 import K, classify_skips, fold_call_arg, kd_loop, spec
from sa import astq, intervals
from sa.consteval import Folder
from sa.defuse import Inliner
from sa.flow import FlowMap, facts
from sa.model import AnalysisError, norm

AN = "annotator"


def bool_eval(e: ast.AST, env: Dict[str, bool]) -> Optional[bool]:
    t = norm(e)
    if t in env:
        return env[t]
    if isinstance(e, ast.UnaryOp) and isinstance(e.op, ast.Not):
        v = bool_eval(e.operand, env)
        return None if v is None else not v
    if isinstance(e, ast.BoolOp):
        vs = [bool_eval(v, env) for v in e.values]
        if None in vs:
            return None
        return all(vs) if isinstance(e.op, ast.And) else any(vs)
    if isinstance(e, ast.Constant) and isinstance(e.value, bool):
        return e.value
    return None


def str_eval(e: ast.AST, env: Dict[str, bool]) -> Optional[str]:
    if isinstance(e, ast.Constant) and isinstance(e.value, str):
        return e.value
    if isinstance(e, ast.IfExp):
        t = bool_eval(e.test, env)
        if t is None:
            return None
        return str_eval(e.body if t else e.orelse, env)
    return None



class _Res:
    def __init__(self, letter):
        self.one_letter_name = letter


def _collection(e: ast.AST, at: ast.stmt, rl: ast.For, fm: FlowMap, inl: Inliner, depth: int = 6):
    """Descriptor of a collection expression inside the residue loop:
        ("names", expr)                 atom names of the base
        ("found", names)                [residue.find_atom(n) for n in names], may hold None
        ("present", names)              the atoms found, None removed
        ("axis", ax, coll)              coordinate `ax` of every member of coll
    or None when not understood."""
    if depth == 0:
        return None
    if isinstance(e, ast.Name):
        d = inl.reaching(e.id, at)
        if d is not None and not (isinstance(d, (ast.List, ast.Tuple)) and not d.elts):
            dst = inl.stmt_of_value(d) or at
            # tuple unpack `xs, ys, zs = [], [], []` is handled below (d is the whole tuple)
            if not isinstance(d, ast.Tuple):
                r = _collection(d, dst, rl, fm, inl, depth - 1)
                if r is not None:
                    return r
                return ("names", d)
        # accumulator: L = [] then L.append(V) inside a loop over names
        apps = [a for a in astq.calls(rl, "append") if astq.dotted(a.func.value) == e.id and a.args]
        others = [c for c in ast.walk(rl) if isinstance(c, ast.Call) and isinstance(c.func, ast.Attribute) and astq.dotted(c.func.value) == e.id and c.func.attr in ("extend", "insert", "remove", "pop", "clear")]
        if len(apps) == 1 and not others:
            st = fm.stmt_of(apps[0])
            lps = [l for l in fm.of(st).loops if l is not rl and any(l is n for n in ast.walk(rl))]
            if len(lps) != 1 or not isinstance(lps[0].target, ast.Name):
                return None
            loop = lps[0]
            if any(isinstance(n, ast.Break) for n in ast.walk(loop)):
                return None
            src = _collection(loop.iter, loop, rl, fm, inl, depth - 1)
            if src is None:
                src = ("names", inl.inline(loop.iter, loop, stop=("residue",)))
            v = loop.target.id
            val = apps[0].args[0]
            fs = facts(fm.guards_within(st, loop))
            # the appended value: atom variable defined from find_atom(v), or an axis of it
            atom_names = {}
            for s2 in loop.body:
                if isinstance(s2, ast.Assign) and isinstance(s2.targets[0], ast.Name) and norm(s2.value) == f"residue.find_atom({v})":
                    atom_names[s2.targets[0].id] = True
            if src[0] != "names":
                return None

            def not_none(name):
                return any((norm(g.test) in (f"{name} is not None", name) and g.polarity) or (norm(g.test) in (f"{name} is None", f"not {name}") and not g.polarity) for g in fs)

            extra = [g for g in fs if not any(norm(g.test) in (f"{n} is not None", n, f"{n} is None", f"not {n}") for n in atom_names)]
            if extra:
                return None
            if isinstance(val, ast.Attribute) and isinstance(val.value, ast.Name) and val.value.id in atom_names and val.attr in ("x", "y", "z"):
                return ("axis", val.attr, ("present", src[1]) if not_none(val.value.id) else ("found", src[1]))
            if isinstance(val, ast.Name) and val.id in atom_names:
                return ("present", src[1]) if not_none(val.id) else ("found", src[1])
            return None
        return None
    if isinstance(e, (ast.ListComp, ast.GeneratorExp)) and len(e.generators) == 1 and isinstance(e.generators[0].target, ast.Name):
        g = e.generators[0]
        v = g.target.id
        src = _collection(g.iter, at, rl, fm, inl, depth - 1)
        if src is None:
            src = ("names", inl.inline(g.iter, at, stop=("residue",)))
        conds = [norm(c) for c in g.ifs]
        if src[0] == "names" and norm(e.elt) == f"residue.find_atom({v})" and not conds:
            return ("found", src[1])
        if src[0] == "found" and norm(e.elt) == v and conds in ([f"{v} is not None"], [v]):
            return ("present", src[1])
        if src[0] in ("present", "found") and norm(e.elt) == v and not conds:
            return src
        if src[0] in ("present", "found") and isinstance(e.elt, ast.Attribute) and norm(e.elt.value) == v and e.elt.attr in ("x", "y", "z") and not conds:
            return ("axis", e.elt.attr, src)
        if src[0] == "found" and isinstance(e.elt, ast.Attribute) and norm(e.elt.value) == v and e.elt.attr in ("x", "y", "z") and conds in ([f"{v} is not None"], [v]):
            return ("axis", e.elt.attr, ("present", src[1]))
        return None
    return None


def _show(c) -> str:
    if c is None:
        return "?"
    if c[0] == "names":
        return f"names {norm(c[1])}"
    if c[0] in ("found", "present"):
        return f"{c[0]} atoms of {norm(c[1])}"
    if c[0] == "axis":
        return f"{c[1]} of {_show(c[2])}"
    if c[0] == "count":
        return f"number of {_show(c[1])}"
    return str(c)


def _centroid(chk, fi, fm, inl, rl) -> None:
    repo = chk.repo
    def is_mean_tuple(v):
        return isinstance(v, ast.Tuple) and len(v.elts) == 3 and all(isinstance(e, ast.BinOp) and isinstance(e.op, ast.Div) for e in v.elts)

    gc = [s for s in ast.walk(rl) if isinstance(s, ast.Assign) and is_mean_tuple(s.value)]
    if len(gc) != 1:
        chk.error("centroid-mean", fi.site(rl), f"{len(gc)} assignments of a (sum/count, sum/count, sum/count) tuple in the residue loop, expected one")
        return
    st = gc[0]
    val = st.value
    nums, dens = [], []
    for e in val.elts:
        m = astq.match(e, "sum(S_) / D_")
        if not m:
            chk.error("centroid-mean", fi.site(st), f"centroid component `{norm(e)[:60]}` is not sum(...) / count")
            return
        nums.append(_collection(m["S_"], st, rl, fm, inl))
        d = m["D_"]
        if isinstance(d, ast.Name):
            dd = inl.reaching(d.id, st)
            d = dd if dd is not None else d
        md = astq.match(d, "len(L_)")
        dc = None
        if md:
            lc = _collection(md["L_"], st, rl, fm, inl)
            if lc is None:
                lc = ("names", inl.inline(md["L_"], st, stop=("residue",)))
            dc = lc[2] if lc[0] == "axis" else lc
        dens.append(dc)
    if any(n is None or n[0] != "axis" for n in nums) or any(d is None for d in dens):
        chk.error("centroid-mean", fi.site(st), f"centroid numerators/denominators not understood: {[_show(n) for n in nums]} / {[_show(d) for d in dens]}")
        return
    axes = [n[1] for n in nums]
    chk.expect(axes == ["x", "y", "z"], "centroid-axes", fi.site(st), "components are the means of x, y, z in this order", f"centroid components average {axes}, not x, y, z", K(fi, "centroid-axes"), found=axes)
    bad = [(k, nums[k][2], dens[k]) for k in range(3) if not (nums[k][2][0] == "present" and dens[k][0] == "present" and norm(nums[k][2][1]) == norm(dens[k][1]))]
    if bad:
        k, n, d = bad[0]
        chk.violation("centroid-mean", fi.site(st), f"component {k}: the sum runs over the {_show(n)} but is divided by the number of {_show(d)}: with a base atom missing from the file the centroid is not the mean of the atoms present", K(fi, "centroid"), expected="sum and count over the same present atoms", found=[_show(n), _show(d)])
    else:
        chk.ok("centroid-mean", fi.site(st), "centroid = (sum/len) per axis over the coordinates of the base atoms that are present (same collection in numerator and denominator)")
    # which atom names: evaluated per base letter against the pinned table
    names_e = nums[0][2][1]
    want = spec("lw_edges.json")["BASE_ATOMS"]
    diffs = {}
    try:
        for L in list(want) + ["N", "X"]:
            got = Folder(repo, AN, {"residue": _Res(L)}).fold(names_e)
            if sorted(got) != sorted(want.get(L, [])):
                diffs[L] = sorted(set(got) ^ set(want.get(L, [])))
        chk.expect(not diffs, "centroid-atoms", fi.site(st), "centroid atoms = the ring atoms of the residue's base (BASE_ATOMS, evaluated for A, C, G, U, T and unknown letters)", f"the centroid is taken over `{norm(names_e)[:70]}`, which differs from the base ring atoms for {sorted(diffs)}", K(fi, "centroid-atoms"), expected="BASE_ATOMS.get(residue.one_letter_name, [])", found=diffs)
    except Exception as ex:
        if norm(names_e) == "BASE_ATOMS.get(residue.one_letter_name, [])":
            chk.ok("centroid-atoms", fi.site(st), "centroid atoms = BASE_ATOMS of the residue's base")
        else:
            # a table in another module: resolve Class.attr / module constant through the repository
            tab = _foreign_table(repo, names_e)
            if tab is not None:
                diffs = {L: sorted(set(tab.get(L, [])) ^ set(want.get(L, []))) for L in want if sorted(tab.get(L, [])) != sorted(want.get(L, []))}
                chk.expect(not diffs, "centroid-atoms", fi.site(st), "centroid atoms equal the base ring atoms", f"the centroid is taken over `{norm(names_e)[:70]}`, which differs from the base ring atoms (BASE_ATOMS) for {sorted(diffs)}: {diffs}", K(fi, "centroid-atoms"), found=diffs)
            else:
                chk.error("centroid-atoms", fi.site(st), f"atom names `{norm(names_e)[:80]}` of the centroid not evaluable: {ex}")
    # guard: only for residues with at least one base atom present
    fs = facts(fm.guards_within(st, rl))
    guard_ok = False
    for g in fs:
        t = g.test
        if isinstance(t, ast.Name):
            dd = inl.reaching(t.id, st)
            lc = _collection(t, st, rl, fm, inl)
            if lc is not None and g.polarity:
                guard_ok = guard_ok or (lc[0] == "present" or (lc[0] == "axis" and lc[2][0] == "present"))
            continue
        for pat, pol in (("len(L_) > 0", True), ("len(L_) >= 1", True), ("len(L_) != 0", True), ("len(L_) == 0", False), ("not L_", False), ("C_ > 0", True), ("C_ == 0", False)):
            m = astq.match(t, pat)
            if m and g.polarity == pol:
                l_e = m.get("L_") if "L_" in pat else None
                if l_e is None:
                    ce = m["C_"]
                    if isinstance(ce, ast.Name):
                        dd = inl.reaching(ce.id, st)
                        mm = astq.match(dd, "len(L_)") if dd is not None else None
                        l_e = mm["L_"] if mm else None
                if l_e is not None:
                    lc = _collection(l_e, st, rl, fm, inl)
                    if lc is not None and (lc[0] == "present" or (lc[0] == "axis" and lc[2][0] == "present")):
                        guard_ok = True
    chk.expect(guard_ok, "centroid-guard", fi.site(st), "a centroid exists only for residues with at least one base atom present", "the centroid is computed without testing that at least one base atom is present (division by zero for residues without a base)", K(fi, "centroid-guard"))


def _foreign_table(repo, e: ast.AST):
    """`<Class>.<attr>.get(residue.one_letter_name, <default>)` with a class-level dict constant in tertiary.py."""
    m = astq.match(e, "C_.A_.get(residue.one_letter_name, D_)")
    if not m or not isinstance(m["C_"], ast.Name):
        return None
    try:
        expr = repo.class_attr_expr("tertiary", m["C_"].id, norm(m["A_"]))
        v = Folder(repo, "tertiary").fold(expr)
        return {k: list(x) for k, x in v.items()} if isinstance(v, dict) else None
    except Exception:
        return None


def _member(e: ast.AST) -> Optional[str]:
    if isinstance(e, ast.Attribute) and isinstance(e.value, ast.Name) and e.value.id == "StackingTopology" and e.attr not in ("name", "value", "reverse"):
        return e.attr
    return None


def _reverse_table(repo) -> Optional[Dict[str, str]]:
    """StackingTopology.reverse evaluated on every member (paths through the property body)."""
    from sa import paths as P

    try:
        fi = repo.func("common", "StackingTopology.reverse")
    except Exception:
        return None
    members = repo.enum_members("common", "StackingTopology")
    table = {}
    for m in members:
        res = None
        for events, exit_ in P.paths(fi.node.body):
            ok = True
            for ev in events:
                if ev[0] == "test":
                    t = ev[3]
                    if not (isinstance(t, ast.Compare) and len(t.ops) == 1 and isinstance(t.ops[0], (ast.Eq, ast.Is)) and norm(t.left) == "self" and _member(t.comparators[0]) is not None):
                        return None
                    if (_member(t.comparators[0]) == m) != ev[2]:
                        ok = False
            if not ok or exit_ != "return":
                continue
            r = events[-1][1].value
            if norm(r) == "self":
                res = m
            elif _member(r) is not None:
                res = _member(r)
            else:
                return None
            break
        if res is None:
            return None
        table[m] = res
    return table


def make_label_of(repo):
    """Evaluator of the label expression of a recorded triple: constants, StackingTopology members, .name/.value, .reverse
    (table of StackingTopology.reverse evaluated on every member), StackingTopology[<label>], conditional expressions."""
    rev = _reverse_table(repo)

    def label(e, env) -> Optional[str]:
        if isinstance(e, ast.Constant) and isinstance(e.value, str):
            return e.value
        if isinstance(e, ast.IfExp):
            tv = bool_eval(e.test, env)
            return None if tv is None else label(e.body if tv else e.orelse, env)
        if _member(e) is not None:
            return _member(e)
        if isinstance(e, ast.Attribute) and e.attr in ("name", "value"):
            return label(e.value, env)
        if isinstance(e, ast.Attribute) and e.attr == "reverse":
            inner = label(e.value, env)
            return rev.get(inner) if (rev is not None and inner is not None) else None
        m = astq.match(e, "StackingTopology[X_]")
        if m:
            return label(m["X_"], env)
        return None

    return label


def _labels(chk, fi, loop) -> None:
    """The recorded triple in the four cases (which residue is lower) x (normals same way): evaluated along the one feasible path."""
    from sa import paths as P

    repo = chk.repo
    sd_idx = max((k for k, s in enumerate(loop.body) if isinstance(s, ast.Assign) and "same_direction" in astq.target_names(s.targets[0])), default=None)
    if sd_idx is None:
        chk.error("stack-labels", fi.site(loop), "`same_direction` is not assigned at the top level of the stacking loop")
        return
    tail = loop.body[sd_idx + 1 :]
    rev = _reverse_table(repo)
    cases = {}
    problems = []
    for lower_first, same in itertools.product((True, False), (True, False)):
        env = {"residue_i < residue_j": lower_first, "residue_j > residue_i": lower_first, "residue_i <= residue_j": lower_first, "residue_j < residue_i": not lower_first, "residue_i > residue_j": not lower_first, "residue_j <= residue_i": not lower_first, "same_direction": same, "same_direction is True": same, "same_direction == True": same}
        feasible = []
        for events, exit_ in P.paths(tail):
            ok = True
            for ev in events:
                if ev[0] == "test":
                    if ev[1] not in env:
                        problems.append(f"test `{ev[1]}` not understood")
                        ok = False
                    elif env[ev[1]] != ev[2]:
                        ok = False
            if ok:
                feasible.append((events, exit_))
        if len(feasible) != 1:
            problems.append(f"case lower_first={lower_first}, same_direction={same}: {len(feasible)} feasible paths")
            continue
        store: Dict[str, ast.AST] = {}

        def subst(e):
            class _S(ast.NodeTransformer):
                def visit_Name(s2, n):
                    if isinstance(n.ctx, ast.Load) and n.id in store:
                        return copy.deepcopy(store[n.id])
                    return n
            return _S().visit(copy.deepcopy(e))

        recorded = []
        for ev in feasible[0][0]:
            if ev[0] != "stmt":
                if ev[0] == "loop":
                    problems.append("loop in the labelling tail")
                continue
            st = ev[1]
            if isinstance(st, ast.Assign) and len(st.targets) == 1:
                t = st.targets[0]
                if isinstance(t, ast.Name):
                    store[t.id] = subst(st.value)
                    continue
                if isinstance(t, ast.Tuple) and isinstance(st.value, ast.Tuple) and len(t.elts) == len(st.value.elts) and all(isinstance(x, ast.Name) for x in t.elts):
                    vals = [subst(v) for v in st.value.elts]
                    for x, v in zip(t.elts, vals):
                        store[x.id] = v
                    continue
            for c2 in ast.walk(st):
                if isinstance(c2, ast.Call) and isinstance(c2.func, ast.Attribute) and c2.func.attr == "append" and astq.dotted(c2.func.value) == "pairs" and c2.args:
                    recorded.append((subst(c2.args[0]), c2))
        if len(recorded) != 1:
            problems.append(f"case lower_first={lower_first}, same_direction={same}: {len(recorded)} triples recorded")
            continue
        t, site = recorded[0]
        if not (isinstance(t, ast.Tuple) and len(t.elts) == 3):
            problems.append("recorded value is not a triple")
            continue

        def label(e) -> Optional[str]:
            if isinstance(e, ast.Constant) and isinstance(e.value, str):
                return e.value
            if isinstance(e, ast.IfExp):
                tv = bool_eval(e.test, env)
                return None if tv is None else label(e.body if tv else e.orelse)
            if _member(e) is not None:
                return _member(e)
            if isinstance(e, ast.Attribute) and e.attr in ("name", "value"):
                return label(e.value)
            if isinstance(e, ast.Attribute) and e.attr == "reverse":
                inner = label(e.value)
                return rev.get(inner) if (rev is not None and inner is not None) else None
            m = astq.match(e, "StackingTopology[X_]")
            if m:
                return label(m["X_"])
            return None

        def which(e) -> Optional[str]:
            if isinstance(e, ast.IfExp):
                tv = bool_eval(e.test, env)
                return None if tv is None else which(e.body if tv else e.orelse)
            return norm(e) if norm(e) in ("residue_i", "residue_j") else None

        cases[(lower_first, same)] = (which(t.elts[0]), which(t.elts[1]), label(t.elts[2]), site)
    if problems or any(None in v[:3] for v in cases.values()):
        chk.error("stack-labels", fi.site(loop), "; ".join(problems[:3]) or f"recorded triple not evaluable in some case: { {str(k): v[:3] for k, v in cases.items()} }")
        return
    bad = {}
    for (lf, same), (a, b, lab, site) in cases.items():
        want_pair = ("residue_i", "residue_j") if lf else ("residue_j", "residue_i")
        group = {"upward", "downward"} if same else {"inward", "outward"}
        if (a, b) != want_pair or lab not in group:
            bad[f"residue_i {'<' if lf else '>'} residue_j, normals {'same' if same else 'opposite'} way"] = [a, b, lab]
    chk.expect(
        not bad,
        "stack-labels",
        fi.site(loop),
        "in all four cases the lower residue comes first and the label is upward/downward iff the normals point the same way",
        f"label grouping or orientation is wrong: {bad} (same direction must give upward/downward, opposite inward/outward, lower residue first)",
        K(fi, "labels"),
        found=bad,
    )
    labs = {(k, v[2]) for k, v in cases.items()}
    by_same = {same: {cases[(lf, same)][2] for lf in (True, False)} for same in (True, False)}
    merged = [same for same, ls in by_same.items() if len(ls) < 2]
    chk.expect(
        not merged,
        "stack-labels",
        fi.site(loop),
        "the four cases use the four topologies (the label changes when the two residues swap roles)",
        f"the two orders of a pair get the same label {sorted(by_same[merged[0]]) if merged else ''} when the normals point {'the same' if merged and merged[0] else 'opposite'} way: the topology does not flip when the residues are swapped into sorted order",
        K(fi, "labels-distinct"),
        found={str(k): v[2] for k, v in cases.items()},
    )


def _pair_loop_pinned(chk, fi, fm, inl, fold, loop, c) -> None:
    """Pinned-form reading of find_stackings (fallback of checks/c04e.py)."""
    repo = chk.repo
    # ---- centroids --------------------------------------------------------------------------
    rls = [l for l in fi.node.body if isinstance(l, ast.For) and astq.match(l.iter, "structure.residues") is not None]
    if len(rls) != 1:
        raise AnalysisError("find_stackings: residue loop not found")
    rl = rls[0]
    head = rl.body[0]
    chk.expect(isinstance(head, ast.If) and astq.match(head.test, "model is not None and residue.model != model") is not None and isinstance(head.body[-1], ast.Continue), "model-filter", fi.site(rl), "residues of other models are skipped first", "the residue loop does not start by skipping residues of other models", K(fi, "model-filter"))
    _centroid(chk, fi, fm, inl, rl)
    reg = [s for s in ast.walk(rl) if isinstance(s, ast.stmt) and norm(s) in ("coordinates.append(geometric_center)", "coordinates_residue_map[geometric_center] = residue")]
    chk.expect(len(reg) == 2, "centroid-register", fi.site(rl), "one centroid per residue is registered for the search and mapped back to its residue", "the centroid is not registered once in `coordinates` and mapped to its residue", K(fi, "centroid-register"))

    # ---- skips (closed world) -----------------------------------------------------------------
    for nm, want in (("residue_i", "coordinates_residue_map[coordinates[i]]"), ("residue_j", "coordinates_residue_map[coordinates[j]]"), ("normal_i", "residue_i.base_normal_vector"), ("normal_j", "residue_j.base_normal_vector")):
        d = [v for s, v in astq.assignments(loop, nm) if v is not None and s in loop.body][:1]
        chk.expect(len(d) == 1 and norm(d[0]) == want, "stack-roles", fi.site(loop), f"{nm} = {want}", f"{nm} is not {want}", K(fi, f"role:{nm}"))
    skips = [st for st in loop.body if isinstance(st, ast.If) and st.body and isinstance(st.body[-1], ast.Continue) and not st.orelse]
    none_skips = [s for s in skips if norm(s.test) in ("normal_i is None or normal_j is None", "normal_j is None or normal_i is None")]
    chk.expect(len(none_skips) == 1, "stack-skips", fi.site(loop), "pairs without both normals are skipped", "missing-normal skip absent", K(fi, "skip-none"))
    angle_skips = [s for s in skips if s not in none_skips]
    stop = ("normal_i", "normal_j", "residue_i", "residue_j", "coordinates")
    classified = {"normals": None, "offset": None}
    extra = []
    for s in angle_skips:
        test = inl.inline(s.test, s, stop=stop)
        calls = [n for n in ast.walk(test) if isinstance(n, ast.Call) and astq.callee_name(n) == "angle_between_vectors"]
        sig = sorted(norm(x) for x in calls)
        if sig in (["angle_between_vectors(-normal_i, normal_j)", "angle_between_vectors(normal_i, normal_j)"], ["angle_between_vectors(normal_i, -normal_j)", "angle_between_vectors(normal_i, normal_j)"]):
            classified["normals"] = (s, test, calls)
        elif len(calls) == 2 and all(len(x.args) == 2 for x in calls):
            vecs = {norm(x.args[0]) for x in calls} | {norm(x.args[1]) for x in calls}
            ns = vecs & {"normal_i", "normal_j"}
            other = vecs - ns
            if ns == {"normal_i", "normal_j"} and len(other) == 1:
                classified["offset"] = (s, test, calls, other.pop())
            else:
                extra.append(s)
        else:
            extra.append(s)
    for s in extra:
        chk.violation("stack-extra-filter", fi.site(s), f"additional or unrecognised filter `if {norm(s.test)[:70]}: continue` in the stacking loop", K(fi, f"extra:{norm(s.test)[:50]}"))
    chk.ok("stack-extra-filter", fi.site(loop), f"{len(skips)} skips: missing normal, normal-normal angle, offset angle - nothing else")

    def check_region(tag, entry, limit, rule):
        if entry is None:
            chk.violation(rule, fi.site(loop), f"the {tag} criterion is missing from the stacking loop", K(fi, f"{tag}-missing"))
            return
        s, test, calls = entry[0], entry[1], entry[2]
        texts = [norm(x) for x in calls]
        qs = [((lambda n, t=t: isinstance(n, ast.Call) and norm(n) == t), "rad") for t in texts]
        try:
            regn = intervals.region(test, qs, fold, extra_thresholds=(limit, 0.0, 180.0))
            bad = {k: v for k, v in regn.items() if 0 <= k[0] <= 180 and 0 <= k[1] <= 180 and v != (min(k) > limit)}
            chk.expect(
                not bad,
                rule,
                fi.site(s),
                f"a pair is skipped iff the smaller of the two angles exceeds {limit} degrees ({len(regn)} cells compared)",
                f"{tag} test `{norm(s.test)}` does not skip exactly when min(angle_1, angle_2) > {limit} degrees",
                K(fi, f"{tag}-region"),
                expected=f"skip iff min(a1, a2) > {limit} deg",
                found={str(k): v for k, v in list(bad.items())[:6]},
            )
        except intervals.NotThreshold as ex:
            chk.error(rule, fi.site(s), str(ex))

    check_region("normal-normal", classified["normals"], c["max_angle_between_normals_deg"], "stack-normals")
    check_region("offset", classified["offset"], c["max_angle_vector_normal_deg"], "stack-offset")
    if classified["offset"] is not None:
        vname = classified["offset"][3]
        vdef = inl.reaching(vname, classified["offset"][0]) if vname.isidentifier() else None
        # the definition is overwritten (`angle` is reused), take the assignment of the vector name inside the loop
        vd = [v for s, v in astq.assignments(loop, vname) if v is not None] if vname.isidentifier() else []
        ok = False
        if len(vd) == 1 or not vname.isidentifier():
            t = norm(vd[0]) if vd else vname
            ok = t in (
                "numpy.array([coordinates[i][k] - coordinates[j][k] for k in (0, 1, 2)])",
                "numpy.array([coordinates[j][k] - coordinates[i][k] for k in (0, 1, 2)])",
                "numpy.array(coordinates[i]) - numpy.array(coordinates[j])",
                "numpy.array(coordinates[j]) - numpy.array(coordinates[i])",
                "numpy.array([coordinates[i][k] - coordinates[j][k] for k in range(3)])",
            )
        chk.expect(ok, "stack-offset-vector", fi.site(loop), "the offset vector is the difference of the two centroids", f"the offset vector `{vname}` is not the centroid difference coordinates[i] - coordinates[j] over all three axes", K(fi, "offset-vector"), found=[norm(x) for x in vd] or vname)

    # ---- direction and labels -------------------------------------------------------------------
    sd = [v for s, v in astq.assignments(loop, "same_direction") if v is not None]
    ok = False
    if len(sd) == 1:
        e = sd[0]
        if isinstance(e, ast.IfExp) and norm(e.body) == "True" and norm(e.orelse) == "False":
            e = e.test
        ok = norm(e) in ("numpy.dot(normal_i, normal_j) > 0.0", "numpy.dot(normal_i, normal_j) > 0", "numpy.dot(normal_j, normal_i) > 0.0", "0.0 < numpy.dot(normal_i, normal_j)", "bool(numpy.dot(normal_i, normal_j) > 0.0)")
    chk.expect(ok, "stack-direction", fi.site(loop), "same_direction <=> dot(normal_i, normal_j) > 0", "same_direction is not `dot(normal_i, normal_j) > 0`", K(fi, "direction"), found=[norm(x) for x in sd])
    _labels(chk, fi, loop)


def run(chk) -> None:
    repo = chk.repo
    c = spec("constants.json")["C04"]
    chk.explanation = (
        "Static rules on annotator.find_stackings: folded KD-tree radius; centroid = per-axis mean over the base atoms actually present (same list in numerator and "
        "denominator); accept regions of the two angle tests evaluated cell by cell over both candidate angles (so min/max slips and unit slips show) against 35 and 45 "
        "degrees; operands of every angle resolved by reaching definitions; closed-world classification of the skips; same_direction <=> dot(n_i,n_j) > 0; the label "
        "and orientation of the appended triple enumerated over the four (order, direction) cases; emission through sorted()."
    )
    chk.trusted = ["CPython ast", "scipy KDTree.query_pairs yields each unordered pair once with i < j", "base normal and angle function are C03's obligations (re-checked there)"]
    chk.assumptions = ["pairs within 1e-6 of a threshold are undecided", "float geometry is not decided", "which of upward/downward (inward/outward) applies for a given order is a convention; only the grouping is decided"]
    chk.robust |= {"stack-radius", "centroid-mean", "centroid-axes", "centroid-atoms", "stack-normals", "stack-offset", "stack-labels", "stack-emission", "stack-topology-enum", "base-normal-eval"}
    fi = repo.func(AN, "find_stackings")
    chk.note_function(fi)
    from checks import c03e as _c03e

    fi = _c03e.unfolded(repo, fi)  # a generator helper consumed here is read as the loop it stands for
    if not any(isinstance(l, ast.For) and isinstance(l.iter, ast.Call) and astq.callee_name(l.iter) == "query_pairs" for l in fi.node.body):
        from checks import c03e as _c03e

        fi = _c03e.loopified(fi)  # a pair "loop" written as comprehensions is read as the loop it stands for
    fm = FlowMap(fi.node)
    inl = Inliner(fi.node)
    fold = Folder(repo, AN).fold
    loop = kd_loop(chk, fi)
    r = fold_call_arg(chk, fi, loop.iter)
    from checks.c03 import check_exact_query

    check_exact_query(chk, fi, loop.iter, "stack-radius")
    chk.expect(r == c["stacking_max_distance"], "stack-radius", fi.site(loop), f"centroid pairs come from query_pairs({r})", f"stacking search radius folds to {r}, the statement says {c['stacking_max_distance']} A", K(fi, "radius"), expected=c["stacking_max_distance"], found=r)

    from checks import c03e, c04e

    chk.robust |= {"stack-roles", "stack-skips", "stack-extra-filter", "stack-offset-vector", "stack-direction", "centroid-register", "model-filter", "same-residue-identity"}
    store = "pairs"
    chk.robust |= {"structure-state"}
    c04e.check_structure_state(chk, fi)
    try:
        sites = c03e.build_sites(fi, loop, repo)
        if "residue" not in sites.maps.values():
            raise c03e.NotReadable("no dictionary maps a centroid back to its residue")
        raw = [l for l in fi.node.body if isinstance(l, ast.For) and l.lineno == sites.res_loop.lineno]
        if sites.byvalue is not None:
            chk.ok("reading", fi.where, f"registration read by value on stand-in residues: {sites.byvalue['why'][:100]}")
            c03e.model_filter_by_value(chk, fi, sites)
            if not c04e.centroid_by_value(chk, fi, sites.points):
                raise c03e.NotReadable("centroid not evaluable")
        else:
            c03e.check_model_filter(chk, fi, sites.res_loop, sites.res_var, sites.res_paths)
            # the centroid: by value when the statements before the KD-tree can be evaluated, by collection descriptors otherwise
            if not c04e.centroid_by_value(chk, fi, sites.points):
                _centroid(chk, fi, fm, inl, raw[0] if raw else sites.res_loop)
                c04e.check_registration(chk, fi, sites)
        from checks.c03 import _eq_fields

        store = c04e.check_pair_loop(chk, fi, loop, sites, c, fold, make_label_of(repo), _eq_fields)
    except (c03e.NotReadable, c03e.SX.TooManyPaths) as ex:
        chk.ok("reading", fi.where, f"find_stackings: fact-level reading not possible ({str(ex)[:120]}); pinned-form rules used")
        saved = set(chk.robust)
        chk.robust -= {"stack-roles", "stack-skips", "stack-extra-filter", "stack-offset-vector", "stack-direction", "centroid-register", "model-filter", "stack-normals", "stack-offset", "stack-labels", "centroid-mean", "centroid-axes", "centroid-atoms", "same-residue-identity"}
        try:
            _pair_loop_pinned(chk, fi, fm, inl, fold, loop, c)
        finally:
            chk.robust |= saved
    # ---- emission -----------------------------------------------------------------------------------
    from checks.c03 import find_emission

    ems = find_emission(fi, store)
    if len(ems) != 1 or not (isinstance(ems[0][1], ast.Tuple) and len(ems[0][1].elts) == 3 and all(isinstance(e, ast.Name) for e in ems[0][1].elts)):
        chk.error("stack-emission", fi.where, "place where the recorded triples become Stacking objects not found")
    else:
        it, tgt, rec, site = ems[0]
        a, b, t = (e.id for e in tgt.elts)
        keyed = astq.match(it, f"sorted({store}, key=K_)") is not None and isinstance(it, ast.Call)
        if norm(it) == f"sorted({store})":
            chk.ok("stack-emission", fi.site(site), "stackings are emitted in sorted order, one per recorded triple")
        elif isinstance(it, ast.Call) and astq.callee_name(it) == "sorted" and len(it.args) == 1 and norm(it.args[0]) == store and any(k.arg == "key" for k in it.keywords):
            from checks import c11e

            c11e.check_sort_key(chk, fi, it, "stack-emission", "stackings")
        elif norm(it) in (store, f"set({store})", f"reversed({store})", f"list({store})"):
            chk.violation("stack-emission", fi.site(site), f"stackings are emitted by iterating `{norm(it)}`, not sorted({store}): the output order follows the KD-tree / set order", K(fi, "emission"), found=norm(it))
        else:
            chk.error("stack-emission", fi.site(site), f"emission source `{norm(it)}` not recognised")
        want = f"Stacking(Residue({a}.label, {a}.auth), Residue({b}.label, {b}.auth), StackingTopology[{t}])"
        swapped = f"Stacking(Residue({b}.label, {b}.auth), Residue({a}.label, {a}.auth), StackingTopology[{t}])"
        if norm(rec) == want:
            chk.ok("stack-emission", fi.site(site), "Stacking(first, second, StackingTopology[label]) of the triple")
        elif norm(rec) == swapped:
            chk.violation("stack-emission", fi.site(site), "the emitted Stacking swaps the two residues of the recorded triple but keeps its topology", K(fi, "emission-record"), found=norm(rec))
        else:
            chk.violation("stack-emission-form", fi.site(site), f"the emitted Stacking is `{norm(rec)[:120]}`, not (first, second, StackingTopology[label]) of its triple", K(fi, "emission-record"), found=norm(rec))
    tops = set(repo.enum_members("common", "StackingTopology"))
    chk.expect(tops == {"upward", "downward", "inward", "outward"}, "stack-topology-enum", "src/rnapolis/common.py StackingTopology", "StackingTopology has the four members", "StackingTopology members changed", "common:StackingTopology", found=sorted(tops))
    for rule, n in (("stack-radius", 1), ("stack-normals", 1), ("stack-offset", 1), ("stack-labels", 1), ("centroid-mean", 1)):
        chk.floor(rule, n)
    # the shared geometric primitives
    from checks import c03

    c03.check_base_normal(chk)


MANIFEST_ENTRY = {
    "text": "Static decision of the structural clauses of the stacking definition on the current source of find_stackings: radius 6.0, centroid = mean of the present base atoms, "
    "skip iff min(angle(n_i,n_j), angle(-n_i,n_j)) > 35 degrees, skip iff min(angle(v,n_i), angle(v,n_j)) > 45 degrees (cell-by-cell accept regions over both angles, so min/max and "
    "unit slips are visible), no other filter, same_direction iff dot > 0, label grouping and lower-first orientation enumerated over the four cases, sorted emission. Since round 3 the clauses are decided first by fact-level rules (checks/c04e.py): symbolic path execution of the stacking loop, angles read as angles or as cosines, centroid and base normal by value on representative residues, memoised members of the structure argument; the pinned forms are per-aspect fallbacks.",
    "note": "Trusted: KD-tree yields each pair once; float geometry not decided; which of the two labels of a group applies is a convention the statement does not fix.",
    "technique": "static analysis: constant folding, reaching definitions, accept-region evaluation over the cell partition, finite case enumeration of branch outcomes + symbolic path execution and fragment evaluation of the ast on input-class representatives",
}
