"""C04 - stacking annotation equals its geometric definition.

Decided on annotator.find_stackings: centroid of the present base atoms per residue, radius 6.0, min over
{angle(n_i,n_j), angle(-n_i,n_j)} <= 35 degrees, min over {angle(v,n_i), angle(v,n_j)} <= 45 degrees with v the
centroid difference, closed set of skips, same_direction <=> dot > 0, label grouping and (lower, higher)
orientation in every branch, sorted emission.
"""
from __future__ import annotations

import ast
import itertools
from typing import Dict, List, Optional

from checks.c03 import K, classify_skips, fold_call_arg, kd_loop, spec
from sa import astq, intervals
from sa.consteval import Folder
from sa.defuse import Inliner
from sa.flow import FlowMap
from sa.model import AnalysisError, norm

AN = "annotator"


def bool_eval(e: ast.AST, env: Dict[str, bool]) -> Optional[bool]:
    t = norm(e)
    if t in env:
        return env[t]
    if isinstance(e, ast.UnaryOp) and isinstance(e.op, ast.Not):
        v = bool_eval(e.operand, env)
        return None if v is None else not v
    if isinstance(e, ast.BoolOp):
        vs = [bool_eval(v, env) for v in e.values]
        if None in vs:
            return None
        return all(vs) if isinstance(e.op, ast.And) else any(vs)
    if isinstance(e, ast.Constant) and isinstance(e.value, bool):
        return e.value
    return None


def str_eval(e: ast.AST, env: Dict[str, bool]) -> Optional[str]:
    if isinstance(e, ast.Constant) and isinstance(e.value, str):
        return e.value
    if isinstance(e, ast.IfExp):
        t = bool_eval(e.test, env)
        if t is None:
            return None
        return str_eval(e.body if t else e.orelse, env)
    return None


def run(chk) -> None:
    repo = chk.repo
    c = spec("constants.json")["C04"]
    chk.explanation = (
        "Static rules on annotator.find_stackings: folded KD-tree radius; centroid = per-axis mean over the base atoms actually present (same list in numerator and "
        "denominator); accept regions of the two angle tests evaluated cell by cell over both candidate angles (so min/max slips and unit slips show) against 35 and 45 "
        "degrees; operands of every angle resolved by reaching definitions; closed-world classification of the skips; same_direction <=> dot(n_i,n_j) > 0; the label "
        "and orientation of the appended triple enumerated over the four (order, direction) cases; emission through sorted()."
    )
    chk.trusted = ["CPython ast", "scipy KDTree.query_pairs yields each unordered pair once with i < j", "base normal and angle function are C03's obligations (re-checked there)"]
    chk.assumptions = ["pairs within 1e-6 of a threshold are undecided", "float geometry is not decided", "which of upward/downward (inward/outward) applies for a given order is a convention; only the grouping is decided"]
    fi = repo.func(AN, "find_stackings")
    chk.note_function(fi)
    fm = FlowMap(fi.node)
    inl = Inliner(fi.node)
    fold = Folder(repo, AN).fold
    loop = kd_loop(chk, fi)
    r = fold_call_arg(chk, fi, loop.iter)
    chk.expect(r == c["stacking_max_distance"], "stack-radius", fi.site(loop), f"centroid pairs come from query_pairs({r})", f"stacking search radius folds to {r}, the statement says {c['stacking_max_distance']} A", K(fi, "radius"), expected=c["stacking_max_distance"], found=r)

    # ---- centroids --------------------------------------------------------------------------
    rls = [l for l in fi.node.body if isinstance(l, ast.For) and astq.match(l.iter, "structure.residues") is not None]
    if len(rls) != 1:
        raise AnalysisError("find_stackings: residue loop not found")
    rl = rls[0]
    head = rl.body[0]
    chk.expect(isinstance(head, ast.If) and astq.match(head.test, "model is not None and residue.model != model") is not None and isinstance(head.body[-1], ast.Continue), "model-filter", fi.site(rl), "residues of other models are skipped first", "the residue loop does not start by skipping residues of other models", K(fi, "model-filter"))
    ba = [v for s, v in astq.assignments(rl, "base_atoms") if v is not None]
    chk.expect(len(ba) == 1 and norm(ba[0]) in ("BASE_ATOMS.get(residue.one_letter_name, [])",), "centroid-atoms", fi.site(rl), "centroid atoms = BASE_ATOMS of the residue's base", "centroid atom names are not BASE_ATOMS.get(residue.one_letter_name, [])", K(fi, "centroid-atoms"))
    gc = [s for s in ast.walk(rl) if isinstance(s, ast.Assign) and norm(s.targets[0]) == "geometric_center"]
    ok = False
    found = None
    if len(gc) == 1 and isinstance(gc[0].value, ast.Tuple) and len(gc[0].value.elts) == 3:
        found = norm(gc[0].value)
        lists = []
        ok = True
        for e in gc[0].value.elts:
            m = astq.match(e, "sum(L_) / len(L_)")
            if not m or not isinstance(m["L_"], ast.Name):
                ok = False
                break
            lists.append(m["L_"].id)
        if ok:
            # each list receives atom.<axis> of the found atom, inside the loop over base_atoms, under `atom is not None`
            axes = []
            for nm in lists:
                apps = [a for a in astq.calls(rl, "append") if astq.dotted(a.func.value) == nm]
                if len(apps) != 1 or not apps[0].args:
                    ok = False
                    break
                axes.append(norm(apps[0].args[0]))
                st = fm.stmt_of(apps[0])
                lps = [l for l in fm.of(st).loops if l is not rl]
                g = [norm(x.test) for x in fm.guards_within(st, rl) if x.polarity]
                ok = ok and len(lps) == 1 and norm(lps[0].iter) == "base_atoms" and g in (["atom is not None"], ["atom"])
            ok = ok and axes == ["atom.x", "atom.y", "atom.z"]
            at = [v for s, v in astq.assignments(rl, "atom") if v is not None]
            ok = ok and len(at) == 1 and norm(at[0]) == "residue.find_atom(atom_name)"
            g = [x for x in fm.guards_within(gc[0], rl) if x.polarity]
            ok = ok and len(g) == 1 and norm(g[0].test) in (f"len({lists[0]}) > 0", lists[0], f"len({lists[0]}) >= 1")
    chk.expect(ok, "centroid-mean", fi.site(gc[0]) if gc else fi.site(rl), "centroid = (sum/len) per axis over the coordinates of the base atoms that are present", "the centroid is not the per-axis mean over exactly the base atoms found in the residue (numerator and denominator must use the same list)", K(fi, "centroid"), found=found)
    reg = [s for s in ast.walk(rl) if isinstance(s, ast.stmt) and norm(s) in ("coordinates.append(geometric_center)", "coordinates_residue_map[geometric_center] = residue")]
    chk.expect(len(reg) == 2, "centroid-register", fi.site(rl), "one centroid per residue is registered for the search and mapped back to its residue", "the centroid is not registered once in `coordinates` and mapped to its residue", K(fi, "centroid-register"))

    # ---- skips (closed world) -----------------------------------------------------------------
    for nm, want in (("residue_i", "coordinates_residue_map[coordinates[i]]"), ("residue_j", "coordinates_residue_map[coordinates[j]]"), ("normal_i", "residue_i.base_normal_vector"), ("normal_j", "residue_j.base_normal_vector")):
        d = [v for s, v in astq.assignments(loop, nm) if v is not None]
        chk.expect(len(d) == 1 and norm(d[0]) == want, "stack-roles", fi.site(loop), f"{nm} = {want}", f"{nm} is not {want}", K(fi, f"role:{nm}"))
    skips = [st for st in loop.body if isinstance(st, ast.If) and st.body and isinstance(st.body[-1], ast.Continue) and not st.orelse]
    none_skips = [s for s in skips if norm(s.test) in ("normal_i is None or normal_j is None", "normal_j is None or normal_i is None")]
    chk.expect(len(none_skips) == 1, "stack-skips", fi.site(loop), "pairs without both normals are skipped", "missing-normal skip absent", K(fi, "skip-none"))
    angle_skips = [s for s in skips if s not in none_skips]
    stop = ("normal_i", "normal_j", "residue_i", "residue_j", "coordinates")
    classified = {"normals": None, "offset": None}
    extra = []
    for s in angle_skips:
        test = inl.inline(s.test, s, stop=stop)
        calls = [n for n in ast.walk(test) if isinstance(n, ast.Call) and astq.callee_name(n) == "angle_between_vectors"]
        sig = sorted(norm(x) for x in calls)
        if sig in (["angle_between_vectors(-normal_i, normal_j)", "angle_between_vectors(normal_i, normal_j)"], ["angle_between_vectors(normal_i, -normal_j)", "angle_between_vectors(normal_i, normal_j)"]):
            classified["normals"] = (s, test, calls)
        elif len(calls) == 2 and all(len(x.args) == 2 for x in calls):
            vecs = {norm(x.args[0]) for x in calls} | {norm(x.args[1]) for x in calls}
            ns = vecs & {"normal_i", "normal_j"}
            other = vecs - ns
            if ns == {"normal_i", "normal_j"} and len(other) == 1:
                classified["offset"] = (s, test, calls, other.pop())
            else:
                extra.append(s)
        else:
            extra.append(s)
    for s in extra:
        chk.violation("stack-extra-filter", fi.site(s), f"additional or unrecognised filter `if {norm(s.test)[:70]}: continue` in the stacking loop", K(fi, f"extra:{norm(s.test)[:50]}"))
    chk.ok("stack-extra-filter", fi.site(loop), f"{len(skips)} skips: missing normal, normal-normal angle, offset angle - nothing else")

    def check_region(tag, entry, limit, rule):
        if entry is None:
            chk.violation(rule, fi.site(loop), f"the {tag} criterion is missing from the stacking loop", K(fi, f"{tag}-missing"))
            return
        s, test, calls = entry[0], entry[1], entry[2]
        texts = [norm(x) for x in calls]
        qs = [((lambda n, t=t: isinstance(n, ast.Call) and norm(n) == t), "rad") for t in texts]
        try:
            regn = intervals.region(test, qs, fold, extra_thresholds=(limit, 0.0, 180.0))
            bad = {k: v for k, v in regn.items() if 0 <= k[0] <= 180 and 0 <= k[1] <= 180 and v != (min(k) > limit)}
            chk.expect(
                not bad,
                rule,
                fi.site(s),
                f"a pair is skipped iff the smaller of the two angles exceeds {limit} degrees ({len(regn)} cells compared)",
                f"{tag} test `{norm(s.test)}` does not skip exactly when min(angle_1, angle_2) > {limit} degrees",
                K(fi, f"{tag}-region"),
                expected=f"skip iff min(a1, a2) > {limit} deg",
                found={str(k): v for k, v in list(bad.items())[:6]},
            )
        except intervals.NotThreshold as ex:
            chk.error(rule, fi.site(s), str(ex))

    check_region("normal-normal", classified["normals"], c["max_angle_between_normals_deg"], "stack-normals")
    check_region("offset", classified["offset"], c["max_angle_vector_normal_deg"], "stack-offset")
    if classified["offset"] is not None:
        vname = classified["offset"][3]
        vdef = inl.reaching(vname, classified["offset"][0]) if vname.isidentifier() else None
        # the definition is overwritten (`angle` is reused), take the assignment of the vector name inside the loop
        vd = [v for s, v in astq.assignments(loop, vname) if v is not None] if vname.isidentifier() else []
        ok = False
        if len(vd) == 1 or not vname.isidentifier():
            t = norm(vd[0]) if vd else vname
            ok = t in (
                "numpy.array([coordinates[i][k] - coordinates[j][k] for k in (0, 1, 2)])",
                "numpy.array([coordinates[j][k] - coordinates[i][k] for k in (0, 1, 2)])",
                "numpy.array(coordinates[i]) - numpy.array(coordinates[j])",
                "numpy.array(coordinates[j]) - numpy.array(coordinates[i])",
                "numpy.array([coordinates[i][k] - coordinates[j][k] for k in range(3)])",
            )
        chk.expect(ok, "stack-offset-vector", fi.site(loop), "the offset vector is the difference of the two centroids", f"the offset vector `{vname}` is not the centroid difference coordinates[i] - coordinates[j] over all three axes", K(fi, "offset-vector"), found=[norm(x) for x in vd] or vname)

    # ---- direction and labels -------------------------------------------------------------------
    sd = [v for s, v in astq.assignments(loop, "same_direction") if v is not None]
    ok = False
    if len(sd) == 1:
        e = sd[0]
        if isinstance(e, ast.IfExp) and norm(e.body) == "True" and norm(e.orelse) == "False":
            e = e.test
        ok = norm(e) in ("numpy.dot(normal_i, normal_j) > 0.0", "numpy.dot(normal_i, normal_j) > 0", "numpy.dot(normal_j, normal_i) > 0.0", "0.0 < numpy.dot(normal_i, normal_j)", "bool(numpy.dot(normal_i, normal_j) > 0.0)")
    chk.expect(ok, "stack-direction", fi.site(loop), "same_direction <=> dot(normal_i, normal_j) > 0", "same_direction is not `dot(normal_i, normal_j) > 0`", K(fi, "direction"), found=[norm(x) for x in sd])
    apps = [a for a in astq.calls(loop, "append") if astq.dotted(a.func.value) == "pairs"]
    cases = {}
    problems = []
    for lower_first, same in itertools.product((True, False), (True, False)):
        env = {"residue_i < residue_j": lower_first, "residue_j > residue_i": lower_first, "residue_j < residue_i": not lower_first, "residue_i > residue_j": not lower_first, "same_direction": same}
        hits = []
        for a in apps:
            st = fm.stmt_of(a)
            gs = [g for g in fm.guards_within(st, loop) if g.kind == "if"]
            vals = [bool_eval(g.test, env) for g in gs]
            if None in vals:
                problems.append(f"guard not understood: {[norm(g.test) for g in gs]}")
                continue
            if all(v == g.polarity for v, g in zip(vals, gs)):
                hits.append(a)
        if len(hits) != 1:
            problems.append(f"case lower_first={lower_first}, same_direction={same}: {len(hits)} appends")
            continue
        t = hits[0].args[0]
        if not (isinstance(t, ast.Tuple) and len(t.elts) == 3):
            problems.append("appended value is not a triple")
            continue
        lab = str_eval(t.elts[2], env)
        first = str_eval(t.elts[0], env) if isinstance(t.elts[0], ast.IfExp) else norm(t.elts[0])
        second = norm(t.elts[1])
        cases[(lower_first, same)] = (first, second, lab)
    if problems:
        chk.error("stack-labels", fi.site(loop), "; ".join(problems[:3]))
    else:
        bad = {}
        for (lf, same), (a, b, lab) in cases.items():
            want_pair = ("residue_i", "residue_j") if lf else ("residue_j", "residue_i")
            group = {"upward", "downward"} if same else {"inward", "outward"}
            if (a, b) != want_pair or lab not in group:
                bad[f"lower_first={lf},same_direction={same}"] = [a, b, lab]
        chk.expect(
            not bad,
            "stack-labels",
            fi.site(loop),
            "in all four cases the lower residue comes first and the label is upward/downward iff the normals point the same way",
            "label grouping or orientation is wrong in some branch: same direction must give upward/downward, opposite inward/outward, lower residue first",
            K(fi, "labels"),
            found=bad,
        )
        labs = {v[2] for v in cases.values()}
        chk.expect(len(labs) == 4, "stack-labels", fi.site(loop), "the four cases use the four topologies", "two cases share a topology label", K(fi, "labels-distinct"), found=sorted(labs))
    # ---- emission -----------------------------------------------------------------------------------
    outs = [l for l in fi.node.body if isinstance(l, ast.For) and "pairs" in astq.names(l.iter) and l is not loop]
    ok = len(outs) == 1 and norm(outs[0].iter) == "sorted(pairs)" and norm(outs[0].target) == "(residue_i, residue_j, topology)"
    chk.expect(ok, "stack-emission", fi.site(outs[0]) if outs else fi.where, "stackings are emitted in sorted order, one per recorded triple", "stackings are not emitted by iterating sorted(pairs)", K(fi, "emission"))
    if outs:
        body = [norm(s) for s in outs[0].body]
        ok = body == ["nt1 = Residue(residue_i.label, residue_i.auth)", "nt2 = Residue(residue_j.label, residue_j.auth)", "stackings.append(Stacking(nt1, nt2, StackingTopology[topology]))"]
        chk.expect(ok, "stack-emission", fi.site(outs[0]), "Stacking(first, second, StackingTopology[label])", "the emitted Stacking does not carry (first, second, StackingTopology[label]) of its triple", K(fi, "emission-record"), found=body)
    tops = set(repo.enum_members("common", "StackingTopology"))
    chk.expect(tops == {"upward", "downward", "inward", "outward"}, "stack-topology-enum", "src/rnapolis/common.py StackingTopology", "StackingTopology has the four members", "StackingTopology members changed", "common:StackingTopology", found=sorted(tops))
    for rule, n in (("stack-radius", 1), ("stack-normals", 1), ("stack-offset", 1), ("stack-labels", 1), ("centroid-mean", 1)):
        chk.floor(rule, n)
    # the shared geometric primitives
    from checks import c03

    c03.check_base_normal(chk)


MANIFEST_ENTRY = {
    "text": "Static decision of the structural clauses of the stacking definition on the current source of find_stackings: radius 6.0, centroid = mean of the present base atoms, "
    "skip iff min(angle(n_i,n_j), angle(-n_i,n_j)) > 35 degrees, skip iff min(angle(v,n_i), angle(v,n_j)) > 45 degrees (cell-by-cell accept regions over both angles, so min/max and "
    "unit slips are visible), no other filter, same_direction iff dot > 0, label grouping and lower-first orientation enumerated over the four cases, sorted emission.",
    "note": "Trusted: KD-tree yields each pair once; float geometry not decided; which of the two labels of a group applies is a convention the statement does not fix.",
    "technique": "static analysis: constant folding, reaching definitions, accept-region evaluation over the cell partition, finite case enumeration of branch outcomes",
}
