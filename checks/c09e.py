"""C09, evaluated rules (round 3).

write_pdb (with the line formatter and any helper it calls) is interpreted from its ast on small representative tables -
one per class of (model change, chain change) transition between consecutive rows, for both row formats - and the text it
produces is compared with the record automaton of the format (MODEL / ATOM / TER / ENDMDL / END), with the column table
(TER lines) and, by feeding the atom lines to the interpreted reader loop, with the values of the table (round trip,
record type included).  Nothing of the repository is imported or run; pandas objects are record stubs.

Also here: producer/consumer agreement of the `atom_data` dictionary (a purely syntactic fact: every key the formatter reads
with a default is supplied by every dictionary that reaches it).
"""
from __future__ import annotations

import ast
from typing import Any, Dict, List, Optional, Tuple

from checks.c03 import K, spec
from checks.c08e import evidence, pdb_line, v2_decode
from sa import astq
from sa.blockeval import Unknown
from sa.fragment import BlockEval2, Obj, Raised, func_callable, module_callables
from sa.model import norm

M = "parser_v2"

PDB_TO_CIF_ROW = {
    "record_type": ["group_PDB"], "serial": ["id"], "element": ["type_symbol"], "name": ["label_atom_id", "auth_atom_id"], "altLoc": ["label_alt_id"],
    "resName": ["label_comp_id", "auth_comp_id"], "chainID": ["label_asym_id", "auth_asym_id"], "resSeq": ["label_seq_id", "auth_seq_id"], "iCode": ["pdbx_PDB_ins_code"],
    "x": ["Cartn_x"], "y": ["Cartn_y"], "z": ["Cartn_z"], "occupancy": ["occupancy"], "tempFactor": ["B_iso_or_equiv"], "charge": ["pdbx_formal_charge"], "model": ["pdbx_PDB_model_num"],
}


class Buffer:
    _folder_stub = True

    def __init__(self):
        self.parts: List[str] = []

    def write(self, s):
        self.parts.append(s)
        return len(s)

    def getvalue(self):
        return "".join(self.parts)

    def close(self):
        return None


def _row(fmt: str, k: int, model: int, chain: str, het: bool = False) -> Dict[str, Any]:
    """Row k of a representative table: every field has a value that identifies the row."""
    pdb = {
        "record_type": "HETATM" if het else "ATOM", "serial": 10 + k, "name": ["P", "C4'", "N1", "MG"][k % 4], "altLoc": None, "resName": ["G", "C", "A", "MG"][k % 4],
        "chainID": chain, "resSeq": 5 + k // 2, "iCode": "A" if k % 3 == 2 else None, "x": 1.5 + k, "y": -2.25 - k, "z": 30.125 + k, "occupancy": 1.0, "tempFactor": 20.5 + k,
        "element": ["P", "C", "N", "MG"][k % 4], "charge": None, "model": model,
    }
    if fmt == "PDB":
        return pdb
    out: Dict[str, Any] = {}
    for f, items in PDB_TO_CIF_ROW.items():
        for it in items:
            out[it] = pdb[f]
    return out


# (tag, [(model, chain)] per row)
TABLES: List[Tuple[Any, ...]] = [
    ("no atoms", []),
    ("one model, one chain", [(1, "A"), (1, "A"), (1, "A")]),
    ("one model, chains A and B", [(1, "A"), (1, "A"), (1, "B"), (1, "B")]),
    ("two models of the single chain A", [(1, "A"), (1, "A"), (2, "A"), (2, "A")]),
    ("two models, each with chains A and B", [(1, "A"), (1, "B"), (2, "A"), (2, "B")]),
    ("model 1 = chain A, model 2 = chain B", [(1, "A"), (2, "B")]),
    ("three models of one atom each, same chain", [(1, "A"), (2, "A"), (3, "A")]),
    ("models numbered 999 and 9999 (the full width of the MODEL serial)", [(999, "A"), (9999, "A"), (9999, "B")]),
    # rows whose (model, chain) sequence is not sorted: the order of the rows is data, the writer has to keep it
    ("chain B listed before chain A", [(1, "B"), (1, "B"), (1, "A"), (1, "A")]),
    ("hetero atoms of chain A listed after chain B", [(1, "A"), (1, "A"), (1, "B"), (1, "A")]),
    ("model 2 listed before model 1", [(2, "A"), (2, "A"), (1, "A"), (1, "A")]),
    ("lower-case chain before upper-case chain", [(1, "b"), (1, "B")]),
    # no field of the rows is in ascending order (serials, residue numbers, coordinates, names): sorting by any of them permutes the rows
    ("one chain whose atoms are listed in no particular order of serial / number / coordinate", [(1, "A"), (1, "A"), (1, "A"), (1, "A")], [2, 0, 3, 1]),
]


def expected_records(rows: List[Dict[str, Any]]) -> List[Tuple[str, Optional[Dict[str, Any]]]]:
    """The record automaton of the format: (record, the atom row it belongs to / closes)."""
    out: List[Tuple[str, Optional[Dict[str, Any]]]] = []
    last_model = None
    open_chain = None
    last = None
    for r in rows:
        if r["model"] != last_model:
            if last_model is not None:
                if open_chain is not None:
                    out.append(("TER", last))
                out.append(("ENDMDL", None))
            out.append(("MODEL", r))
            last_model, open_chain = r["model"], None
        if open_chain is not None and r["chainID"] != open_chain:
            out.append(("TER", last))
        out.append(("ATOM", r))
        open_chain, last = r["chainID"], r
    if open_chain is not None:
        out.append(("TER", last))
    if last_model is not None:
        out.append(("ENDMDL", None))
    out.append(("END", None))
    return out


def _kind(line: str) -> str:
    rec = line[:6].strip()
    return "ATOM" if rec in ("ATOM", "HETATM") else (rec or "<blank>")


def _ter_text(sp, last: Dict[str, Any]) -> str:
    buf = [" "] * 80
    buf[0:3] = "TER"

    def put(field, txt, left=False):
        lo, hi = sp["atom"][field]
        t = txt.ljust(hi - lo) if left else txt.rjust(hi - lo)
        buf[lo:hi] = list(t[: hi - lo])

    put("serial", str(last["serial"] + 1))
    put("resName", str(last["resName"]))
    put("chainID", str(last["chainID"]))
    put("resSeq", str(last["resSeq"]))
    put("iCode", str(last["iCode"] or ""), left=True)
    return "".join(buf)


def write_pdb_callable(repo):
    wp = repo.func(M, "write_pdb")
    m = repo.module(M)
    callees = {astq.callee_name(c) for c in ast.walk(wp.node) if isinstance(c, ast.Call)}
    # every function of the module reachable from write_pdb by name is interpreted (the formatter, extracted helpers)
    names = set()
    todo = [n for n in callees if n in m.funcs]
    while todo:
        n = todo.pop()
        if n in names or n == "write_pdb":
            continue
        names.add(n)
        todo += [astq.callee_name(c) for c in ast.walk(m.funcs[n].node) if isinstance(c, ast.Call) and astq.callee_name(c) in m.funcs]
    from sa.frame import pd_namespace

    env: Dict[str, Any] = {"io": Obj("io", StringIO=Buffer), "StringIO": Buffer, "pd": pd_namespace()}
    env.update(module_callables(repo, M, names=names, outer=env))
    return wp, func_callable(repo, M, wp.node, env, max_steps=40000)


def run_write_pdb(call, fmt: str, rows: List[Dict[str, Any]]) -> List[str]:
    from sa.frame import frame_from_rows

    # the table as the readers build it (sa/frame.py, the stand-in for pandas): row labels 0..n-1, missing values as None
    df = frame_from_rows(rows, fmt)
    text = call(df, None)
    if not isinstance(text, str):
        raise Unknown("write_pdb(df, None) does not return text")
    if len(rows) <= 3:
        # the same table written into a file-like object: the same text arrives there and nothing is returned
        sink = Buffer()
        if call(frame_from_rows(rows, fmt), sink) is not None or sink.getvalue() != text:
            raise Raised("AssertionError", "write_pdb(df, file) does not deliver the text it returns for write_pdb(df, None)")
    return text.split("\n")[:-1] if text.endswith("\n") else text.split("\n")


def check_write_pdb_eval(chk) -> bool:
    repo = chk.repo
    sp = spec("pdb_columns.json")
    try:
        wp, call = write_pdb_callable(repo)
    except Unknown:
        return False
    order_bad: List[Tuple[str, str]] = []
    ter_bad: List[str] = []
    trip_bad: Dict[str, Any] = {}
    width_bad: List[str] = []
    model_bad: List[str] = []
    perm_bad: List[Tuple[str, str]] = []
    n_tables = n_ter = n_atoms = 0
    from sa.fragment import coverage

    _cov = coverage()
    cov = _cov.__enter__()
    try:
        for fmt in ("PDB", "mmCIF"):
            for tag, spec_rows, *perm in TABLES:
                ks = perm[0] if perm else list(range(len(spec_rows)))  # which representative row stands at each position
                pdb_rows = [_row("PDB", k, m_, c) for k, (m_, c) in zip(ks, spec_rows)]
                rows = [_row(fmt, k, m_, c, het=(k % 4 == 3)) for k, (m_, c) in zip(ks, spec_rows)]
                for k, r in zip(ks, pdb_rows):
                    r["record_type"] = "HETATM" if k % 4 == 3 else "ATOM"
                try:
                    lines = run_write_pdb(call, fmt, rows)
                except Raised as ex:
                    order_bad.append((f"{fmt} table, {tag}", f"write_pdb raises {ex.name}"))
                    continue
                except Unknown:
                    raise
                except Exception as ex:
                    order_bad.append((f"{fmt} table, {tag}", f"write_pdb raises {type(ex).__name__}: {str(ex)[:60]}"))
                    continue
                n_tables += 1
                want = expected_records(pdb_rows)
                got = [_kind(l) for l in lines]
                # the atom records, in the order written, are the rows of the table in their order (serials identify the rows)
                written = [str((v2_decode(repo, l)[0] or {}).get("serial")).strip() for l in lines if _kind(l) == "ATOM"]
                serials = [str(r["serial"]) for r in pdb_rows]
                if written != serials and sorted(written) == sorted(serials):
                    perm_bad.append((f"{fmt} table, {tag}", f"rows with serials {serials} are written in the order {written}"))
                    continue
                if got != [w for w, _ in want]:
                    k = next((i for i in range(min(len(got), len(want))) if got[i] != want[i][0]), min(len(got), len(want)))
                    g = got[k] if k < len(got) else "<end of file>"
                    w = want[k][0] if k < len(want) else "<end of file>"
                    why = ""
                    if w == "TER" and g == "ENDMDL":
                        why = ": the last chain of a model is not closed with TER before ENDMDL"
                    elif w == "TER":
                        why = ": a chain is not closed with TER"
                    elif g == "TER":
                        why = ": a TER is written where no chain ends"
                    order_bad.append((f"{fmt} table, {tag}", f"records written {' '.join(got)}; after {' '.join(got[:k][-3:]) or 'the start'} the format needs {w}, {g} is written{why}"))
                    continue
                for (w, row), line in zip(want, lines):
                    if len(line) > 80:
                        width_bad.append(f"a {w} line is {len(line)} characters long")
                    if w == "TER":
                        n_ter += 1
                        exp = _ter_text(sp, row)
                        if line.ljust(80) != exp or len(line) != 80:
                            ter_bad.append(f"{fmt} table, {tag}: `{line.rstrip()}` ({len(line)} columns) instead of `{exp.rstrip()}` (80 columns)")
                    elif w == "MODEL":
                        lo, hi = sp["model_serial"]
                        if line[lo:hi] != str(row["model"]).rjust(hi - lo) or line[:6].strip() != "MODEL" or line[6:lo].strip() or line[hi:].strip():
                            model_bad.append(f"{fmt} table, {tag}: MODEL line `{line.rstrip()}` does not carry the model number {row['model']} right-justified in columns {lo + 1}-{hi}")
                    elif w == "ATOM":
                        n_atoms += 1
                        rec, _ = v2_decode(repo, line)
                        if rec is None:
                            trip_bad.setdefault(f"{fmt} rows", {})["line"] = "an atom line written by write_pdb is not an atom record for parse_pdb_atoms"
                            continue
                        for f in sp["atom"]:
                            wv = row[f]
                            gv = rec.get(f)
                            same = (gv is None and wv in (None, "")) or (gv is not None and wv is not None and (str(gv) == str(wv) or _num_eq(gv, wv)))
                            if not same:
                                trip_bad.setdefault(f"{fmt} rows", {})[f] = (wv, gv)
    except Unknown as ex:
        chk.ok("write-pdb-eval", wp.where, f"write_pdb is not evaluable on representative tables ({str(ex)[:90]}): the pinned-form rules decide")
        return False
    finally:
        _cov.__exit__(None, None, None)
    loops = [l for l in wp.node.body if isinstance(l, ast.For)]
    site = wp.site(loops[0]) if loops else wp.where
    with evidence(chk, "record-order", "ter-line", "ter-provenance", "pdb-round-trip", "model-line"):
        failed_tables = set()
        seen = set()
        for where, what in order_bad:
            failed_tables.add(where.split(", ", 1)[1])
            key = what.split(";")[-1][:60]
            if key in seen or len(seen) >= 3:
                continue
            seen.add(key)
            chk.violation("record-order", site, f"{where}: {what}", K(wp, "record-order"), found=what)
        for tag, *_ in TABLES:
            if tag not in failed_tables:
                chk.ok("record-order", site, f"evaluated ({tag}; PDB and mmCIF rows): MODEL opens every model, TER closes every chain (also the last chain of a model, before ENDMDL), ENDMDL closes every model, END ends the file")
        if ter_bad:
            chk.violation("ter-line", site, "a TER record does not name the last residue of the chain it closes with serial = last serial + 1 in the ATOM columns, padded to 80: " + ter_bad[0], K(wp, "ter-layout"), found=ter_bad[:4])
        elif n_ter:
            for what in ("serial = last atom's serial + 1 in columns 7-11", "residue name of the last atom in columns 18-20", "chain in column 22", "residue number in columns 23-26, insertion code in column 27", "padded to 80 columns"):
                chk.ok("ter-line", site, f"evaluated on {n_ter} TER records: {what}")
            chk.ok("ter-provenance", site, "evaluated: TER names the last residue of the chain it closes, serial = last serial + 1")
        if model_bad:
            chk.violation("model-line", site, model_bad[0], K(wp, "model-line"), found=model_bad[:3])
        elif n_tables:
            chk.ok("model-line", site, "evaluated: MODEL serial is written right-justified to columns 11-14")
        if width_bad:
            chk.violation("ter-line", site, width_bad[0], K(wp, "line-width"))
        from checks.c08e import new_helpers, report_silent_exits

        helpers = [g for g in new_helpers(repo, M)] + ([repo.func(M, "_format_pdb_atom_line")] if repo.has_func(M, "_format_pdb_atom_line") else [])
        report_silent_exits(chk, "pdb-round-trip", [wp] + [g for g in helpers if g is not wp], cov, "tables (every (model, chain) transition, ATOM and HETATM rows, both row formats, an empty table)", {"continue": "the row is not written: an atom of the table is missing from the file", "break": "writing stops there: the rows that follow are missing from the file", "return": "the text is returned before all rows are written"})
        if perm_bad:
            where, what = perm_bad[0]
            chk.violation(
                "pdb-round-trip",
                site,
                f"{where}: {what} - the atom records are not written in the order of the table's rows, so the table read back is a permutation of the table written "
                "(record positions, ascending serials and the residues a TER closes change); the order of the rows is part of the data",
                K(wp, "row-order"),
                found=[f"{a}: {b}" for a, b in perm_bad[:4]],
            )
        if trip_bad:
            for where, d in trip_bad.items():
                bits = "; ".join(f"{f}: `{w}` written, `{g}` read back" if f != "line" else str(w if isinstance(w, str) else (w, g)) for f, (w, g) in ((f, v if isinstance(v, tuple) else (v, None)) for f, v in d.items()))
                extra = " - the record type of HETATM rows is lost (written as ATOM)" if "record_type" in d else ""
                chk.violation("pdb-round-trip", site, f"{where} written by write_pdb and read by parse_pdb_atoms do not come back as they were: {bits[:300]}{extra}", K(wp, f"round-trip:{where}"), found={k: list(v) if isinstance(v, tuple) else v for k, v in d.items()})
        elif n_atoms:
            chk.ok("pdb-round-trip", site, f"evaluated: {n_atoms} atom lines written from PDB-format and mmCIF-format rows (ATOM and HETATM) are read back by the reader loop field for field (record type, serial, name, residue, chain, number, insertion code, coordinates, occupancy, B, element)")
    return True


def _num_eq(a: Any, b: Any) -> bool:
    try:
        return abs(float(a) - float(b)) < 5e-4
    except (TypeError, ValueError):
        return False


# --------------------------------------------------------------------------------------------------------------------
# producer / consumer agreement of a dictionary handed to a formatter
# --------------------------------------------------------------------------------------------------------------------
def keys_read(fn: ast.FunctionDef, param: str) -> Dict[str, bool]:
    """key -> has a default (True: `.get(key, default)`; False: `[key]` or `.get(key)`), for constant keys read from `param`."""
    out: Dict[str, bool] = {}
    for n in ast.walk(fn):
        if isinstance(n, ast.Call) and isinstance(n.func, ast.Attribute) and n.func.attr == "get" and isinstance(n.func.value, ast.Name) and n.func.value.id == param and n.args and isinstance(n.args[0], ast.Constant) and isinstance(n.args[0].value, str):
            out[n.args[0].value] = out.get(n.args[0].value, True) and len(n.args) > 1
        elif isinstance(n, ast.Subscript) and isinstance(n.value, ast.Name) and n.value.id == param and isinstance(n.slice, ast.Constant) and isinstance(n.slice.value, str) and isinstance(n.ctx, ast.Load):
            out[n.slice.value] = False
    return out


def dict_producers(fn: ast.FunctionDef, name: str, funcs: Optional[Dict[str, ast.FunctionDef]] = None) -> List[Tuple[ast.stmt, Optional[set]]]:
    """Assignments of `name` in fn with the constant key set they supply (None: not a dict display / dict(...) with constant keys).
    `name[k] = v` stores after an assignment extend its key set (flow-insensitively within the same block)."""
    out: List[Tuple[ast.stmt, Optional[set]]] = []
    for st in ast.walk(fn):
        if isinstance(st, ast.Assign) and len(st.targets) == 1 and isinstance(st.targets[0], ast.Name) and st.targets[0].id == name:
            v = st.value
            if isinstance(v, ast.Dict) and all(k is not None and isinstance(k, ast.Constant) for k in v.keys):
                out.append((st, {k.value for k in v.keys}))
            elif isinstance(v, ast.Call) and astq.callee_name(v) == "dict" and not v.args and all(k.arg for k in v.keywords):
                out.append((st, {k.arg for k in v.keywords}))
            elif isinstance(v, ast.Call) and isinstance(v.func, ast.Name) and funcs and v.func.id in funcs:
                # built by a function of the module: every dictionary it returns is a producer
                g = funcs[v.func.id]
                rets = [r.value for r in astq.walk_no_nested(g) if isinstance(r, ast.Return) and r.value is not None]
                for r in rets:
                    if isinstance(r, ast.Dict) and all(k is not None and isinstance(k, ast.Constant) for k in r.keys):
                        out.append((r, {k.value for k in r.keys}))
                    elif isinstance(r, ast.Name):
                        out.extend(dict_producers(g, r.id, funcs))
                    else:
                        out.append((st, None))
                if not rets:
                    out.append((st, None))
            else:
                out.append((st, None))
    return out


def check_atom_data_keys(chk, evaluated: bool = False) -> None:
    """Every key the line formatter reads from its dictionary (with a silent default) is supplied by every dictionary that write_pdb builds for it."""
    repo = chk.repo
    fm = repo.func(M, "_format_pdb_atom_line") if repo.has_func(M, "_format_pdb_atom_line") else None
    wp = repo.func(M, "write_pdb")
    if fm is None or not fm.node.args.args:
        chk.error("atom-data-keys", wp.where, "the line formatter _format_pdb_atom_line(atom_data) was not found")
        return
    reads = keys_read(fm.node, fm.node.args.args[0].arg)
    sites = [c for c in ast.walk(wp.node) if isinstance(c, ast.Call) and astq.callee_name(c) == fm.node.name and c.args]
    if not reads or not sites:
        chk.error("atom-data-keys", wp.where, "no constant keys read by the formatter / no call of the formatter in write_pdb")
        return
    for c in sites:
        a = c.args[0]
        if isinstance(a, ast.Dict):
            prods: List[Tuple[ast.AST, Optional[set]]] = [(c, {k.value for k in a.keys if isinstance(k, ast.Constant)})]
        elif isinstance(a, ast.Name):
            prods = list(dict_producers(wp.node, a.id, {q: g.node for q, g in repo.module(M).funcs.items() if "." not in q}))
            stores = {n.slice.value for n in ast.walk(wp.node) if isinstance(n, ast.Subscript) and isinstance(n.ctx, ast.Store) and isinstance(n.value, ast.Name) and n.value.id == a.id and isinstance(n.slice, ast.Constant)}
            # an empty display that is overwritten on every path before the call is only an initialisation
            full = [p for p in prods if p[1] is None or p[1]]
            prods = [(st, (ks | stores) if ks is not None else None) for st, ks in (full if full else prods)]
        else:
            chk.error("atom-data-keys", wp.site(c), f"argument `{norm(a)[:50]}` of the formatter not understood")
            continue
        if any(ks is None for _, ks in prods):
            if evaluated:
                # how the dictionary is built is not readable here; what the rule guards against - a key the formatter reads with a silent
                # default and a producer does not supply - shows as a field that does not come back, and the round trips were evaluated
                chk.ok("atom-data-keys", wp.site(c), "the dictionary handed to the formatter is not built by dict displays with constant keys; every field of every row came back on the evaluated round trips, so no key falls back to a default")
            else:
                chk.error("atom-data-keys", wp.site(c), "the dictionary handed to the formatter is not built by dict displays with constant keys")
            continue
        for st, ks in prods:
            missing = sorted(k for k in reads if k not in ks)
            unused = sorted(k for k in ks if k not in reads)
            silent = [k for k in missing if reads[k]]
            if missing:
                hint = f" (this dictionary supplies {unused} which the formatter never reads)" if unused else ""
                chk.violation(
                    "atom-data-keys",
                    wp.site(st),
                    f"the dictionary built here does not supply {missing}, which {fm.node.name} reads" + (" with a default: the formatter silently writes the default instead of the table's value" if silent else ": KeyError") + hint,
                    K(wp, f"atom-data:{','.join(missing)}"),
                    expected=sorted(reads),
                    found=sorted(ks),
                )
            else:
                chk.ok("atom-data-keys", wp.site(st), f"supplies all {len(reads)} keys the formatter reads")


# --------------------------------------------------------------------------------------------------------------------
# round 4: the atom line decided on the text write_pdb produces for probe rows (whatever the formatter looks like)
# --------------------------------------------------------------------------------------------------------------------
BASE_ROW = {"record_type": "HETATM", "serial": 12345, "name": "HO5'", "altLoc": "B", "resName": "GTP", "chainID": "X", "resSeq": 1234, "iCode": "C", "x": 1234.567, "y": -123.456, "z": 12.345,
            "occupancy": 0.75, "tempFactor": 123.45, "element": "MG", "charge": "2+", "model": 1}
# another value of full width per field, and the text the format prescribes for it
VARIANT = {"record_type": ("ATOM", "ATOM  "), "serial": (54321, "54321"), "name": ("1H5'", "1H5'"), "altLoc": ("A", "A"), "resName": ("PSU", "PSU"), "chainID": ("q", "q"), "resSeq": (-987, "-987"), "iCode": ("Z", "Z"),
           "x": (-999.999, "-999.999"), "y": (8765.432, "8765.432"), "z": (-54.321, " -54.321"), "occupancy": (1.0, "  1.00"), "tempFactor": (-12.34, "-12.34"), "element": ("ZN", "ZN"), "charge": ("1-", "1-")}
# short / special values: (field, value, text of the field's columns, which rule states it)
SHORT = [
    ("serial", 7, "    7", "justification"), ("resName", "G", "  G", "justification"), ("resSeq", -3, "  -3", "justification"), ("resSeq", 5, "   5", "justification"), ("element", "P", " P", "justification"),
    ("record_type", "ATOM", "ATOM  ", "justification"), ("altLoc", None, " ", "justification"), ("iCode", None, " ", "justification"), ("element", None, "  ", "justification"),
    ("name", "P", " P  ", "atom-name-alignment"), ("name", "C4'", " C4'", "atom-name-alignment"), ("name", "OP1", " OP1", "atom-name-alignment"), ("name", "N1", " N1 ", "atom-name-alignment"),
    ("name", "HO5'", "HO5'", "atom-name-alignment"), ("name", "1HB", "1HB ", "atom-name-alignment"), ("name", "MG", " MG ", "atom-name-alignment"),
    ("x", 0.5, "   0.500", "numeric-format"), ("x", 1.23456, "   1.235", "numeric-format"), ("y", -0.0004, "  -0.000", "numeric-format"), ("z", 100.0, " 100.000", "numeric-format"),
    ("occupancy", 0.456, "  0.46", "numeric-format"), ("occupancy", 1, "  1.00", "numeric-format"), ("tempFactor", 7.125, "  7.12", "numeric-format"), ("tempFactor", 99.999, "100.00", "numeric-format"),
    ("charge", None, "  ", "charge-format"), ("charge", "", "  ", "charge-format"), ("charge", "1+", "1+", "charge-format"), ("charge", "2-", "2-", "charge-format"), ("charge", "1", "1+", "charge-format"),
    ("charge", "-2", "2-", "charge-format"), ("charge", 1, "1+", "charge-format"), ("charge", -2, "2-", "charge-format"), ("charge", "0", "  ", "charge-format"),
]
CIF_OF = {"record_type": "group_PDB", "serial": "id", "name": "auth_atom_id", "altLoc": "label_alt_id", "resName": "auth_comp_id", "chainID": "auth_asym_id", "resSeq": "auth_seq_id", "iCode": "pdbx_PDB_ins_code",
          "x": "Cartn_x", "y": "Cartn_y", "z": "Cartn_z", "occupancy": "occupancy", "tempFactor": "B_iso_or_equiv", "element": "type_symbol", "charge": "pdbx_formal_charge", "model": "pdbx_PDB_model_num"}


def _atom_line(call, fmt: str, row: Dict[str, Any]) -> str:
    from sa.frame import frame_from_rows

    r = dict(row)
    if fmt == "mmCIF":
        out: Dict[str, Any] = {}
        for f, v in r.items():
            for it in PDB_TO_CIF_ROW[f]:
                out[it] = v
        r = out
    text = call(frame_from_rows([r], fmt), None)
    if not isinstance(text, str):
        raise Unknown("write_pdb(df, None) does not return text")
    lines = [l for l in text.split("\n") if _kind(l) == "ATOM"]
    if len(lines) != 1:
        raise Raised("AssertionError", f"a one-row table is written as {len(lines)} atom lines")
    return lines[0]


def check_atom_line_eval(chk) -> Optional[Dict[str, Tuple[int, int]]]:
    """Where each field of a row lands in the atom line and how it is formatted, read off the text write_pdb produces for probe rows.
    Returns the column layout found (field -> columns), or None when write_pdb is not evaluable (the abstract width reading decides)."""
    repo = chk.repo
    sp = spec("pdb_columns.json")
    try:
        wp, call = write_pdb_callable(repo)
    except Unknown:
        return None
    fm = repo.func(M, "_format_pdb_atom_line") if repo.has_func(M, "_format_pdb_atom_line") else wp
    layout: Dict[str, Optional[Tuple[int, int]]] = {}
    bad: Dict[str, List[str]] = {}
    try:
        for fmt in ("PDB", "mmCIF"):
            base = _atom_line(call, fmt, BASE_ROW)
            if len(base) != 80:
                bad.setdefault("writer-layout", []).append(f"a {fmt} row is written as a line of {len(base)} columns, not 80")
            for f, (val, text) in VARIANT.items():
                if fmt == "mmCIF" and f == "charge":
                    val = -1  # the mmCIF item holds an integer
                line = _atom_line(call, fmt, dict(BASE_ROW, **{f: val}))
                diff = [i for i in range(max(len(base), len(line))) if (base[i] if i < len(base) else None) != (line[i] if i < len(line) else None)]
                lo, hi = sp["atom"][f]
                cols = (min(diff), max(diff) + 1) if diff else None
                if fmt == "PDB":
                    layout[f] = cols
                if not diff or cols[0] < lo or cols[1] > hi:
                    bad.setdefault("writer-layout", []).append(f"{fmt} row: changing {f} changes columns {None if cols is None else (cols[0] + 1, cols[1])}, the format gives {f} columns {lo + 1}-{hi}")
                elif line[lo:hi] != text:
                    bad.setdefault("writer-layout", []).append(f"{fmt} row: {f} = {val!r} is written as `{line[lo:hi]}` in columns {lo + 1}-{hi}, the format says `{text}`")
                if len(line) != 80 and len(base) == 80:
                    bad.setdefault("writer-layout", []).append(f"{fmt} row with {f} = {val!r}: the line has {len(line)} columns")
            for f, val, text, rule in SHORT:
                v = val
                if fmt == "mmCIF" and f == "charge":
                    if isinstance(val, str) and val and val[-1] in "+-":
                        continue  # digit+sign strings are PDB values; the mmCIF item is an integer
                row = dict(BASE_ROW, **{f: v})
                try:
                    line = _atom_line(call, fmt, row)
                except Raised as ex:
                    bad.setdefault(rule, []).append(f"{fmt} row with {f} = {val!r}: write_pdb raises {ex.name}")
                    continue
                except Unknown:
                    raise
                except Exception as ex:
                    bad.setdefault(rule, []).append(f"{fmt} row with {f} = {val!r}: write_pdb raises {type(ex).__name__} ({str(ex)[:40]})")
                    continue
                lo, hi = sp["atom"][f]
                if line[lo:hi] != text or len(line) != 80:
                    bad.setdefault(rule, []).append(f"{fmt} row: {f} = {val!r} is written as `{line[lo:hi]}` (columns {lo + 1}-{hi}, line of {len(line)}), the format says `{text}`")
    except Unknown as ex:
        chk.ok("atom-line-eval", fm.where, f"the atom line is not evaluable on probe rows ({str(ex)[:80]}): the abstract width reading of the formatter decides")
        return None
    except Raised as ex:
        chk.ok("atom-line-eval", fm.where, f"probe rows are refused ({ex.name}): the abstract width reading of the formatter decides")
        return None
    texts = {
        "writer-layout": "evaluated on probe rows (PDB and mmCIF row format): every field is written to its own columns of the 80-column record, full-width values fill them exactly",
        "justification": "evaluated: serial, residue name, residue number and element right-justified, record name left-justified, absent optional fields blank",
        "atom-name-alignment": "evaluated: names of 1-3 characters starting with a letter begin in column 14, 4-character names and names starting with a digit in column 13",
        "numeric-format": "evaluated: coordinates with three decimals in 8 columns, occupancy and B-factor with two decimals in 6 columns, rounded",
        "charge-format": "evaluated: a numeric charge n is written as |n| followed by its sign, digit+sign strings are kept, absent / zero charge is blank",
    }
    with evidence(chk, *texts):
        for rule, text in texts.items():
            if rule in bad:
                chk.violation(rule, fm.where, "; ".join(bad[rule][:3]), K(fm, f"atom-line:{rule}"), found=bad[rule][:6])
            elif rule == "writer-layout":
                for f in sp["atom"]:
                    lo, hi = sp["atom"][f]
                    chk.ok(rule, fm.where, f"evaluated: {f} is written to columns {lo + 1}-{hi}")
                chk.ok(rule, fm.where, "evaluated: the record is 80 columns long for every probe row")
                chk.ok(rule, fm.where, text)
            else:
                chk.ok(rule, fm.where, text)
    return {f: c for f, c in layout.items() if c is not None}


# --------------------------------------------------------------------------------------------------------------------
# round 4: the four round trips of the statement, every step interpreted (write_pdb, write_cif, parse_pdb_atoms, parse_cif_atoms)
# --------------------------------------------------------------------------------------------------------------------
class _CifSink:
    """What write_cif hands to the mmcif library: DataContainer / DataCategory / IoAdapterPy as recording stubs."""

    def __init__(self):
        self.written: List[Any] = []

    def env(self) -> Dict[str, Any]:
        sink = self

        class Category:
            _folder_stub = True

            def __init__(self, name, attributeNameList=None, rowList=None, *a, **k):
                self.name, self.attrs, self.rows = name, list(attributeNameList or []), [list(r) for r in (rowList or [])]

            def append(self, row):
                self.rows.append(list(row))

            def appendAttribute(self, a):
                self.attrs.append(a)

            def getAttributeList(self):
                return list(self.attrs)

            def getRowList(self):
                return [list(r) for r in self.rows]

        class Container:
            _folder_stub = True

            def __init__(self, name, *a, **k):
                self.name, self.cats = name, []

            def append(self, cat):
                self.cats.append(cat)

        class Adapter:
            _folder_stub = True

            def writeFile(self, path, containerList=None, *a, **k):
                sink.written = list(containerList or [])
                return True

        from checks.c08e import _TmpFile

        class Tmp(_TmpFile):
            def read(self):
                return "<mmCIF text of the categories handed to the writer>"

        return {"DataContainer": Container, "DataCategory": Category, "IoAdapterPy": Adapter, "IoAdapterCore": Adapter, "tempfile": Obj("tempfile", NamedTemporaryFile=Tmp), "os": Obj("os", remove=lambda p: None, unlink=lambda p: None)}

    def atom_site(self):
        for c in self.written:
            for cat in getattr(c, "cats", []):
                if getattr(cat, "name", None) == "atom_site":
                    return cat
        return None


def module_function(repo, name: str, extra: Dict[str, Any]):
    from sa.frame import pd_namespace

    fi = repo.func(M, name)
    m = repo.module(M)
    names, todo = set(), [astq.callee_name(c) for c in ast.walk(fi.node) if isinstance(c, ast.Call)]
    while todo:
        n = todo.pop()
        if n in names or n not in m.funcs or n == name:
            continue
        names.add(n)
        todo += [astq.callee_name(c) for c in ast.walk(m.funcs[n].node) if isinstance(c, ast.Call)]
    env: Dict[str, Any] = {"io": Obj("io", StringIO=Buffer), "StringIO": Buffer, "pd": pd_namespace(), "object": object, "str": str, "bytes": bytes}
    env.update(extra)
    env.update(module_callables(repo, M, names=names, outer=env))
    return fi, func_callable(repo, M, fi.node, env, max_steps=60000)


CROSS_ROWS = [
    # record, serial, name, altLoc, resName, chain, resSeq, iCode, x, y, z, occupancy, B, element, charge, model
    ("ATOM", 1, "P", None, "G", "A", -2, None, 1.5, -2.25, 30.125, 1.0, 20.5, "P", None, 1),
    ("ATOM", 2, "C4'", "A", "G", "A", -2, None, -11.001, 0.0, 7.0, 0.5, 5.25, "C", None, 1),
    ("ATOM", 3, "HO5'", "B", "PSU", "A", 10, "A", 100.0, 200.5, -300.75, 0.25, 99.99, "H", None, 1),
    ("HETATM", 4, "MG", None, "MG", "B", 301, None, 4.0, 5.0, 6.0, 1.0, 12.0, "MG", "2+", 1),
    ("HETATM", 5, "CL", None, "CL", "B", 302, None, -4.0, -5.0, -6.0, 0.75, 13.0, "CL", "1-", 1),
    ("ATOM", 6, "P", None, "G", "A", -2, None, 1.75, -2.5, 30.25, 1.0, 21.5, "P", None, 2),
    # values that are valid and false as booleans: occupancy 0.00 (modelled, unobserved atoms), B 0.00, the origin, residue number 0
    ("ATOM", 7, "N1", None, "A", "A", 0, None, 0.0, 0.0, 0.0, 0.0, 0.0, "N", None, 2),
]
PDB_FIELDS = ["record_type", "serial", "name", "altLoc", "resName", "chainID", "resSeq", "iCode", "x", "y", "z", "occupancy", "tempFactor", "element", "charge", "model"]
TOL = {"x": 0.0005, "y": 0.0005, "z": 0.0005, "occupancy": 0.005, "tempFactor": 0.005}  # the rows carry 3 resp. 2 decimals: they come back as written


def _rows_of(frame, fields: List[str]) -> List[Dict[str, Any]]:
    from sa.frame import isna

    out = []
    for i in range(len(frame.index)):
        out.append({f: (None if f not in frame._cols or isna(frame._cols[f][i]) else frame._cols[f][i]) for f in fields})
    return out


def _field_same(f: str, a: Any, b: Any) -> bool:
    if a in (None, "") and b in (None, ""):
        return True
    if a is None or b is None:
        return False
    if f in TOL:
        try:
            return abs(float(a) - float(b)) <= TOL[f]
        except (TypeError, ValueError):
            return False
    if f == "charge":
        def norm_charge(v):
            t = str(v).strip()
            if len(t) == 2 and t[0].isdigit() and t[1] in "+-":
                return int(t[0]) * (1 if t[1] == "+" else -1)
            try:
                return int(float(t))
            except ValueError:
                return t
        return norm_charge(a) == norm_charge(b)
    return str(a) == str(b)


def _near(a: Any, b: Any) -> bool:
    """numerically the same value up to a lost decimal: a matter of precision, not of which field goes where"""
    try:
        return a is not None and b is not None and abs(float(a) - float(b)) < 0.06
    except (TypeError, ValueError):
        return False


def check_cross_paths_eval(chk) -> bool:
    """PDB->PDB, mmCIF->mmCIF, PDB->mmCIF->PDB and mmCIF->PDB->mmCIF on representative rows, every writer and reader interpreted (the
    mmcif library is a recording stub between write_cif and parse_cif_atoms).  Rules pdb-round-trip, cif-to-cif, field-map-pdb-to-cif,
    field-map-cif-to-pdb, value-domain, null-agreement."""
    from checks.c08e import CIF_DOC, _Category, V2CifReader, V2Reader
    from sa.frame import Frame, frame_from_rows, isna

    repo = chk.repo
    wc = repo.func(M, "write_cif")
    bad: Dict[str, List[str]] = {}
    try:
        sink = _CifSink()
        _, w_pdb = module_function(repo, "write_pdb", {})
        _, w_cif = module_function(repo, "write_cif", sink.env())
        r_pdb = V2Reader(repo)
        r_cif = V2CifReader(repo)

        def to_pdb_text(table):
            t = w_pdb(table, None)
            if not isinstance(t, str):
                raise Unknown("write_pdb(df, None) does not return text")
            return t.split("\n")

        def to_cif(table):
            sink.written = []
            w_cif(table, None)
            cat = sink.atom_site()
            if cat is None:
                raise Unknown("write_cif does not hand an atom_site category to the mmcif writer")
            if any(len(r) != len(cat.attrs) for r in cat.rows):
                bad.setdefault("field-map-pdb-to-cif", []).append(f"write_cif writes rows of {sorted({len(r) for r in cat.rows})} values under {len(cat.attrs)} item names: the columns shift")
                raise Raised("AssertionError", "ragged atom_site category")
            r_cif.category = _Category(cat.attrs, cat.rows)
            res = r_cif.call("".join(CIF_DOC))
            if not isinstance(res, Frame):
                raise Unknown("parse_cif_atoms does not return a table")
            return res, cat

        def read_pdb(lines):
            return r_pdb.read([l for l in lines if l != ""])

        src = [dict(zip(PDB_FIELDS, r)) for r in CROSS_ROWS]
        pdb_table = read_pdb(to_pdb_text(frame_from_rows(src, "PDB")))  # a table as the reader types it
        # PDB -> PDB
        for k, (a, b) in enumerate(zip(src, _rows_of(pdb_table, PDB_FIELDS))):
            for f in PDB_FIELDS:
                if not _field_same(f, a[f], b[f]):
                    bad.setdefault("pdb-round-trip", []).append(f"PDB->PDB: {f} of row {k + 1} is {a[f]!r}, read back as {b[f]!r}")
        if len(pdb_table.index) != len(src):
            bad.setdefault("pdb-round-trip", []).append(f"PDB->PDB: {len(src)} rows written, {len(pdb_table.index)} read back")
        # PDB -> mmCIF: every item carries its PDB field
        cif_table, cat = to_cif(pdb_table)
        for k, a in enumerate(src):
            if k >= len(cif_table.index):
                break
            for f, items in PDB_TO_CIF_ROW.items():
                for it in items:
                    got = None if it not in cif_table._cols or isna(cif_table._cols[it][k]) else cif_table._cols[it][k]
                    if not _field_same(f, a[f], got):
                        rule = "value-domain" if f == "charge" else ("null-agreement" if a[f] is None else ("numeric-format" if _near(a[f], got) else "field-map-pdb-to-cif"))
                        bad.setdefault(rule, []).append(f"PDB->mmCIF: {f} = {a[f]!r} of row {k + 1} arrives in item {it} as {got!r}")
        if len(cif_table.index) != len(src):
            bad.setdefault("field-map-pdb-to-cif", []).append(f"PDB->mmCIF: {len(src)} rows written, {len(cif_table.index)} read back")
        # PDB -> mmCIF -> PDB
        back = read_pdb(to_pdb_text(cif_table))
        for k, (a, b) in enumerate(zip(src, _rows_of(back, PDB_FIELDS))):
            for f in PDB_FIELDS:
                if not _field_same(f, a[f], b[f]):
                    rule = "value-domain" if f == "charge" else ("numeric-format" if _near(a[f], b[f]) else "field-map-cif-to-pdb")
                    bad.setdefault(rule, []).append(f"PDB->mmCIF->PDB: {f} of row {k + 1} is {a[f]!r}, comes back as {b[f]!r}")
        # mmCIF -> mmCIF (a table with items PDB does not know, missing values of both kinds)
        extra = []
        for k, a in enumerate(src):
            row = {it: a[f] for f, items in PDB_TO_CIF_ROW.items() for it in items}
            row["pdbx_formal_charge"] = None if a["charge"] is None else (int(a["charge"][0]) * (1 if a["charge"][1] == "+" else -1))
            row.update({"label_entity_id": "1" if k < 3 else "2", "label_seq_id": None if a["record_type"] == "HETATM" else 40 + k, "pdbx_sifts_xref_db_name": "PDB" if k % 2 else None})
            # label items that differ from the author items: the PDB fields are the author's
            row.update({"label_asym_id": {"A": "C", "B": "D"}[a["chainID"]], "label_atom_id": a["name"].replace("'", "*"), "label_comp_id": a["resName"].lower()})
            extra.append(row)
        r_cif.category = _Category(list(extra[0]), [["?" if v is None else (f"{v:.3f}" if isinstance(v, float) else str(v)) for v in r.values()] for r in extra])
        c0 = r_cif.call("".join(CIF_DOC))
        c1, _ = to_cif(c0)
        for it in c0._cols:
            for k in range(len(c0.index)):
                a0 = None if isna(c0._cols[it][k]) else c0._cols[it][k]
                a1 = None if it not in c1._cols or k >= len(c1.index) or isna(c1._cols[it][k]) else c1._cols[it][k]
                same = (a0 is None and a1 is None) or (a0 is not None and a1 is not None and (str(a0) == str(a1) or _field_same("x", a0, a1)))
                if not same:
                    bad.setdefault("null-agreement" if a0 is None else ("numeric-format" if _near(a0, a1) else "cif-to-cif"), []).append(f"mmCIF->mmCIF: item {it} of row {k + 1} is {a0!r}, read back as {a1!r}")
        if len(c1.index) != len(c0.index):
            bad.setdefault("cif-to-cif", []).append(f"mmCIF->mmCIF: {len(c0.index)} rows written, {len(c1.index)} read back")
        # mmCIF -> PDB -> mmCIF on the items PDB carries
        c2, _ = to_cif(read_pdb(to_pdb_text(c0)))
        for f, items in PDB_TO_CIF_ROW.items():
            it = items[-1] if len(items) == 2 else items[0]  # the author item where both exist
            for k in range(min(len(c0.index), len(c2.index))):
                a0 = None if isna(c0._cols[it][k]) else c0._cols[it][k]
                a2 = None if it not in c2._cols or isna(c2._cols[it][k]) else c2._cols[it][k]
                if not _field_same(f, a0, a2):
                    bad.setdefault("value-domain" if f == "charge" else "field-map-cif-to-pdb", []).append(f"mmCIF->PDB->mmCIF: item {it} of row {k + 1} is {a0!r}, comes back as {a2!r}")
    except Unknown as ex:
        chk.ok("cross-path-eval", wc.where, f"the round trips are not evaluable end to end ({str(ex)[:90]}): the pinned-form rules decide")
        return False
    except Raised as ex:
        if not bad:
            chk.ok("cross-path-eval", wc.where, f"a representative table is refused ({ex.name}): the pinned-form rules decide")
            return False
    texts = {
        "pdb-round-trip": "evaluated end to end (write_pdb -> parse_pdb_atoms): every field of every row comes back",
        "cif-to-cif": "evaluated end to end (write_cif -> parse_cif_atoms): every item of every row comes back, also items PDB does not know",
        "field-map-pdb-to-cif": "evaluated: every mmCIF item of a PDB row carries its own PDB field (label and author items alike), rows and items stay aligned",
        "field-map-cif-to-pdb": "evaluated: PDB->mmCIF->PDB and mmCIF->PDB->mmCIF give back record type, serial, names, alternate location, chain, number, insertion code, coordinates, occupancy, B, element and model",
        "value-domain": "evaluated: formal charges survive both cross paths (2+ <-> 2, 1- <-> -1)",
        "null-agreement": "evaluated: absent values written by either writer are absent values for the reader of the format",
        "numeric-format": "evaluated: coordinates keep three decimals, occupancy and B-factor two, on every path",
    }
    with evidence(chk, *texts):
        for rule, text in texts.items():
            if rule in bad:
                chk.violation(rule, wc.where, "; ".join(bad[rule][:3]), K(wc, f"cross:{rule}"), found=bad[rule][:6])
            else:
                chk.ok(rule, wc.where, text)
                if rule in ("field-map-pdb-to-cif",):
                    chk.ok(rule, wc.where, text + " [second cross path]")
    return True
