"""C08, evaluated rules (round 3): facts decided on the current code whatever its shape.

Each rule interprets one fragment of parser.py from its ast (sa/fragment.py on top of sa/blockeval.py) on one representative
per class of a finite input partition and compares the outcome with what the statement requires:

* grouping of atoms into residues (`group_atoms`): consecutive runs of equal (label, auth, model) - decided on the hand-written
  run loop, on itertools.groupby, with or without an extracted residue builder;
* the PDB record loop (`parse_pdb`): which classes of line yield an atom, which set the model, and that no record after which
  atom records can still follow ends the reading (a prefix test that also matches ENDMDL, TER, ...);
* column provenance of every decoded field by probe lines whose characters encode their own column;
* model selection (`read_3d_structure`): requested model when present, else the first model of the file.

A rule returns True when it could evaluate (its verdicts are recorded), False when the fragment is not evaluable - the
caller then falls back to the pinned-form reading.
"""
from __future__ import annotations

import ast
from typing import Any, Dict, List, Optional, Tuple

from checks.c03 import K, spec
from sa import astq
from sa.blockeval import Unknown
from sa.fragment import BlockEval2, Obj, Raised, func_callable, module_callables
from sa.model import norm

P = "parser"


class evidence:
    """Verdicts recorded inside this block were computed from the current code whatever its shape: a failure is a VIOLATION even
    in a rewritten function (the same rule id read from the pinned form outside the block stays a form rule)."""

    def __init__(self, chk, *rules: str):
        self.chk, self.rules = chk, rules

    def __enter__(self):
        self.added = [r for r in self.rules if r not in self.chk.robust]
        self.chk.robust.update(self.added)
        return self

    def __exit__(self, *a):
        for r in self.added:
            self.chk.robust.discard(r)
        return False


# --------------------------------------------------------------------------------------------------------------------
# group_atoms
# --------------------------------------------------------------------------------------------------------------------
def _atom(i: int, label: Any, auth: Any, model: int, entity: str = "1") -> Obj:
    return Obj(f"atom{i}", label=label, auth=auth, model=model, entity_id=entity, name=f"X{i}", x=0.0, y=0.0, z=0.0, occupancy=1.0)


def _runs(atoms: List[Obj]) -> List[Tuple[Any, Any, int, Tuple[str, ...]]]:
    out: List[List[Any]] = []
    for a in atoms:
        k = (a.label, a.auth, a.model)
        if out and out[-1][0] == k:
            out[-1][1].append(a._tag)
        else:
            out.append([k, [a._tag]])
    return [(k[0], k[1], k[2], tuple(t)) for k, t in out]


GROUP_CASES = [
    # (tag, which fact it isolates, [(label, auth, model) per atom])
    ("no atoms", "runs", []),
    ("a single atom", "runs", [("L1", "A1", 1)]),
    ("one residue of three atoms", "runs", [("L1", "A1", 1)] * 3),
    ("two residues, the last one with a single atom", "runs", [("L1", "A1", 1)] * 2 + [("L2", "A2", 1)]),
    ("three residues of 2, 3 and 2 atoms", "runs", [("L1", "A1", 1)] * 2 + [("L2", "A2", 1)] * 3 + [("L3", "A3", 1)] * 2),
    ("consecutive atoms that differ only in the label identity", "label", [("L1", "A1", 1)] * 2 + [("L2", "A1", 1)] * 2),
    ("consecutive atoms that differ only in the author identity", "auth", [("L1", "A1", 1)] * 2 + [("L1", "A2", 1)] * 2),
    ("consecutive atoms that differ only in the model", "model", [("L1", "A1", 1)] * 2 + [("L1", "A1", 2)] * 2),
    ("atoms without label identity (PDB input)", "runs", [(None, "A1", 1)] * 2 + [(None, "A2", 1)] * 2),
    ("the same identity met again after another residue", "runs", [("L1", "A1", 1)] * 2 + [("L2", "A2", 1)] + [("L1", "A1", 1)] * 2),
]


def check_group_eval(chk) -> bool:
    repo = chk.repo
    fi = repo.func(P, "group_atoms")
    params = [a.arg for a in fi.node.args.args]
    if len(params) != 5:
        return False
    made: List[Any] = []

    def residue3d(label, auth, model, one_letter_name, atoms):
        r = Obj("residue", label=label, auth=auth, model=model, one_letter_name=one_letter_name, atoms=atoms, is_nucleotide=True)
        made.append(r)
        return r

    stubs = {
        "Residue3D": residue3d,
        "Structure3D": lambda residues: Obj("structure", residues=list(residues)),
        "get_residue_name": lambda auth, label, modified: "g",
        "get_one_letter_name": lambda entity_id, label, sequence_by_entity, name: "G",
        "detect_one_letter_name": lambda atoms: "N",
    }
    env = dict(stubs)
    env.update(module_callables(repo, P, outer=env))  # helpers a refactoring extracted are interpreted, not pinned
    bad: Dict[str, List[str]] = {}
    from sa.fragment import coverage

    _cov = coverage()
    cov = _cov.__enter__()
    try:
        for tag, fact, keys in GROUP_CASES:
            atoms = [_atom(i, *k) for i, k in enumerate(keys)]
            call = func_callable(repo, P, fi.node, env)
            try:
                res = call(atoms, {}, {}, {}, False)
            except Raised as ex:
                bad.setdefault("runs", []).append(f"{tag}: raises {ex.name}")
                continue
            except Unknown:
                raise
            except Exception as ex:
                bad.setdefault("runs", []).append(f"{tag}: raises {type(ex).__name__}")
                continue
            got = [(r.label, r.auth, r.model, tuple(getattr(a, "_tag", repr(a)) for a in r.atoms) if isinstance(r.atoms, (tuple, list)) else None) for r in getattr(res, "residues", [])] if isinstance(res, Obj) else None
            want = _runs(atoms)
            if got != want:
                if got is None:
                    msg = f"{tag}: the result is not a Structure3D of residues"
                elif len(got) < len(want):
                    msg = f"{tag}: {len(want)} residues expected, {len(got)} built" + (" (the last run is never emitted)" if got == want[:-1] else "")
                elif len(got) > len(want):
                    msg = f"{tag}: {len(want)} residues expected, {len(got)} built"
                else:
                    msg = f"{tag}: residues carry other atoms or another identity than their run"
                bad.setdefault(fact, []).append(msg)
            if any(not isinstance(r.atoms, tuple) for r in getattr(res, "residues", [])) and got == want:
                bad.setdefault("runs", []).append(f"{tag}: the atoms of a residue are not stored as a tuple")
    except Unknown as ex:
        chk.ok("group-eval", fi.where, f"group_atoms is not evaluable on representative atom lists ({str(ex)[:80]}): the pinned-form rules decide")
        return False
    finally:
        _cov.__exit__(None, None, None)
    with evidence(chk, "identity-key-model", "group-runs"):
        _group_verdicts(chk, fi, bad)
        report_silent_exits(chk, "group-runs", [fi] + new_helpers(repo, P), cov, "atom lists", {"continue": "atoms are left out of their residue", "break": "the grouping ends before the last atom", "return": "the structure is returned before all atoms are grouped"})
    return True


def _group_verdicts(chk, fi, bad) -> None:
    for comp in ("label", "auth", "model"):
        if comp in bad:
            chk.violation("identity-key-model", fi.where, f"residues are not delimited by a change of (label, auth, model): {bad[comp][0]} - the grouping key ignores the {comp}" + (", so the same residue of two models becomes one residue" if comp == "model" else ""), K(fi, "group-key"), found=bad[comp])
    if not any(c in bad for c in ("label", "auth", "model")):
        chk.ok("identity-key-model", fi.where, "evaluated: a change of the label identity, of the author identity or of the model alone starts a new residue")
    if "runs" in bad:
        chk.violation("group-runs", fi.where, "grouping does not turn every maximal run of consecutive atoms with equal (label, auth, model) into one residue holding exactly those atoms: " + "; ".join(bad["runs"][:3]), K(fi, "runs"), found=bad["runs"])
    else:
        chk.ok("group-runs", fi.where, f"evaluated on {len(GROUP_CASES)} atom lists: every maximal run of equal (label, auth, model) becomes one Residue3D(label, auth, model, name, tuple(atoms)) in file order, the last run included, no atom lost or duplicated")


# --------------------------------------------------------------------------------------------------------------------
# PDB readers: probe lines, record classes
# --------------------------------------------------------------------------------------------------------------------
class Lines(list):
    """A text file stub: the list of its lines with the file methods the readers use."""

    _folder_stub = True

    def seek(self, *a):
        return 0

    def readlines(self):
        return list(self)

    def read(self):
        return "".join(self)

    def close(self):
        return None


def dataclass_fields(repo, module: str, cls: str) -> List[str]:
    c = repo.cls(module, cls)
    return [b.target.id for b in c.body if isinstance(b, ast.AnnAssign) and isinstance(b.target, ast.Name) and "ClassVar" not in norm(b.annotation)]


def probe_pair(record: str) -> Tuple[str, str]:
    """Two lines whose characters in columns 7..80 are digits 1-9 that together encode their own column: col = 9*(d1-1) + (d2-1)."""
    head = record.ljust(6)[:6]
    return head + "".join(str(i // 9 + 1) for i in range(6, 80)), head + "".join(str(i % 9 + 1) for i in range(6, 80))


def _digits(v: Any) -> Optional[str]:
    if isinstance(v, bool) or v is None:
        return None
    if isinstance(v, float):
        if v != v or v in (float("inf"), float("-inf")) or v != int(v):
            return None
        return str(int(v))
    if isinstance(v, int):
        return str(v)
    if isinstance(v, str):
        return v
    return None


def columns_of(v1: Any, v2: Any) -> Optional[Tuple[int, int]]:
    """The half-open column range a decoded value was taken from, read off the two probe values; None when the value is not a
    contiguous piece of the line."""
    s1, s2 = _digits(v1), _digits(v2)
    if not s1 or not s2 or len(s1) != len(s2) or not (s1.isdigit() and s2.isdigit()) or "0" in s1 + s2:
        return None
    cols = [9 * (int(a) - 1) + int(b) - 1 for a, b in zip(s1, s2)]
    if any(cols[k + 1] != cols[k] + 1 for k in range(len(cols) - 1)):
        return None
    return cols[0], cols[-1] + 1


def pdb_line(sp: Dict[str, Any], record: str, fields: Dict[str, str]) -> str:
    """An 80-column line with each given field in its columns (wwPDB table)."""
    buf = [" "] * 80
    for k, v in dict(fields, record_type=record).items():
        lo, hi = sp["atom"][k]
        txt = v.ljust(hi - lo) if k in ("record_type",) else v.rjust(hi - lo)
        buf[lo:hi] = list(txt[: hi - lo])
    return "".join(buf)


ATOM_FIELDS = {"serial": "  417", "name": " CA ", "resName": "  G", "chainID": "B", "resSeq": " -12", "iCode": "C", "x": "  11.250", "y": " -22.500", "z": "  33.125", "occupancy": "  0.50", "tempFactor": " 42.17", "element": " C", "charge": "1-", "altLoc": "A"}

# record classes of the coordinate section: (tag, line, yields an atom, atom records may still follow it)
def record_classes(sp) -> List[Tuple[str, str, bool, bool]]:
    big = dict(ATOM_FIELDS, serial="12345")
    return [
        ("ATOM", pdb_line(sp, "ATOM", ATOM_FIELDS), True, True),
        ("HETATM", pdb_line(sp, "HETATM", ATOM_FIELDS), True, True),
        ("HETATM with a 5-digit serial", pdb_line(sp, "HETATM", big), True, True),
        ("ATOM with alternate location B", pdb_line(sp, "ATOM", dict(ATOM_FIELDS, altLoc="B")), True, True),
        ("ATOM with a blank alternate location", pdb_line(sp, "ATOM", dict(ATOM_FIELDS, altLoc=" ")), True, True),
        ("ANISOU", pdb_line(sp, "ANISOU", ATOM_FIELDS), False, True),
        ("TER", "TER     418        G B -12C".ljust(80), False, True),
        ("MODEL", "MODEL        2".ljust(80), False, True),
        ("ENDMDL", "ENDMDL".ljust(80), False, True),
        ("REMARK", "REMARK 465 ATOM  MISSING".ljust(80), False, True),
        ("HEADER", "HEADER    RNA                                     01-JAN-00   1ABC".ljust(80), False, True),
        ("CONECT", "CONECT  417  418".ljust(80), False, True),
        ("blank", "", False, True),
        ("END", "END".ljust(80), False, False),
    ]


class V1Reader:
    """parser.parse_pdb interpreted on stub files; Atom / ResidueAuth are recorded as tuples of their arguments."""

    def __init__(self, repo):
        self.repo = repo
        self.fi = repo.func(P, "parse_pdb")
        env: Dict[str, Any] = {
            "Atom": lambda *a: ("Atom",) + tuple(a),
            "ResidueAuth": lambda *a: ("ResidueAuth",) + tuple(a),
            "ResidueLabel": lambda *a: ("ResidueLabel",) + tuple(a),
            "filter_clashing_atoms": lambda atoms, *a: list(atoms),
        }
        env.update(module_callables(repo, P, outer=env))
        self.call = func_callable(repo, P, self.fi.node, env, max_steps=20000)
        self.atom_fields = dataclass_fields(repo, "tertiary", "Atom")
        self.auth_fields = dataclass_fields(repo, "common", "ResidueAuth")

    def read(self, lines: List[str]) -> List[Dict[str, Any]]:
        """decoded atoms as flat dicts: Atom fields, with the author identity spread as auth.<field>"""
        f = TextFile([l + "\n" for l in lines])
        f.pos = len(f.lines)  # a handle that was read to its end before (is_cif(f) comes first): the reader has to rewind it
        res = self.call(f)
        atoms = res[0] if isinstance(res, tuple) else res
        out = []
        for a in atoms:
            if not (isinstance(a, tuple) and a and a[0] == "Atom" and len(a) == len(self.atom_fields) + 1):
                raise Unknown("the reader does not return Atom(...) records")
            d = dict(zip(self.atom_fields, a[1:]))
            au = d.get("auth")
            if isinstance(au, tuple) and au and au[0] == "ResidueAuth" and len(au) == len(self.auth_fields) + 1:
                for k, v in zip(self.auth_fields, au[1:]):
                    d["auth." + k] = v
            out.append(d)
        return out


V1_FIELD_OF = {"name": "name", "auth.name": "resName", "auth.chain": "chainID", "auth.number": "resSeq", "auth.icode": "iCode", "x": "x", "y": "y", "z": "z", "occupancy": "occupancy"}


def v1_columns(repo) -> Optional[Dict[str, Optional[Tuple[int, int]]]]:
    """PDB field -> column range parser.parse_pdb takes it from (None: not a contiguous piece of the line), or None when not evaluable."""
    try:
        rd = V1Reader(repo)
        l1, l2 = probe_pair("ATOM")
        a1, a2 = rd.read([l1]), rd.read([l2])
        if len(a1) != 1 or len(a2) != 1:
            return None
        out = {f: columns_of(a1[0].get(k), a2[0].get(k)) for k, f in V1_FIELD_OF.items()}
        m1, m2 = probe_pair("MODEL")
        b1, b2 = rd.read([m1, l1]), rd.read([m2, l1])
        out["model"] = columns_of(b1[0].get("model"), b2[0].get("model")) if len(b1) == 1 and len(b2) == 1 else None
        return out
    except (Unknown, Raised):
        return None
    except Exception:
        return None


def _v2_loop(repo):
    b = repo.func("parser_v2", "parse_pdb_atoms")
    loops = [l for l in b.node.body if isinstance(l, ast.For) and isinstance(l.target, ast.Name)]
    loops = [l for l in loops if any(isinstance(n, ast.Call) and isinstance(n.func, ast.Attribute) and n.func.attr == "append" for n in ast.walk(l))]
    return b, (loops[0] if len(loops) == 1 else None)


def v2_decode(repo, line: str, model: int = 1) -> Tuple[Optional[Dict[str, Any]], Any]:
    """(record appended by the line loop of parser_v2.parse_pdb_atoms for this line or None, current model afterwards); raises Unknown."""
    b, loop = _v2_loop(repo)
    if loop is None:
        return _v2_decode_whole(repo, line)  # the line loop lives elsewhere (a helper, a generator): the whole reader is interpreted
    env: Dict[str, Any] = {loop.target.id: line, "current_model": model}
    for c in astq.calls(loop, "append"):
        if isinstance(c.func.value, ast.Name):
            env.setdefault(c.func.value.id, [])
    env.update(module_callables(repo, "parser_v2", outer=env))
    ev = BlockEval2(repo, "parser_v2", env)
    ev.run(loop.body)
    got = [v for k, v in ev.env.items() if isinstance(v, list) and v and isinstance(v[0], dict)]
    return (got[0][0] if got else None), ev.env.get("current_model")


_V2_READERS: Dict[int, Any] = {}


def _v2_decode_whole(repo, line: str) -> Tuple[Optional[Dict[str, Any]], Any]:
    """v2_decode through parse_pdb_atoms as a whole: the row the line becomes (None: no row), and the model an atom line that
    follows it gets."""
    from sa.frame import isna

    rd = _V2_READERS.get(id(repo))
    if rd is None:
        rd = _V2_READERS[id(repo)] = V2Reader(repo)
    try:
        t = rd.read([line])
        rec = {c: (None if isna(v[0]) else v[0]) for c, v in t._cols.items()} if len(t.index) == 1 else None
        probe = "ATOM  " + probe_pair("ATOM")[0][6:]
        t2 = rd.read([line, probe])
        model = t2._cols["model"][len(t2.index) - 1] if len(t2.index) and "model" in t2._cols else None
        return rec, (None if model is None or isna(model) else int(model))
    except Raised as ex:
        raise Unknown(f"parse_pdb_atoms raises {ex.name} on a probe line")


def v2_columns(repo, sp) -> Optional[Dict[str, Optional[Tuple[int, int]]]]:
    try:
        l1, l2 = probe_pair("ATOM")
        r1, _ = v2_decode(repo, l1)
        r2, _ = v2_decode(repo, l2)
        if r1 is None or r2 is None:
            return None
        out: Dict[str, Optional[Tuple[int, int]]] = {f: columns_of(r1.get(f), r2.get(f)) for f in sp["atom"] if f != "record_type"}
        h, _ = v2_decode(repo, "HETATM" + l1[6:])
        a, _ = v2_decode(repo, "ATOM  " + l1[6:])
        out["record_type"] = (0, 6) if h is not None and a is not None and h.get("record_type") == "HETATM" and a.get("record_type") == "ATOM" else None
        m1, m2 = probe_pair("MODEL")
        _, c1 = v2_decode(repo, m1)
        _, c2 = v2_decode(repo, m2)
        out["model"] = columns_of(c1, c2)
        return out
    except (Unknown, Raised):
        return None
    except Exception:
        return None


def _exit_construct(repo, fi, loop: ast.For, line: str, env0: Dict[str, Any]) -> Optional[Tuple[ast.AST, str]]:
    """(statement that ends the loop on this line, text of the innermost true condition it sits under)"""
    env = dict(env0)
    env[loop.target.id] = line
    ev = BlockEval2(repo, P, env)
    try:
        kind, _ = ev.run(loop.body)
    except Exception:
        return None
    if kind not in ("break", "return", "raise"):
        return None
    last = ev.trace[-1]
    conds = [s for s in ev.trace if isinstance(s, ast.If) and any(n is last for n in ast.walk(s))]
    return last, (norm(conds[-1].test) if conds else "")


def check_v1_reader_eval(chk) -> bool:
    """Record classes, decoding and Atom layout of parser.parse_pdb, evaluated.  Rules: pdb-record-loop, pdb-atom-branch, pdb-decoding, pdb-atom-record."""
    repo = chk.repo
    sp = spec("pdb_columns.json")
    fi = repo.func(P, "parse_pdb")
    from sa.fragment import coverage

    _cov = coverage()
    cov = _cov.__enter__()
    try:
        rd = V1Reader(repo)
        classes = record_classes(sp)
        atom_line = classes[0][1]
        wrong: Dict[str, str] = {}
        stops: List[str] = []
        raises: Dict[str, str] = {}
        for tag, line, yields, may_follow in classes:
            try:
                got = rd.read([line])
            except Raised as ex:
                raises[tag] = ex.name
                continue
            except Unknown:
                raise
            except Exception as ex:
                raises[tag] = type(ex).__name__
                continue
            if bool(got) != yields:
                wrong[tag] = "decoded as an atom" if got else "not decoded"
            if may_follow and not yields:
                try:
                    after = rd.read([line, atom_line])
                except Exception:
                    after = None
                if after is not None and len(after) != 1:
                    stops.append(tag)
        # a two-model file
        m = lambda k: f"MODEL     {k:>4}".ljust(80)
        doc = [m(1), atom_line, "TER".ljust(80), "ENDMDL".ljust(80), m(2), atom_line, "TER".ljust(80), "ENDMDL".ljust(80), "END".ljust(80)]
        try:
            models = [a.get("model") for a in rd.read(doc)]
        except Exception:
            models = None
        default_model = [a.get("model") for a in rd.read([atom_line])]
        # full decoding
        dec = rd.read([atom_line])
    except Unknown as ex:
        chk.ok("pdb-reader-eval", fi.where, f"parse_pdb is not evaluable on representative lines ({str(ex)[:80]}): the pinned-form rules decide")
        return False
    finally:
        _cov.__exit__(None, None, None)
    with evidence(chk, "pdb-record-loop", "pdb-atom-branch", "pdb-decoding", "pdb-atom-record"):
        _v1_verdicts(chk, repo, fi, rd, classes, atom_line, wrong, stops, raises, models, default_model, dec)
        report_silent_exits(chk, "pdb-atom-branch", [fi] + new_helpers(repo, P), cov, "record lines (one per record class, fully populated ATOM / HETATM lines among them)", {"continue": "the line is skipped: an atom record of the file is not among the atoms read", "break": "reading stops there: the atom records that follow are not read", "return": "reading ends there"})
    return True


def _v1_verdicts(chk, repo, fi, rd, classes, atom_line, wrong, stops, raises, models, default_model, dec) -> None:
    loops = [l for l in fi.node.body if isinstance(l, ast.For) and isinstance(l.target, ast.Name)]
    loop = loops[0] if len(loops) == 1 else None
    site = fi.site(loop) if loop is not None else fi.where
    # -- which records end the reading
    if stops or (models is not None and models != [1, 2]):
        detail = ""
        if loop is not None and stops:
            line = next(l for t, l, _, _ in classes if t == stops[0])
            ex = _exit_construct(repo, fi, loop, line, {"atoms_to_process": [], "modified": {}, "model": 1, "Atom": lambda *a: a, "ResidueAuth": lambda *a: a})
            if ex is not None:
                site = fi.site(ex[0])
                detail = f" (`{norm(ex[0])[:40]}` under `{ex[1][:70]}`, which also holds for a {stops[0]} line)"
        what = f"reading stops at a {', '.join(stops)} record{detail}: atom records that follow it are never read" if stops else f"a file with MODEL 1 and MODEL 2 yields atoms of models {models}"
        if "ENDMDL" in stops or (models is not None and models != [1, 2]):
            what += "; of a multi-model file only the first model is read, so a request for any other model silently returns the first"
        chk.violation("pdb-record-loop", site, what, K(fi, "record-loop"), expected={"models read": [1, 2]}, found={"stops at": stops, "models read": models})
    else:
        chk.ok("pdb-record-loop", site, f"evaluated on {len(classes)} record classes: no record other than END ends the reading; a file with two MODEL blocks yields the atoms of both, each with its model number")
    chk.expect(default_model == [1], "pdb-record-loop", site, "without a MODEL record atoms belong to model 1", f"without a MODEL record an atom gets model {default_model}", K(fi, "default-model"))
    # -- which lines are atoms
    if wrong or raises:
        bits = [f"a {k} line is {v}" for k, v in wrong.items()] + [f"a {k} line raises {v}" for k, v in raises.items()]
        chk.violation("pdb-atom-branch", site, "the line loop does not decode exactly the lines whose record name is ATOM or HETATM: " + "; ".join(bits[:4]), K(fi, "atom-branch"), found={**wrong, **raises})
    else:
        chk.ok("pdb-atom-branch", site, "evaluated: every ATOM and HETATM line yields an atom, no other record class does, none raises")
    # -- decoding of a fully populated line
    if len(dec) == 1:
        d = dec[0]
        want = {"entity_id": None, "label": None, "model": 1, "name": "CA", "x": 11.25, "y": -22.5, "z": 33.125, "occupancy": 0.5, "auth.chain": "B", "auth.number": -12, "auth.icode": "C", "auth.name": "G"}
        bad = {k: (d.get(k, "<absent>"), v) for k, v in want.items() if d.get(k, "<absent>") != v or type(d.get(k)) is not type(v)}
        chk.expect(not bad, "pdb-decoding", site, "evaluated: an ATOM line with a distinct value in every field is decoded field for field (name, residue name, chain, signed number, insertion code, x, y, z, occupancy as numbers)", f"fields decoded wrongly from a fully populated ATOM line: { {k: g for k, (g, w) in bad.items()} } (expected { {k: w for k, (g, w) in bad.items()} })", K(fi, "decoding"), expected={k: w for k, (g, w) in bad.items()}, found={k: repr(g) for k, (g, w) in bad.items()})
        blank = rd.read([atom_line[:26] + " " + atom_line[27:]])
        chk.expect(len(blank) == 1 and blank[0].get("auth.icode") is None, "pdb-decoding", site, "a blank insertion code is read as None", f"a blank insertion code is read as {blank[0].get('auth.icode')!r}, not None" if blank else "a line with a blank insertion code is not decoded", K(fi, "blank-icode"))
        if not bad:
            chk.ok("pdb-atom-record", site, "evaluated: Atom(None, None, ResidueAuth(chain, number, icode, name), model, atom name, x, y, z, occupancy)")


# --------------------------------------------------------------------------------------------------------------------
# read_3d_structure: model selection
# --------------------------------------------------------------------------------------------------------------------
MODEL_FILES = [
    ("models 1, 2, 3 in order", [1, 1, 2, 2, 3]),
    ("models in the order 5, 2, 9 (first model is not the smallest)", [5, 5, 2, 2, 9]),
    ("a single model 4", [4, 4, 4]),
    ("models 0 and 1", [0, 0, 1]),
    ("models 1 and 0 (a model number that is false as a boolean, not first)", [1, 1, 0]),
    ("atoms of models 1 and 2 interleaved", [1, 2, 1, 2]),
]


def check_model_selection_eval(chk) -> bool:
    repo = chk.repo
    fi = repo.func(P, "read_3d_structure")
    params = [a.arg for a in fi.node.args.args]
    if len(params) != 3:
        return False
    cases: Dict[str, List[str]] = {"requested": [], "default": [], "absent": [], "pass": [], "reader": []}
    n = 0
    from sa.fragment import coverage

    _cov = coverage()
    cov = _cov.__enter__()
    try:
        for is_cif in (True, False):
            for tag, models in MODEL_FILES:
                atoms = [Obj(f"atom{k}", model=m, label=None, auth=None, name="X", occupancy=1.0) for k, m in enumerate(models)]
                other = [Obj("foreign", model=models[0], label=None, auth=None, name="X", occupancy=1.0)]
                requests = [None] + sorted(set(models)) + [7]
                for req in requests:
                    got: List[Any] = []
                    env: Dict[str, Any] = {
                        "is_cif": lambda f, _v=is_cif: _v,
                        "parse_cif": lambda f, _v=is_cif: ((atoms if _v else other), "MOD", "SEQ", "NA"),
                        "parse_pdb": lambda f, _v=is_cif: ((other if _v else atoms), "MOD", "SEQ", "NA"),
                        "group_atoms": lambda *a: (got.append(a), Obj("structure"))[1],
                    }
                    env.update(module_callables(repo, P, outer=env))
                    call = func_callable(repo, P, fi.node, env)
                    n += 1
                    try:
                        res = call(Obj("file"), req, True)
                    except Raised as ex:
                        cases["requested" if req in models else "default"].append(f"{tag}, model={req}: raises {ex.name}")
                        continue
                    except Unknown:
                        raise
                    except Exception as ex:
                        cases["requested" if req in models else "default"].append(f"{tag}, model={req}: raises {type(ex).__name__}")
                        continue
                    if len(got) != 1 or not isinstance(res, Obj) or res._tag != "structure" or len(got[0]) != 5:
                        cases["pass"].append(f"{tag}, model={req}: the result is not group_atoms(atoms, modified, sequences, nucleic-acid table, flag) called once")
                        continue
                    sel = list(got[0][0])
                    if any(a._tag == "foreign" for a in sel):
                        cases["reader"].append(f"{'mmCIF' if is_cif else 'PDB'} input is read with the other format's parser")
                        continue
                    if tuple(got[0][1:]) != ("MOD", "SEQ", "NA", True):
                        cases["pass"].append(f"group_atoms receives {[str(x) for x in got[0][1:]]} after the atoms, not (modified, sequence_by_entity, is_nucleic_acid_by_entity, nucleic_acid_only)")
                    m = req if req in models else models[0]
                    want = [a._tag for a in atoms if a.model == m]
                    have = [a._tag for a in sel]
                    if have != want:
                        kind = "requested" if req in models else ("default" if req is None else "absent")
                        sel_models = sorted({a.model for a in sel})
                        cases[kind].append(f"{tag}, model={req}: atoms of model(s) {sel_models or 'none'} are returned{'' if sel_models != [m] else ' (not all of them, or in another order)'}, expected the atoms of model {m}")
    except Unknown as ex:
        chk.ok("model-selection-eval", fi.where, f"read_3d_structure is not evaluable on representative files ({str(ex)[:80]}): the symbolic path rule decides")
        return False
    finally:
        _cov.__exit__(None, None, None)
    with evidence(chk, "model-selection"):
        report_silent_exits(chk, "model-selection", [fi] + new_helpers(repo, P), cov, "(file, requested model) cases", {"continue": "atoms or models are left out", "break": "the selection ends early", "return": "a structure is returned without the selection the statement describes"})
        chk.expect(not cases["requested"], "model-selection", fi.where, "evaluated: a requested model that is present selects exactly the atoms with that model number, in file order", "a requested model that is present does not select exactly its atoms: " + "; ".join(cases["requested"][:2]), K(fi, "select-requested"), found=cases["requested"][:6])
        chk.expect(not cases["default"], "model-selection", fi.where, "evaluated: without a requested model the first model of the file (order of first appearance) is selected", "without a requested model the first model of the file is not what is returned: " + "; ".join(cases["default"][:2]), K(fi, "select-default"), found=cases["default"][:6])
        chk.expect(not cases["absent"], "model-selection", fi.where, "evaluated: a requested model that is absent falls back to the first model of the file", "a requested model that is absent does not fall back to the first model: " + "; ".join(cases["absent"][:2]), K(fi, "select-absent"), found=cases["absent"][:6])
        chk.expect(not cases["pass"] and not cases["reader"], "model-selection", fi.where, f"evaluated on {n} (file, request) cases: the selected atoms and the reader's side tables are handed to group_atoms unchanged; mmCIF input is read by parse_cif, PDB input by parse_pdb", "; ".join((cases["reader"] + cases["pass"])[:2]), K(fi, "select-pass"), found=(cases["reader"] + cases["pass"])[:6])
    return True


# --------------------------------------------------------------------------------------------------------------------
# format detection (round 4): which reader a file is handed to
# --------------------------------------------------------------------------------------------------------------------
class TextFile:
    """A text file stub with a position: iteration, readline(s) and read continue where the last read stopped, seek moves."""

    _folder_stub = True

    def __init__(self, lines: List[str]):
        self.lines, self.pos = list(lines), 0

    def seek(self, n=0, *a):
        self.pos = 0 if n == 0 else len(self.lines)
        return 0

    def tell(self):
        return self.pos

    def readline(self):
        if self.pos >= len(self.lines):
            return ""
        self.pos += 1
        return self.lines[self.pos - 1]

    def readlines(self):
        out, self.pos = self.lines[self.pos :], len(self.lines)
        return out

    def read(self):
        return "".join(self.readlines())

    def __iter__(self):
        return self

    def __next__(self):
        l = self.readline()
        if l == "":
            raise StopIteration
        return l

    def close(self):
        return None


_CIF_ATOM_SITE = [
    "loop_\n", "_atom_site.group_PDB\n", "_atom_site.id\n", "_atom_site.type_symbol\n", "_atom_site.label_atom_id\n", "_atom_site.label_comp_id\n", "_atom_site.label_asym_id\n",
    "_atom_site.label_seq_id\n", "_atom_site.Cartn_x\n", "_atom_site.Cartn_y\n", "_atom_site.Cartn_z\n", "_atom_site.pdbx_PDB_model_num\n",
    "ATOM 1 P P G A 1 1.000 2.000 3.000 1\n", "HETATM 2 MG MG MG B . 4.000 5.000 6.000 1\n", "#\n",
]


def format_cases(sp) -> List[Tuple[str, List[str], bool]]:
    """(description, lines, is mmCIF).  An mmCIF file is a sequence of categories; everything before the atom_site loop is arbitrary:
    item names of other categories, loops, and free text (semicolon-delimited multi-line values) whose lines may start with any word -
    one case per class of PDB record name, since those are the words a format sniffer would look for."""
    recs = [(tag, line.rstrip() + "\n") for tag, line, _, _ in record_classes(sp) if line.strip()]
    cases: List[Tuple[str, List[str], bool]] = [
        ("a coordinate-only mmCIF file (data block, then the atom_site loop)", ["data_demo\n", "#\n"] + _CIF_ATOM_SITE, True),
        ("an mmCIF file whose atom_site loop starts with another item than group_PDB", ["data_demo\n", "loop_\n", "_atom_site.id\n", "_atom_site.group_PDB\n", "1 ATOM\n", "#\n"], True),
        ("an mmCIF file with 40 lines of other categories before atom_site", ["data_demo\n"] + [f"_entity.item_{k} value\n" for k in range(40)] + _CIF_ATOM_SITE, True),
    ]
    for tag, line in recs:
        cases.append((f"an mmCIF file with a free-text value before atom_site, one line of which starts like a {tag} record", ["data_demo\n", "_refine.details\n", ";\n", line, ";\n", "#\n"] + _CIF_ATOM_SITE, True))
    cases += [
        ("a PDB file (HEADER, REMARK, atom records, END)", [l for _, l in recs], False),
        ("a PDB file of atom records only", [l for t, l in recs if t in ("ATOM", "HETATM")], False),
        ("a PDB file that mentions _atom_site inside a REMARK", ["REMARK   3  converted from the _atom_site category\n"] + [l for t, l in recs if t in ("ATOM", "HETATM", "END")], False),
        ("an empty file", [], False),
    ]
    return cases


def check_format_detection_eval(chk) -> bool:
    """`is_cif` interpreted on one file per class: an mmCIF file is recognised whatever precedes its atom_site loop, a PDB file is not."""
    repo = chk.repo
    if not repo.has_func(P, "is_cif"):
        chk.error("format-detection", f"src/rnapolis/{P}.py", "the format test is_cif(file) was not found")
        return True
    fi = repo.func(P, "is_cif")
    chk.note_function(fi)
    sp = spec("pdb_columns.json")
    env: Dict[str, Any] = {}
    env.update(module_callables(repo, P, outer=env))
    bad_cif: List[str] = []
    bad_pdb: List[str] = []
    n = 0
    from sa.fragment import coverage

    _cov = coverage()
    cov = _cov.__enter__()
    try:
        call = func_callable(repo, P, fi.node, env)
        for tag, lines, want in format_cases(sp):
            n += 1
            f = TextFile(lines)
            f.pos = len(lines)  # a handle that has been read to its end before: detection has to rewind it itself
            try:
                got = call(f)
            except Raised as ex:
                (bad_cif if want else bad_pdb).append(f"{tag}: raises {ex.name}")
                continue
            except Unknown:
                raise
            except Exception as ex:
                (bad_cif if want else bad_pdb).append(f"{tag}: raises {type(ex).__name__}")
                continue
            if bool(got) != want:
                (bad_cif if want else bad_pdb).append(f"{tag} is taken for {'mmCIF' if got else 'PDB'}")
    except Unknown as ex:
        ref = repo.reference.get(P) if hasattr(repo, "reference") else None
        same = ref is not None and "is_cif" in ref.funcs and norm(ref.funcs["is_cif"].node) == norm(fi.node)
        if same:
            chk.ok("format-detection", fi.where, "is_cif is the pinned scan of all lines for an `_atom_site` item (not evaluable here)")
        else:
            chk.error("format-detection", fi.where, f"is_cif is not evaluable on representative files ({str(ex)[:80]}) and not in its pinned form")
        return True
    finally:
        _cov.__exit__(None, None, None)
    with evidence(chk, "format-detection"):
        report_silent_exits(chk, "format-detection", [fi] + new_helpers(repo, P), cov, "files", {"continue": "lines are passed over", "break": "the scan ends before the atom_site items are seen", "return": "the format is decided before the atom_site items are seen"})
        chk.expect(
            not bad_cif,
            "format-detection",
            fi.where,
            f"evaluated on {n} files: an mmCIF file is recognised by its atom_site items whatever text precedes them (other categories, free-text values whose lines start like PDB records)",
            "an mmCIF file is not recognised as mmCIF: " + "; ".join(bad_cif[:2]) + " - the decision depends on text before the atom_site loop, the file is then read by the PDB parser",
            K(fi, "detect-cif"),
            found=bad_cif[:6],
        )
        chk.expect(not bad_pdb, "format-detection", fi.where, "evaluated: a PDB file (also one mentioning _atom_site inside a REMARK) and an empty file are not mmCIF", "a PDB file is not recognised as PDB: " + "; ".join(bad_pdb[:2]), K(fi, "detect-pdb"), found=bad_pdb[:6])
    return True


# --------------------------------------------------------------------------------------------------------------------
# what the representatives did not reach (round 4)
# --------------------------------------------------------------------------------------------------------------------
def new_helpers(repo, module: str) -> List[Any]:
    """FuncInfos of the top-level functions the reference copy does not have (what module_callables interprets by default)."""
    m = repo.module(module)
    ref = repo.reference.get(module) if hasattr(repo, "reference") else None
    return [fi for q, fi in m.funcs.items() if "." not in q and ref is not None and q not in ref.funcs]


def report_silent_exits(chk, rule: str, fis, cov: set, what: str, consequence: Dict[str, str]) -> int:
    """Evaluation on representatives decides the classes it ran.  A data-dependent `continue` / `break` / `return` that none of them
    took is an outcome for *other* inputs - records that are skipped, a loop that ends early, a result returned before the work is
    done - chosen by a condition on the data: by closed-world reasoning (the statement quantifies over all well-formed inputs, and
    the representatives cover the classes it names) that is a violation, reported with the condition.  Returns the number reported."""
    from sa.fragment import one_way_emissions, unreached_exits

    # the first function is the one the rule evaluated; the others count only when it reaches them (by name, through functions of its
    # module): coverage is shared, and a helper that some other evaluation ran on other input says nothing here
    if fis:
        entry = fis[0]
        funcs = entry.module.funcs
        seen, todo = set(), [entry.node]
        while todo:
            node = todo.pop()
            for c in ast.walk(node):
                nm = None
                if isinstance(c, ast.Call):
                    nm = c.func.id if isinstance(c.func, ast.Name) else (c.func.attr if isinstance(c.func, ast.Attribute) else None)
                elif isinstance(c, ast.Name) and isinstance(c.ctx, ast.Load):
                    nm = c.id
                if nm and nm in funcs and nm not in seen:
                    seen.add(nm)
                    todo.append(funcs[nm].node)
        fis = [entry] + [g for g in fis[1:] if g.node.name in seen and g is not entry]
    n = 0
    for fi in fis:
        data = [a.arg for a in fi.node.args.args[:1]]
        for st, way in one_way_emissions(fi.node, cov, data):
            n += 1
            if n > 2:
                continue
            chk.violation(
                rule,
                fi.site(st),
                f"the condition `{norm(st.test)[:90]}` is never {way} for the representative {what}, and only the arm they take emits the record: for input on the other side of the condition "
                f"{consequence.get('continue', 'the record is not emitted')} - silently, and the condition depends on the data, not on the request",
                K(fi, f"one-way-emission:{norm(st.test)[:40]}"),
                found=norm(st.test)[:120],
            )
        for st, guard in unreached_exits(fi.node, cov, data=data):
            kind = {"Continue": "continue", "Break": "break", "Return": "return"}[type(st).__name__]
            n += 1
            if n > 2:
                continue
            chk.violation(
                rule,
                fi.site(st),
                f"`{norm(st)[:50]}` under the condition `{guard[:90]}` is taken by none of the representative {what}: for input that satisfies the condition {consequence.get(kind, 'the outcome differs')} - silently, "
                "and the condition depends on the data, not on the request",
                K(fi, f"silent-exit:{kind}:{guard[:40]}"),
                found=guard[:120],
            )
    return n


# --------------------------------------------------------------------------------------------------------------------
# parse_cif: atom_site decoding, evaluated (round 4)
# --------------------------------------------------------------------------------------------------------------------
class _Category:
    _folder_stub = True

    def __init__(self, attrs: List[str], rows: List[List[str]]):
        self._attrs, self._rows = list(attrs), [list(r) for r in rows]

    def getAttributeList(self):
        return list(self._attrs)

    def getRowList(self):
        return [list(r) for r in self._rows]

    def getRowCount(self):
        return len(self._rows)

    def hasAttribute(self, a):
        return a in self._attrs

    def __bool__(self):
        return True

    def __len__(self):
        return len(self._rows)


class _Container:
    _folder_stub = True

    def __init__(self, cats: Dict[str, _Category]):
        self._cats = cats

    def getObj(self, name):
        return self._cats.get(name)

    def exists(self, name):
        return name in self._cats

    def getObjNameList(self):
        return list(self._cats)


CIF_FULL = {
    "group_PDB": "ATOM", "id": "7", "type_symbol": "C", "label_atom_id": "C4'", "label_alt_id": ".", "label_comp_id": "G", "label_asym_id": "AA", "label_entity_id": "3", "label_seq_id": "41",
    "pdbx_PDB_ins_code": "C", "Cartn_x": "11.250", "Cartn_y": "-22.500", "Cartn_z": "33.125", "occupancy": "0.50", "B_iso_or_equiv": "20.00", "pdbx_formal_charge": "?", "auth_seq_id": "-12", "auth_comp_id": "GTP",
    "auth_asym_id": "B", "auth_atom_id": "C4'", "pdbx_PDB_model_num": "2",
}


def cif_row_cases() -> List[Tuple[str, str, Dict[str, str], Optional[Dict[str, Any]]]]:
    """(description, fact it isolates, the items of one atom_site row, the atom expected - None: the row has no identity and is skipped)"""
    full = dict(CIF_FULL)
    label = ("ResidueLabel", "AA", 41, "G")
    auth = ("ResidueAuth", "B", -12, "C", "GTP")
    base = {"entity_id": "3", "label": label, "auth": auth, "model": 2, "name": "C4'", "x": 11.25, "y": -22.5, "z": 33.125, "occupancy": 0.5}

    def case(tag, fact, change: Dict[str, Optional[str]], want_change: Optional[Dict[str, Any]]):
        row = {k: v for k, v in full.items() if change.get(k, "") is not None}
        row.update({k: v for k, v in change.items() if v is not None})
        return (tag, fact, row, None if want_change is None else {**base, **want_change})

    no_ic = ("ResidueAuth", "B", -12, None, "GTP")
    return [
        case("a row with a distinct value in every item (negative author number, insertion code, model 2)", "items", {}, {}),
        case("insertion code `?`", "null", {"pdbx_PDB_ins_code": "?"}, {"auth": no_ic}),
        case("insertion code `.`", "null", {"pdbx_PDB_ins_code": "."}, {"auth": no_ic}),
        case("no pdbx_PDB_ins_code item", "optional", {"pdbx_PDB_ins_code": None}, {"auth": no_ic}),
        case("occupancy `?`", "null", {"occupancy": "?"}, {"occupancy": None}),
        case("occupancy `.`", "null", {"occupancy": "."}, {"occupancy": None}),
        case("no occupancy item", "optional", {"occupancy": None}, {"occupancy": None}),
        case("label_seq_id `.` (hetero group / water: no label number)", "identity", {"label_seq_id": "."}, {"label": None}),
        case("label_seq_id `?`", "identity", {"label_seq_id": "?"}, {"label": None}),
        case("no author items (label identity only)", "absent", {"auth_seq_id": None, "auth_comp_id": None, "auth_asym_id": None}, {"auth": None}),
        case("no auth_seq_id item (the dictionary does not require it)", "absent", {"auth_seq_id": None}, {"auth": None}),
        case("no pdbx_PDB_model_num item", "optional", {"pdbx_PDB_model_num": None}, {"model": 1}),
        case("negative label_seq_id and author number 0", "numbers", {"label_seq_id": "-3", "auth_seq_id": "0"}, {"label": ("ResidueLabel", "AA", -3, "G"), "auth": ("ResidueAuth", "B", 0, "C", "GTP")}),
        case("neither a complete label nor a complete author identity", "skip", {"label_seq_id": ".", "auth_comp_id": None}, None),
    ]


def check_cif_eval(chk) -> bool:
    """parser.parse_cif interpreted on one atom_site row per class (the mmcif reader is a stub handing out the category as rows of
    strings, as the library does).  Rules: cif-items, cif-atom-record, null-markers, int-parsing, cif-row-skip, reader-result."""
    repo = chk.repo
    fi = repo.func(P, "parse_cif")
    atom_fields = dataclass_fields(repo, "tertiary", "Atom")
    filtered: List[int] = []
    from sa.fragment import coverage

    def run(rows: List[Dict[str, str]]):
        attrs: List[str] = []
        for r in rows:
            for k in r:
                if k not in attrs:
                    attrs.append(k)
        cat = _Category(attrs, [[r.get(a, "?") for a in attrs] for r in rows])
        reader = Obj("io_adapter", readFile=lambda *a, **k: [_Container({"atom_site": cat})])
        env: Dict[str, Any] = {
            "IoAdapterPy": lambda *a, **k: reader,
            "IoAdapterCore": lambda *a, **k: reader,
            "Atom": lambda *a: ("Atom",) + tuple(a),
            "ResidueAuth": lambda *a: ("ResidueAuth",) + tuple(a),
            "ResidueLabel": lambda *a: ("ResidueLabel",) + tuple(a),
            "filter_clashing_atoms": lambda atoms, *a: (filtered.append(len(atoms)), list(atoms))[1],
        }
        names = {"try_parse_int"} | {g.node.name for g in new_helpers(repo, P)}
        env.update(module_callables(repo, P, names=names, outer=env))
        call = func_callable(repo, P, fi.node, env, max_steps=20000)
        f = Lines([])
        f.name = "/nonexistent/representative.cif"
        res = call(f)
        atoms = res[0] if isinstance(res, tuple) else res
        out = []
        for a in atoms:
            if not (isinstance(a, tuple) and a and a[0] == "Atom" and len(a) == len(atom_fields) + 1):
                raise Unknown("parse_cif does not return Atom(...) records")
            out.append(dict(zip(atom_fields, a[1:])))
        return out, res

    bad: Dict[str, List[str]] = {}
    cases = cif_row_cases()
    _cov = coverage()
    cov = _cov.__enter__()
    try:
        for tag, fact, row, want in cases:
            del filtered[:]
            try:
                got, res = run([row])
            except Raised as ex:
                bad.setdefault("absent" if fact == "absent" else ("skip" if want is not None else "raise"), []).append(f"{tag}: parse_cif raises {ex.name}")
                continue
            except Unknown:
                raise
            except Exception as ex:
                bad.setdefault("absent" if fact == "absent" else ("skip" if want is not None else "raise"), []).append(f"{tag}: parse_cif raises {type(ex).__name__} ({str(ex)[:50]})")
                continue
            if want is None:
                if got:
                    bad.setdefault("skip", []).append(f"{tag}: an atom is built all the same")
                continue
            if len(got) != 1:
                bad.setdefault("skip", []).append(f"{tag}: the row yields {len(got)} atoms instead of one")
                continue
            if filtered != [1] or not (isinstance(res, tuple) and len(res) == 4):
                bad.setdefault("result", []).append(f"{tag}: the decoded atoms do not pass through filter_clashing_atoms exactly once into (atoms, modified, sequences, nucleic-acid table)")
            diff = {k: (got[0].get(k, "<absent>"), v) for k, v in want.items() if got[0].get(k, "<absent>") != v or type(got[0].get(k)) is not type(v)}
            if diff:
                k0 = sorted(diff)[0]
                bucket = "null" if fact == "null" else ("numbers" if fact == "numbers" or (k0 in ("label", "auth") and fact == "items" and isinstance(diff[k0][0], tuple) and isinstance(diff[k0][1], tuple) and [type(x) for x in diff[k0][0]] != [type(x) for x in diff[k0][1]]) else "items")
                bad.setdefault(bucket, []).append(f"{tag}: " + "; ".join(f"{k} is read as {g!r}, the row says {w!r}" for k, (g, w) in sorted(diff.items())[:3]))
        # two rows of two models: both come back, in file order
        two, _ = run([dict(CIF_FULL, pdbx_PDB_model_num="1"), dict(CIF_FULL, pdbx_PDB_model_num="2", id="8")])
        if [a.get("model") for a in two] != [1, 2]:
            bad.setdefault("skip", []).append(f"two rows of models 1 and 2 come back as models {[a.get('model') for a in two]}")
    except Unknown as ex:
        chk.ok("cif-eval", fi.where, f"parse_cif is not evaluable on representative atom_site rows ({str(ex)[:80]}): the pinned-form rules decide")
        return False
    finally:
        _cov.__exit__(None, None, None)
    with evidence(chk, "cif-items", "cif-atom-record", "null-markers", "int-parsing", "cif-row-skip", "reader-result", "cif-absent-items"):
        chk.expect(not bad.get("items"), "cif-items", fi.where, f"evaluated on {len(cases)} atom_site rows: chain, number, name, insertion code, model, atom name and coordinates come from their own mmCIF items; label and author identity are built when their three items are present", "an atom_site row is decoded wrongly: " + "; ".join(bad.get("items", [])[:2]), K(fi, "items"), found=bad.get("items", [])[:4])
        chk.expect(not bad.get("items"), "cif-atom-record", fi.where, "evaluated: Atom(entity, label, auth, model, name, x, y, z, occupancy) with ResidueAuth(chain, number, insertion code, name)", "the Atom built from an atom_site row does not carry the row's values: " + "; ".join(bad.get("items", [])[:1]), K(fi, "atom-record"))
        chk.expect(not bad.get("null"), "null-markers", fi.where, "evaluated: `?` and `.` in the insertion code and in the occupancy are both read as absent (None)", "an mmCIF null marker is taken as a value: " + "; ".join(bad.get("null", [])[:2]), K(fi, "null-eval"), found=bad.get("null", [])[:4])
        chk.expect(not bad.get("numbers"), "int-parsing", fi.where, "evaluated: negative and zero residue numbers are read as integers", "residue numbers are read wrongly: " + "; ".join(bad.get("numbers", [])[:2]), K(fi, "numbers-eval"), found=bad.get("numbers", [])[:4])
        chk.expect(not bad.get("skip") and not bad.get("raise"), "cif-row-skip", fi.where, "evaluated: every row with a label or an author identity yields exactly one atom (optional items may be absent), a row with neither is skipped, rows of several models all come back", "atom_site rows are lost or refused: " + "; ".join((bad.get("skip", []) + bad.get("raise", []))[:2]), K(fi, "row-skip"), found=(bad.get("skip", []) + bad.get("raise", []))[:4])
        chk.expect(
            not bad.get("absent"),
            "cif-absent-items",
            fi.where,
            "evaluated: an atom_site category without the author items is read through its label identity",
            "an atom_site category that lacks an optional item is not read: " + "; ".join(bad.get("absent", [])[:2]) + " - parse_cif looks the item up with a None default and hands the None to the integer conversion",
            "parser:parse_cif:absent-author-items",
            found=bad.get("absent", [])[:4],
        )
        chk.expect(not bad.get("result"), "reader-result", fi.where, "evaluated: all decoded atoms pass through the duplicate/clash filter once", "; ".join(bad.get("result", [])[:1]), K(fi, "result"))
        report_silent_exits(chk, "cif-row-skip", [fi] + new_helpers(repo, P), cov, "atom_site rows", {"continue": "the row is skipped: an atom of the file is not among the atoms read", "break": "reading stops there: the rows that follow are not read", "return": "reading ends there"})
    return True


# --------------------------------------------------------------------------------------------------------------------
# parser_v2.parse_pdb_atoms interpreted as a whole (round 4): documents, not single lines
# --------------------------------------------------------------------------------------------------------------------
class V2Reader:
    """parse_pdb_atoms interpreted from its ast; `pd` is the stand-in of sa/frame.py, the file is a TextFile stub or a plain string."""

    def __init__(self, repo):
        from sa.frame import pd_namespace

        self.repo = repo
        self.fi = repo.func("parser_v2", "parse_pdb_atoms")
        env: Dict[str, Any] = {"pd": pd_namespace(), "object": object, "bytes": bytes, "str": str, "io": Obj("io", StringIO=TextFile)}
        env.update(module_callables(repo, "parser_v2", outer=env))
        self.call = func_callable(repo, "parser_v2", self.fi.node, env, max_steps=40000)

    def read(self, lines: List[str], as_text: bool = False):
        from sa.frame import Frame

        doc = [l.rstrip("\n") + "\n" for l in lines]
        f = TextFile(doc)
        f.pos = len(doc)  # a handle that was read to its end before (is_cif(f) comes first): the reader has to rewind it
        res = self.call("".join(doc)) if as_text else self.call(f)
        if not isinstance(res, Frame):
            raise Unknown("parse_pdb_atoms does not return a table")
        return res


def check_v2_reader_eval(chk) -> bool:
    """Rules pdb-record-filter and pdb-decode-v2 decided on whole documents: which records of a file become rows (every ATOM / HETATM
    line of every model, nothing else, whatever follows TER / ENDMDL / other records), with which model number, typed how."""
    from sa.fragment import coverage
    from sa.frame import isna

    repo = chk.repo
    sp = spec("pdb_columns.json")
    fi = repo.func("parser_v2", "parse_pdb_atoms")
    wrong: Dict[str, str] = {}
    stops: List[str] = []
    raises: Dict[str, str] = {}
    other: List[str] = []
    decoded: Optional[Dict[str, Any]] = None
    fields = dict(ATOM_FIELDS, tempFactor=" 42.17", element=" C", charge="1-", altLoc="A")
    atom_line = pdb_line(sp, "ATOM", fields)
    classes = [(t, (pdb_line(sp, t.split()[0], fields) if t.split()[0] in ("ATOM", "HETATM", "ANISOU") and "5-digit" not in t and "alternate" not in t else l), y, m) for t, l, y, m in record_classes(sp)]
    _cov = coverage()
    cov = _cov.__enter__()
    try:
        rd = V2Reader(repo)
        for tag, line, yields, may_follow in classes:
            for as_text in (False, True):
                try:
                    got = rd.read([line], as_text)
                except Raised as ex:
                    raises[tag] = ex.name
                    continue
                except Unknown:
                    raise
                except Exception as ex:
                    raises[tag] = type(ex).__name__
                    continue
                if (len(got.index) > 0) != yields:
                    wrong[tag] = "decoded as an atom" if len(got.index) else "not decoded"
            if not yields and tag != "END":
                try:
                    after = rd.read([line, atom_line])
                    if len(after.index) != 1:
                        stops.append(tag)
                except Unknown:
                    raise
                except Exception:
                    stops.append(tag)
        m = lambda k: f"MODEL     {k:>4}".ljust(80)
        water = pdb_line(sp, "HETATM", dict(fields, resName="HOH", name=" O  ", element=" O"))
        hydrogen = pdb_line(sp, "ATOM", dict(fields, name=" H5'", element=" H"))
        doc = [m(1), atom_line, hydrogen, "TER".ljust(80), water, "ENDMDL".ljust(80), m(2), atom_line, "TER".ljust(80), water, "ENDMDL".ljust(80), "END".ljust(80)]
        blank_bad: Dict[str, Any] = {}

        def whole(lines, what):
            """the table of a document; an exception of the interpreted reader is a finding about the reader, not a failure of the rule"""
            try:
                return rd.read(lines)
            except Unknown:
                raise
            except Raised as ex:
                other.append(f"{what}: parse_pdb_atoms raises {ex.name} (the handle had been read to its end before, as after is_cif(f))")
            except Exception as ex:
                other.append(f"{what}: parse_pdb_atoms raises {type(ex).__name__} ({str(ex)[:40]}) (the handle had been read to its end before, as after is_cif(f))")
            return None

        full = whole(doc, "a file with two models")
        if full is not None:
            models = [None if isna(v) else int(v) for v in full._cols.get("model", [])]
            kinds = list(full._cols.get("record_type", []))
            if models != [1, 1, 1, 2, 2] or kinds != ["ATOM", "ATOM", "HETATM", "ATOM", "HETATM"]:
                other.append(f"a file with MODEL 1 (two atoms, TER, a water) and MODEL 2 (one atom, TER, a water) yields records {kinds} of models {models}")
        second = whole([m(2), atom_line, "ENDMDL".ljust(80), "END".ljust(80)], "a file whose first line is MODEL 2")
        if second is not None and [None if isna(v) else int(v) for v in second._cols.get("model", [])] != [2]:
            other.append(f"a file whose first line is `MODEL        2` yields atoms of model(s) {list(second._cols.get('model', []))}: the first line of the file is not read")
        nomodel = whole([atom_line], "a file of one atom record")
        if nomodel is not None:
            if [int(v) for v in nomodel._cols.get("model", []) if not isna(v)] != [1]:
                other.append(f"without a MODEL record an atom gets model {list(nomodel._cols.get('model', []))}")
            if nomodel.attrs.get("format") != "PDB":
                other.append(f"the table is tagged format={nomodel.attrs.get('format')!r}, not 'PDB'")
            if len(nomodel.index) == 1:
                decoded = {c: nomodel._cols[c][0] for c in nomodel._cols}
        empty = whole(["REMARK   1 no atoms here".ljust(80)], "a file without atom records")
        if empty is not None and (len(empty.index) != 0 or [c for c in sp["atom"] if c not in empty._cols] or "model" not in empty._cols):
            other.append("a file without atom records does not give an empty table with the PDB columns")
        blank = whole([pdb_line(sp, "ATOM", {k: v for k, v in fields.items() if k not in ("altLoc", "iCode", "element", "charge")})], "an atom record with blank optional fields")
        if blank is not None:
            blank_bad = {k: blank._cols[k][0] for k in ("altLoc", "iCode", "element", "charge") if len(blank.index) == 1 and not isna(blank._cols[k][0])} if len(blank.index) == 1 else {"line": "not decoded"}
    except Unknown as ex:
        chk.ok("pdb-reader-v2-eval", fi.where, f"parse_pdb_atoms is not evaluable as a whole on representative documents ({str(ex)[:80]}): the line loop is evaluated line by line")
        return False
    finally:
        _cov.__exit__(None, None, None)
    loops = [l for l in fi.node.body if isinstance(l, ast.For) and isinstance(l.target, ast.Name)]
    site = fi.site(loops[0]) if loops else fi.where
    with evidence(chk, "pdb-record-filter", "pdb-decode-v2", "null-agreement"):
        bits = [f"a {k} line is {v}" for k, v in wrong.items()] + [f"a {k} line raises {v}" for k, v in raises.items()]
        chk.expect(not bits, "pdb-record-filter", site, f"evaluated on {len(classes)} record classes, as a file object and as text: parser_v2 keeps exactly the lines whose record name (columns 1-6) is ATOM or HETATM", "parser_v2 does not keep exactly the ATOM / HETATM lines: " + "; ".join(bits[:4]) + ": atom lines are lost or foreign lines decoded", K(fi, "record-filter"), found={**wrong, **raises})
        if stops or other:
            what = (f"reading stops at a {', '.join(stops)} record: the atom records that follow it are never read (of a multi-model file only the first model)" if stops else "") + ("; " if stops and other else "") + "; ".join(other[:2])
            chk.violation("pdb-record-filter", site, what, K(fi, "record-loop-v2"), found={"stops at": stops, "other": other[:3]})
        else:
            chk.ok("pdb-record-filter", site, "evaluated on whole documents: no record ends the reading, every ATOM / HETATM line of every model (hydrogens, waters, atoms after TER) becomes a row with its model number; without MODEL records the model is 1; a MODEL line sets the current model from columns 11-14")
        if decoded is not None:
            want = {"record_type": "ATOM", "serial": 417, "name": "CA", "altLoc": "A", "resName": "G", "chainID": "B", "resSeq": -12, "iCode": "C", "x": 11.25, "y": -22.5, "z": 33.125, "occupancy": 0.5, "tempFactor": 42.17, "element": "C", "charge": "1-", "model": 1}
            bad = {k: (decoded.get(k, "<absent>"), v) for k, v in want.items() if not (decoded.get(k, "<absent>") == v and isinstance(decoded.get(k), (int, float)) == isinstance(v, (int, float)))}
            chk.expect(not bad, "pdb-decode-v2", site, "evaluated: an ATOM line with a distinct value in every field is decoded field for field and typed (serial, number and model as integers - the sign kept -, coordinates, occupancy and B as numbers, the rest as text)", f"fields decoded wrongly from a fully populated ATOM line: { {k: g for k, (g, w) in bad.items()} } (expected { {k: w for k, (g, w) in bad.items()} })", K(fi, "decode"), expected={k: w for k, (g, w) in bad.items()}, found={k: repr(g) for k, (g, w) in bad.items()})
        chk.expect(not blank_bad, "null-agreement", fi.where, "evaluated: blank optional PDB fields (altLoc, iCode, element, charge) read as missing values", f"blank optional PDB fields are not read as missing: {blank_bad}", K(fi, "blank-none"), found=blank_bad)
        report_silent_exits(chk, "pdb-record-filter", [fi] + new_helpers(repo, "parser_v2"), cov, "documents (one line per record class, a two-model file with hydrogens and waters)", {"continue": "the line is skipped: an atom record of the file is not among the rows", "break": "reading stops there: the atom records that follow are not read", "return": "reading ends there"})
    return True


# --------------------------------------------------------------------------------------------------------------------
# parser_v2.parse_cif_atoms interpreted as a whole (round 4)
# --------------------------------------------------------------------------------------------------------------------
class _TmpFile:
    """tempfile.NamedTemporaryFile(...) as a context manager: a named buffer."""

    _folder_stub = True
    _blockeval_context = True
    name = "/nonexistent/representative.cif"

    def __init__(self, *a, **k):
        self.parts: List[str] = []

    def write(self, s):
        self.parts.append(s)
        return len(s)

    def seek(self, *a):
        return 0

    def read(self):
        return "".join(self.parts)

    def flush(self):
        return None

    def close(self):
        return None


class NamedFile(TextFile):
    """An open file on disk: a text handle with a position and the `name` it can be re-opened by."""

    def __init__(self, lines: List[str], name: str):
        super().__init__(lines)
        self.name = name


class StringIOStub(TextFile):
    """io.StringIO: a text handle with a position, no name."""


CIF_DOC = ["data_representative\n", "#\n", "loop_\n", "_atom_site.<items of the category under test>\n", "<rows of the category under test>\n", "#\n"]


class V2CifReader:
    """parse_cif_atoms interpreted from its ast.  The mmcif library is a stub: `readFile(path)` hands out the atom_site category under
    test (attribute names and rows of strings, what IoAdapterPy gives) *when the file at that path holds the whole document* - a
    temporary file holds what was written to it, the path of a named file holds that file from its beginning - and nothing for an
    empty or truncated text, as the real reader does.  `pd` is the stand-in of sa/frame.py."""

    TMP = "/nonexistent/tmp-representative.cif"
    DISK = "/nonexistent/representative.cif"

    def __init__(self, repo):
        from sa.frame import pd_namespace

        self.repo = repo
        self.fi = repo.func("parser_v2", "parse_cif_atoms")
        self.category: Optional[_Category] = None
        self.reads: List[str] = []
        self.fs: Dict[str, str] = {}
        me = self

        class Tmp(_TmpFile):
            name = V2CifReader.TMP

            def __init__(self, *a, **k):
                super().__init__(*a, **k)
                me.fs[self.name] = ""

            def write(self, s):
                if isinstance(s, bytes):
                    raise TypeError("write() argument must be str, not bytes")
                me.fs[self.name] = me.fs.get(self.name, "") + s
                return super().write(s)

        def read_file(path, *a, **k):
            me.reads.append(path)
            text = me.fs.get(path)
            if text is None:
                raise Raised("FileNotFoundError", f"no file {path}")
            if text == "".join(CIF_DOC):
                return [_Container({"atom_site": me.category} if me.category is not None else {})]
            return []  # an empty or truncated text holds no data block

        reader = Obj("adapter", readFile=read_file)
        env: Dict[str, Any] = {
            "pd": pd_namespace(), "object": object, "bytes": bytes, "str": str, "IoAdapterPy": lambda *a, **k: reader, "IoAdapterCore": lambda *a, **k: reader,
            "io": Obj("io", StringIO=StringIOStub), "tempfile": Obj("tempfile", NamedTemporaryFile=Tmp), "os": Obj("os", remove=lambda p: None, unlink=lambda p: None, path=Obj("path", exists=lambda p: True)),
            "hasattr": lambda o, a: hasattr(o, a),
        }
        env.update(module_callables(repo, "parser_v2", outer=env))
        self.call = func_callable(repo, "parser_v2", self.fi.node, env, max_steps=60000)

    def read(self, rows: List[Dict[str, str]], how: str = "text"):
        """how: text | stringio | file (fresh handles), stringio-read | file-read (handles that were read to their end before - what
        `is_cif(f)` leaves behind), file-peeked (one line was read)"""
        from sa.frame import Frame

        attrs: List[str] = []
        for r in rows:
            for k in r:
                if k not in attrs:
                    attrs.append(k)
        self.category = _Category(attrs, [[r.get(a, "?") for a in attrs] for r in rows]) if rows else None
        self.fs = {self.DISK: "".join(CIF_DOC)}
        if how == "text":
            arg: Any = "".join(CIF_DOC)
        elif how.startswith("stringio"):
            arg = StringIOStub(CIF_DOC)
        else:
            arg = NamedFile(CIF_DOC, self.DISK)
        if how.endswith("-read"):
            arg.pos = len(CIF_DOC)
        elif how.endswith("-peeked"):
            arg.pos = 1
        res = self.call(arg)
        if not isinstance(res, Frame):
            raise Unknown("parse_cif_atoms does not return a table")
        return res


CIF_V2_ROWS = [
    dict(CIF_FULL),
    dict(CIF_FULL, id="8", label_atom_id="P", auth_atom_id="P", type_symbol="P", pdbx_PDB_ins_code="?", label_alt_id="A", occupancy="1.00", pdbx_formal_charge="-1", Cartn_x="-0.001", pdbx_PDB_model_num="2"),
    dict(CIF_FULL, id="9", group_PDB="HETATM", label_comp_id="HOH", auth_comp_id="HOH", label_atom_id="O", auth_atom_id="O", type_symbol="O", label_seq_id=".", pdbx_PDB_ins_code=".", auth_seq_id="301", pdbx_PDB_model_num="3", B_iso_or_equiv="?"),
]


def check_cif_atoms_eval(chk) -> bool:
    """parse_cif_atoms on one atom_site category per class of cell value (text / StringIO / named file input): every row becomes a row of
    the table in file order, every item a column, both null markers a missing value, numbers typed as numbers, format tag mmCIF."""
    from sa.fragment import coverage
    from sa.frame import isna

    repo = chk.repo
    fi = repo.func("parser_v2", "parse_cif_atoms")
    bad: Dict[str, List[str]] = {}
    _cov = coverage()
    cov = _cov.__enter__()
    try:
        rd = V2CifReader(repo)
        hows = {"text": "the text", "stringio": "a fresh StringIO", "file": "a freshly opened file", "stringio-read": "a StringIO that was read to its end before", "file-read": "an open file that was read to its end before (what `is_cif(f)` leaves behind - the call order of the library's own tools)", "file-peeked": "an open file of which one line was read before"}
        for how, what in hows.items():
            used = "-" in how
            try:
                t = rd.read(CIF_V2_ROWS, how)
            except Raised as ex:
                bad.setdefault("handle" if used else "rows", []).append(f"input as {what}: parse_cif_atoms raises {ex.name}")
                continue
            except Unknown:
                raise
            except Exception as ex:
                bad.setdefault("handle" if used else "rows", []).append(f"input as {what}: parse_cif_atoms raises {type(ex).__name__} ({str(ex)[:50]})")
                continue
            if used and len(t.index) != len(CIF_V2_ROWS):
                bad.setdefault("handle", []).append(f"input as {what}: {len(t.index)} of {len(CIF_V2_ROWS)} atom_site rows are read")
                continue
            if len(t.index) != len(CIF_V2_ROWS) or [str(v) for v in t._cols.get("id", [])] != [r["id"] for r in CIF_V2_ROWS]:
                bad.setdefault("rows", []).append(f"input as {how}: atom_site rows with ids {[r['id'] for r in CIF_V2_ROWS]} come back as rows {[str(v) for v in t._cols.get('id', [])]}")
                continue
            missing = [a for a in CIF_FULL if a not in t._cols]
            if missing:
                bad.setdefault("rows", []).append(f"input as {how}: items {missing[:4]} are not columns of the table")
                continue
            for k, row in enumerate(CIF_V2_ROWS):
                for item, txt in row.items():
                    got = t._cols[item][k]
                    if txt in ("?", "."):
                        if not isna(got):
                            bad.setdefault("null", []).append(f"{item} = `{txt}` is read as {got!r}, not as a missing value")
                    elif item in ("Cartn_x", "Cartn_y", "Cartn_z", "occupancy", "B_iso_or_equiv"):
                        if not (isinstance(got, (int, float)) and abs(got - float(txt)) < 1e-9):
                            bad.setdefault("types", []).append(f"{item} = `{txt}` is read as {got!r}, not as the number")
                    elif item in ("label_seq_id", "pdbx_PDB_model_num", "pdbx_formal_charge"):
                        if not (isinstance(got, int) and not isinstance(got, bool) and got == int(txt)):
                            bad.setdefault("types", []).append(f"{item} = `{txt}` is read as {got!r}, not as the integer")
                    elif str(got) != txt:
                        bad.setdefault("types", []).append(f"{item} = `{txt}` is read as {got!r}")
            if t.attrs.get("format") != "mmCIF":
                bad.setdefault("rows", []).append(f"the table is tagged format={t.attrs.get('format')!r}, not 'mmCIF'")
        empty = rd.read([], "text")
        if len(empty.index) != 0:
            bad.setdefault("rows", []).append("a file without an atom_site category does not give an empty table")
    except Unknown as ex:
        chk.ok("cif-atoms-eval", fi.where, f"parse_cif_atoms is not evaluable as a whole on representative categories ({str(ex)[:80]}): the pinned-form rule decides")
        return False
    finally:
        _cov.__exit__(None, None, None)
    with evidence(chk, "null-markers-v2", "cif-table"):
        chk.expect(not bad.get("null"), "null-markers-v2", fi.where, "evaluated: parser_v2 reads both mmCIF null markers (`?` and `.`) as missing values, in every item", "parser_v2 does not treat both `?` and `.` as missing: " + "; ".join(sorted(set(bad.get("null", [])))[:3]), K(fi, "nulls"), found=sorted(set(bad.get("null", [])))[:6])
        chk.expect(not bad.get("rows"), "cif-table", fi.where, "evaluated (text, StringIO and named-file input): every atom_site row becomes a row of the table in file order, every item a column, tagged format='mmCIF'", "atom_site rows are lost, reordered or refused: " + "; ".join(bad.get("rows", [])[:2]), K(fi, "cif-rows"), found=bad.get("rows", [])[:4])
        chk.expect(
            not bad.get("handle"),
            "cif-table",
            fi.where,
            "evaluated: a handle that was read before (to its end, or one line) gives the same table as a fresh one - the reader starts at the beginning of the file, not where the handle stands",
            "what is read depends on where the handle stands: " + "; ".join(bad.get("handle", [])[:2]) + " - the reader takes the text from the current position of the handle instead of from the beginning of the file (the sibling readers rewind first)",
            K(fi, "cif-handle-position"),
            found=bad.get("handle", [])[:4],
        )
        chk.expect(not bad.get("types"), "cif-table", fi.where, "evaluated: coordinates, occupancy and B as numbers, label_seq_id / model / charge as integers (the sign kept), the other items as their text", "items are typed or copied wrongly: " + "; ".join(sorted(set(bad.get("types", [])))[:3]), K(fi, "cif-types"), found=sorted(set(bad.get("types", [])))[:6])
        report_silent_exits(chk, "cif-table", [fi] + new_helpers(repo, "parser_v2"), cov, "atom_site categories", {"continue": "the row (or item) is skipped", "break": "reading stops there", "return": "a table is returned before all rows are read"})
    return True


# --------------------------------------------------------------------------------------------------------------------
# round 6: filter_clashing_atoms evaluated (duplicates and clashes decided on the atoms it returns)
# --------------------------------------------------------------------------------------------------------------------
class _KDTree:
    """scipy.spatial.KDTree as far as the filter uses it: pairs of points not farther apart than r (by brute force; completeness of the
    real tree is trusted).  Indices are positions in the sequence the tree was built from."""

    _folder_stub = True

    def __init__(self, data, *a, **k):
        self.data = [tuple(float(c) for c in p) for p in data]
        self.n = len(self.data)

    @staticmethod
    def _d(p, q):
        return sum((a - b) ** 2 for a, b in zip(p, q)) ** 0.5

    def query_pairs(self, r, *a, output_type="set", **k):
        pairs = {(i, j) for i in range(self.n) for j in range(i + 1, self.n) if self._d(self.data[i], self.data[j]) <= r}
        return pairs if output_type == "set" else sorted(pairs)

    def query_ball_point(self, x, r, *a, **k):
        if x and isinstance(x[0], (list, tuple)):
            return [[i for i in range(self.n) if self._d(self.data[i], tuple(p)) <= r] for p in x]
        return [i for i in range(self.n) if self._d(self.data[i], tuple(x)) <= r]


def _np_for_filter() -> Obj:
    return Obj("np", array=lambda x, *a, **k: [tuple(p) if isinstance(p, (list, tuple)) else p for p in x], asarray=lambda x, *a, **k: list(x), empty=lambda *a, **k: [], linalg=Obj("linalg", norm=lambda v, *a, **k: sum(float(c) ** 2 for c in v) ** 0.5))


def _fatom(tag: str, model: int = 1, res: str = "A1", name: str = "P", xyz=(0.0, 0.0, 0.0), occ: Any = 1.0) -> Obj:
    return Obj(tag, entity_id="1", label=("L", res), auth=("A", res), model=model, name=name, x=float(xyz[0]), y=float(xyz[1]), z=float(xyz[2]), occupancy=occ, coordinates=tuple(float(c) for c in xyz))


def filter_cases() -> List[Tuple[str, str, List[Obj], List[List[str]]]]:
    """(description, fact, atoms in file order, acceptable results as lists of tags in order)"""
    far = lambda k: (10.0 * k, 0.0, 0.0)
    C: List[Tuple[str, str, List[Obj], List[List[str]]]] = []
    # duplicates: same (model, label, auth, name)
    C.append(("two copies of one atom, the second with the higher occupancy", "occupancy-wins", [_fatom("a", xyz=far(0), occ=0.4), _fatom("b", xyz=far(1), occ=0.6)], [["b"]]))
    C.append(("two copies of one atom, the first with the higher occupancy", "occupancy-wins", [_fatom("a", xyz=far(0), occ=0.6), _fatom("b", xyz=far(1), occ=0.4)], [["a"]]))
    C.append(("three copies with occupancies 0.3, 0.5, 0.2", "occupancy-wins", [_fatom("a", xyz=far(0), occ=0.3), _fatom("b", xyz=far(1), occ=0.5), _fatom("c", xyz=far(2), occ=0.2)], [["b"]]))
    C.append(("two copies, the first without occupancy", "optional-occupancy", [_fatom("a", xyz=far(0), occ=None), _fatom("b", xyz=far(1), occ=0.5)], [["b"]]))
    C.append(("two copies, the second without occupancy", "optional-occupancy", [_fatom("a", xyz=far(0), occ=0.5), _fatom("b", xyz=far(1), occ=None)], [["a"]]))
    C.append(("two copies, both without occupancy", "optional-occupancy", [_fatom("a", xyz=far(0), occ=None), _fatom("b", xyz=far(1), occ=None)], [["a"], ["b"]]))
    C.append(("the same atom in models 1 and 2", "identity-key-model", [_fatom("a", model=1, xyz=far(0), occ=0.4), _fatom("b", model=2, xyz=far(0), occ=0.6)], [["a", "b"]]))
    C.append(("equally named atoms of two residues", "identity-key", [_fatom("a", res="A1", xyz=far(0)), _fatom("b", res="A2", xyz=far(1))], [["a", "b"]]))
    C.append(("two atoms of one residue with different names", "identity-key", [_fatom("a", name="P", xyz=far(0)), _fatom("b", name="OP1", xyz=far(1))], [["a", "b"]]))
    # clashes: different atoms closer than the clash distance
    near = lambda d: (d, 0.0, 0.0)
    C.append(("two atoms 0.3 A apart, the second with the lower occupancy", "clash-loser", [_fatom("a", name="P", occ=0.7), _fatom("b", name="OP1", xyz=near(0.3), occ=0.3)], [["a"]]))
    C.append(("two atoms 0.3 A apart, the first with the lower occupancy", "clash-loser", [_fatom("a", name="P", occ=0.3), _fatom("b", name="OP1", xyz=near(0.3), occ=0.7)], [["b"]]))
    C.append(("two atoms 0.3 A apart with equal occupancy", "clash-loser", [_fatom("a", name="P", occ=0.5), _fatom("b", name="OP1", xyz=near(0.3), occ=0.5)], [["a"], ["b"]]))
    C.append(("two atoms 0.3 A apart in different models", "clash-same-model", [_fatom("a", name="P", model=1, occ=0.7), _fatom("b", name="OP1", model=2, xyz=near(0.3), occ=0.3)], [["a", "b"]]))
    C.append(("two atoms 0.3 A apart, one without occupancy", "optional-occupancy", [_fatom("a", name="P", occ=None), _fatom("b", name="OP1", xyz=near(0.3), occ=0.3)], [["a", "b"]]))
    C.append(("two atoms 0.45 A apart", "clash-distance", [_fatom("a", name="P", occ=0.7), _fatom("b", name="OP1", xyz=near(0.45), occ=0.3)], [["a"]]))
    C.append(("two atoms 0.55 A apart", "clash-distance", [_fatom("a", name="P", occ=0.7), _fatom("b", name="OP1", xyz=near(0.55), occ=0.3)], [["a", "b"]]))
    C.append(("four well separated atoms", "order", [_fatom("a", name="P", xyz=far(3)), _fatom("b", name="OP1", xyz=far(1)), _fatom("c", name="OP2", xyz=far(2)), _fatom("d", name="C4'", xyz=far(0))], [["a", "b", "c", "d"]]))
    # a duplicate in front of a clashing pair: tree positions are positions in the de-duplicated list, not in the input
    C.append(("a duplicated atom listed before a clashing pair", "kdtree-index-space", [_fatom("d1", name="N1", xyz=far(5), occ=0.4), _fatom("d2", name="N1", xyz=far(6), occ=0.6), _fatom("x", name="P", xyz=far(1), occ=0.7), _fatom("y", name="OP1", xyz=(10.3, 0.0, 0.0), occ=0.3), _fatom("z", name="C4'", xyz=far(3), occ=0.2)], [["d2", "x", "z"]]))
    C.append(("an atom without occupancy listed before a clashing pair", "kdtree-index-space", [_fatom("n", name="N1", xyz=far(5), occ=None), _fatom("x", name="P", xyz=far(1), occ=0.7), _fatom("y", name="OP1", xyz=(10.3, 0.0, 0.0), occ=0.3), _fatom("z", name="C4'", xyz=far(3), occ=0.2)], [["n", "x", "z"]]))
    C.append(("a clashing pair of model 2 behind atoms of model 1 at the same place", "clash-same-model", [_fatom("m1", model=1, name="P", occ=0.9), _fatom("x", model=2, name="P", occ=0.3), _fatom("y", model=2, name="OP1", xyz=near(0.2), occ=0.7)], [["m1", "y"]]))
    return C


def check_filter_eval(chk) -> bool:
    """filter_clashing_atoms interpreted on atom lists (numpy arrays as lists, the KD-tree as a brute-force neighbour search): which
    atoms come back.  Rules occupancy-wins, optional-occupancy, identity-key-model, clash-loser, clash-same-model, clash-distance,
    kdtree-index-space, clash-loop."""
    from sa.fragment import coverage

    repo = chk.repo
    fi = repo.func(P, "filter_clashing_atoms")
    bad: Dict[str, List[str]] = {}
    cases = filter_cases()
    _cov = coverage()
    cov = _cov.__enter__()
    try:
        env: Dict[str, Any] = {"np": _np_for_filter(), "numpy": _np_for_filter(), "KDTree": _KDTree, "cKDTree": _KDTree}
        env.update(module_callables(repo, P, outer=env))
        for tag, fact, atoms, accept in cases:
            call = func_callable(repo, P, fi.node, env, max_steps=20000)
            try:
                res = call(list(atoms))
            except Raised as ex:
                bad.setdefault(fact, []).append(f"{tag}: raises {ex.name}")
                continue
            except Unknown:
                raise
            except Exception as ex:
                bad.setdefault(fact, []).append(f"{tag}: raises {type(ex).__name__} ({str(ex)[:50]})")
                continue
            got = [getattr(a, "_tag", repr(a)) for a in res] if isinstance(res, (list, tuple)) else None
            if got is None:
                bad.setdefault(fact, []).append(f"{tag}: the result is not a list of atoms")
            elif got not in accept:
                order = sorted(got) == sorted(accept[0]) and got != accept[0]
                def bystander(a) -> bool:
                    """neither a copy of another atom nor within the clash distance of another atom of its model: nothing can remove it"""
                    for b in atoms:
                        if b is a:
                            continue
                        if (a.model, a.label, a.auth, a.name) == (b.model, b.label, b.auth, b.name):
                            return False
                        if a.model == b.model and sum((p - q) ** 2 for p, q in zip(a.coordinates, b.coordinates)) ** 0.5 <= 0.5:
                            return False
                    return True

                wrong_one = [a._tag for a in atoms if a._tag not in got and bystander(a)]
                if wrong_one and not order and len(got) == len(accept[0]):
                    # the right number of atoms goes, but another atom than the loser: positions are read in the wrong list
                    bad.setdefault("kdtree-index-space", []).append(f"{tag}: atom `{wrong_one[0]}` is dropped instead of the loser of the clash (atoms {got} come back, expected {' or '.join(str(x) for x in accept)}) - positions reported by the neighbour search are read in another list than the one it was built from")
                    continue
                bad.setdefault("order" if order else fact, []).append(f"{tag}: atoms {got} come back, expected {' or '.join(str(x) for x in accept)}" + (" (the same atoms in another order than the file's)" if order else ""))
    except Unknown as ex:
        chk.ok("filter-eval", fi.where, f"filter_clashing_atoms is not evaluable on representative atom lists ({str(ex)[:80]}): the path rules decide")
        return False
    finally:
        _cov.__exit__(None, None, None)
    texts = {
        "occupancy-wins": "of several copies of one atom (same model, residue and name) the one with the highest occupancy is kept, the first of equals",
        "optional-occupancy": "a copy without occupancy loses against one with an occupancy, never raises; a clash with an atom without occupancy drops nothing",
        "identity-key-model": "copies are recognised within one model only: the same atom of two models is kept twice",
        "identity-key": "atoms of different residues or with different names are different atoms",
        "clash-loser": "of two different atoms of one model closer than the clash distance the one with the lower occupancy goes (one of equals)",
        "clash-same-model": "atoms of different models never clash",
        "clash-distance": "the clash distance is 0.5 A (0.45 clashes, 0.55 does not)",
        "kdtree-index-space": "positions reported by the neighbour search are read in the list the search was built from",
        "order": "the atoms that stay come back in file order",
    }
    with evidence(chk, "occupancy-wins", "optional-occupancy", "identity-key-model", "clash-loser", "clash-same-model", "clash-distance", "kdtree-index-space", "clash-loop"):
        for fact, text in texts.items():
            rule = {"identity-key": "identity-key-model", "order": "clash-loop"}.get(fact, fact)
            if fact in bad:
                chk.violation(rule, fi.where, "; ".join(bad[fact][:2]), K(fi, f"filter-eval:{fact}"), found=bad[fact][:4])
            else:
                chk.ok(rule, fi.where, f"evaluated on {len(cases)} atom lists: {text}")
                if fact == "optional-occupancy":
                    chk.ok(rule, fi.where, "evaluated: two copies without any occupancy, and a clash where one atom has none, are handled without comparing None")
        report_silent_exits(chk, "clash-loop", [fi] + new_helpers(repo, P), cov, "atom lists", {"continue": "a pair of clashing atoms (or a copy) is passed over", "break": "the filter stops before all atoms are looked at", "return": "atoms are returned before the filter is complete"})
    return True
