"""C14 - outputs are a deterministic function of the input (hash-seed independence).

A8: no construct of the package turns a set whose iteration order can depend on PYTHONHASHSEED (elements that
are str, Enum members, objects hashed through a str or by identity, or of unknown type) into a sequence;
no id()/hash()/random/time value reaches an output.
"""
from __future__ import annotations

import ast
import json
import os
from typing import List

from sa import astq
from sa.model import Repo, norm
from sa.ordertaint import find_sources, nondeterministic_calls
from sa.report import VERIF
from sa.types import Types

ANCHORED = ("common", "annotator", "tertiary", "parser")


def key_components(fi, key: ast.AST) -> List[set]:
    """For a key function (lambda or local def): per return, the attribute names of the parameter in the returned tuple."""
    fn = None
    if isinstance(key, ast.Lambda):
        param = key.args.args[0].arg
        rets = [key.body]
    elif isinstance(key, ast.Name):
        scopes = [fi.node] + [o.node for o in enclosing(fi)]
        for sc in scopes:
            for n in ast.walk(sc):
                if isinstance(n, ast.FunctionDef) and n.name == key.id:
                    fn = n
            if fn is not None:
                break
        if fn is None:
            return []
        param = fn.args.args[0].arg
        rets = [r.value for r in ast.walk(fn) if isinstance(r, ast.Return) and r.value is not None]
    else:
        return []
    out = []
    for r in rets:
        comps = set()
        elts = r.elts if isinstance(r, ast.Tuple) else [r]
        for e in elts:
            if isinstance(e, ast.Attribute) and isinstance(e.value, ast.Name) and e.value.id == param:
                comps.add(e.attr)
        out.append(comps)
    return out


def order_inconsistent_with_equality(repo, ty, elem_type, comps: List[str]) -> str:
    """'' when the `<` of every named component of elem_type orders exactly what its `==` distinguishes (dataclass(order=True) without
    a hand-written __lt__, or a primitive); otherwise the reason.  A hand-written __lt__ that does not read the compared fields themselves
    can leave two unequal values unordered."""
    if not (isinstance(elem_type, tuple) and elem_type[0] == "cls"):
        return ""
    for c in comps:
        t = ty.member(elem_type, c)
        if not (isinstance(t, tuple) and t[0] == "cls"):
            continue
        node = repo.modules[t[1]].classes[t[2]]
        lt = [b for b in node.body if isinstance(b, ast.FunctionDef) and b.name == "__lt__"]
        if not lt:
            continue
        fields = [b.target.id for b in node.body if isinstance(b, ast.AnnAssign) and isinstance(b.target, ast.Name)]
        read = sorted({n.attr for n in ast.walk(lt[0]) if isinstance(n, ast.Attribute) and isinstance(n.value, ast.Name) and n.value.id in ("self", "other")})
        if not set(fields) <= set(read):
            return f"`{t[2]}.__lt__` compares ({', '.join(read)}) while `{t[2]}.__eq__` compares its fields ({', '.join(fields)})"
    return ""


def enclosing(fi) -> List:
    """FuncInfos of the functions a nested function is defined in, innermost first."""
    out = []
    q = fi.qualname
    while ".<locals>." in q:
        q = q.rsplit(".<locals>.", 1)[0]
        o = fi.module.funcs.get(q)
        if o is not None:
            out.append(o)
    return out


def nested_functions(repo) -> List:
    """Nested defs of module-level functions (the source model lists nested defs of methods only): they iterate sets as well."""
    from sa.model import FuncInfo

    out = []
    for m in repo.modules.values():
        for q, fi in list(m.funcs.items()):
            if "." in q:
                continue

            def rec(node, qual):
                for ch in ast.iter_child_nodes(node):
                    if isinstance(ch, (ast.FunctionDef, ast.AsyncFunctionDef)):
                        q2 = f"{qual}.<locals>.{ch.name}"
                        if q2 not in m.funcs:
                            out.append(FuncInfo(m, q2, ch, None))
                        rec(ch, q2)
                    elif not isinstance(ch, (ast.ClassDef, ast.Lambda)):
                        rec(ch, qual)

            rec(fi.node, q)
    return out


def analyse(chk, repo, modules, label: str) -> int:
    ty = Types(repo)
    exc = json.load(open(os.path.join(VERIF, "spec", "exceptions.json")))["order_taint"]
    n_sets = 0
    n_funcs = 0
    for fi in list(repo.all_funcs()) + nested_functions(repo):
        if modules is not None and fi.module.name not in modules:
            continue
        n_funcs += 1
        chk.note_function(fi)
        srcs, n = find_sources(ty, fi)
        n_sets += n
        for s in srcs:
            site = fi.site(s.node)
            desc = f"{s.how}: `{norm(s.container)[:50]}` with elements of type {s.elem_type}"
            if s.stable is True:
                chk.ok("order-taint", site, desc + " - hash-stable elements, iteration order independent of PYTHONHASHSEED")
                continue
            fq = f"{fi.module.name}:{fi.qualname}"
            fq_outer = f"{fi.module.name}:{fi.qualname.split('.<locals>.')[0]}"  # a helper nested in a named function is part of that function
            ex = [e for e in exc if fq in e["functions"] or fq_outer in e["functions"]]
            if ex and s.key is not None:
                comps = key_components(fi, s.key)
                need = set(ex[0]["requires_key_components"])
                if comps and all(need <= c for c in comps):
                    # the argument 'tied pairs join the same two residues' needs the order of the key components to be consistent with their
                    # equality (a != b implies a < b or b < a); computed from the class of the components
                    incons = order_inconsistent_with_equality(repo, ty, s.elem_type, sorted(need))
                    if incons and not ex[0].get("assumes"):
                        chk.violation("order-taint", site, f"{desc}: the key contains {sorted(need)}, but {incons}: unequal values can tie, the tied pairs then differ in a residue and the survivor of a conflict depends on set order (PYTHONHASHSEED)", key=f"{fq_outer}:sorted-key-order")
                        continue
                    note = f"; under the stated input assumption only ({incons})" if incons else ""
                    atext = "C14 exception " + ex[0]["construct"] + ": " + str(ex[0].get("assumes"))
                    if incons and atext not in chk.assumptions:
                        chk.assumptions.append(atext)
                    chk.ok("order-taint-exception", site, f"{desc}: named exception - every key value contains {sorted(need)} ({ex[0]['reason'][:80]}...){note}")
                    continue
                chk.violation(
                    "order-taint",
                    site,
                    f"{desc}: the sort key no longer contains both residues on every return, so the survivor of a conflict depends on set order (PYTHONHASHSEED)",
                    key=f"{fq_outer}:sorted-key",
                    expected=sorted(need),
                    found=[sorted(c) for c in comps],
                )
                continue
            if s.stable is not False:
                # the element type could not be inferred: nothing is known, nothing is claimed (the check stops being a verdict)
                chk.error("order-taint", site, f"{desc}: element type not inferred; cannot decide whether the iteration order depends on PYTHONHASHSEED")
                continue
            why = "elements whose hash depends on PYTHONHASHSEED"
            chk.violation(
                "order-taint",
                site,
                f"{desc}: {why}; the resulting order differs between interpreters",
                key=f"{fq}:{norm(s.node)[:70] if not isinstance(s.node, (ast.For,)) else 'for ' + norm(s.node.target) + ' in ' + norm(s.node.iter)[:50]}",
            )
        for node, what in nondeterministic_calls(fi):
            chk.violation("nondeterministic-value", fi.site(node), f"{what} used in library code: value differs between runs", key=f"{fi.module.name}:{fi.qualname}:{what}")
    chk.ok("order-taint", label, f"{n_funcs} functions scanned, {n_sets} set-typed values in order-exposing positions, all classified")
    chk.ok("nondeterministic-value", label, f"{n_funcs} functions: no id()/hash()/random/time value")
    return n_sets


MUT = ("append", "extend", "insert", "pop", "remove", "clear", "update", "add", "discard", "setdefault", "popitem", "sort", "reverse")


def shared_state(chk) -> None:
    """A function that mutates a module-level container (or rebinds a global) answers differently on its second call."""
    repo = chk.repo
    n = 0
    for fi in repo.all_funcs():
        mod = fi.module
        local = {a.arg for a in fi.node.args.args + fi.node.args.kwonlyargs}
        for x in ast.walk(fi.node):
            if isinstance(x, ast.Name) and isinstance(x.ctx, ast.Store):
                local.add(x.id)
        globals_decl = {g for x in ast.walk(fi.node) if isinstance(x, ast.Global) for g in x.names}
        alias = {}
        for st in ast.walk(fi.node):
            if isinstance(st, ast.Assign) and len(st.targets) == 1 and isinstance(st.targets[0], ast.Name) and isinstance(st.value, ast.Name) and st.value.id in mod.consts and st.value.id not in (local - {st.targets[0].id}):
                alias[st.targets[0].id] = st.value.id
        for x in ast.walk(fi.node):
            tgt = None
            if isinstance(x, ast.Call) and isinstance(x.func, ast.Attribute) and x.func.attr in MUT and isinstance(x.func.value, ast.Name):
                nm = x.func.value.id
                tgt = alias.get(nm) or (nm if nm in mod.consts and nm not in local else None)
            elif isinstance(x, (ast.Assign, ast.AugAssign, ast.Delete)):
                for t in (x.targets if isinstance(x, (ast.Assign, ast.Delete)) else [x.target]):
                    if isinstance(t, ast.Subscript) and isinstance(t.value, ast.Name):
                        nm = t.value.id
                        tgt = tgt or alias.get(nm) or (nm if nm in mod.consts and nm not in local else None)
                    if isinstance(t, ast.Name) and t.id in globals_decl:
                        tgt = tgt or t.id
            if tgt is not None:
                val = mod.consts.get(tgt)
                if val is not None and isinstance(val, (ast.List, ast.Dict, ast.Set, ast.ListComp, ast.DictComp, ast.SetComp, ast.Call)) or tgt in globals_decl:
                    n += 1
                    chk.violation("shared-state", fi.site(x), f"`{norm(x)[:70]}` changes the module-level object `{tgt}`: the next call in the same process starts from another state, so repeated calls on the same input differ", key=f"{mod.name}:{fi.qualname}:shared:{tgt}")
    chk.ok("shared-state", "package", "no function mutates a module-level container or rebinds a global")


def query_effects(chk) -> None:
    """A property / cached_property anywhere in the package that changes state reachable from its receiver - e.g. calls .remove() on
    the list another object's cached_property handed out - makes later answers differ from the first ones: repeated calls on the same
    input are no longer identical.  (common.py's own classes are covered method by method by c12.check_effects above.)"""
    from checks import c12
    from sa.effects import Effects

    repo = chk.repo
    eng = Effects(repo)
    n = 0
    for fi in sorted(repo.all_funcs(), key=lambda f: (f.module.name, f.node.lineno)):
        if fi.cls is None or "<locals>" in fi.qualname or fi.qualname.endswith(".setter"):
            continue
        if fi.module.name == c12.MOD and fi.cls.name in c12.CLASSES:
            continue
        if not any(d in ("property", "cached_property", "cache", "lru_cache") for d in fi.decorators):
            continue
        n += 1
        try:
            writes, _ = eng.analyse(fi)
        except Exception as ex:
            chk.error("query-write", fi.where, f"effect analysis failed: {type(ex).__name__}: {ex}")
            continue
        for w in writes:
            chk.violation(
                "query-write",
                fi.site(w.node),
                f"{w.what}" + (f" (through {w.via})" if w.via else "") + f": the query `{fi.qualname}` changes an object it only reads from (for instance the value another cached_property keeps), so the same question asked again - or another query of that object - answers differently within one process",
                key=f"{fi.module.name}:{fi.qualname}:{norm(w.node)[:80]}",
            )
    chk.ok("query-write", "package", f"{n} properties outside common.py's structure classes: none writes to state reachable from its receiver")


def run(chk) -> None:
    chk.explanation = (
        "Iteration-order taint analysis over every function of the package: light type inference (annotations, constructors, adds, "
        "comprehensions, modelled externals such as KDTree.query_pairs) gives the element type of every set-typed value; each construct that turns a "
        "set into a sequence (for, comprehension, list/tuple/next/enumerate/zip/join/itertools.*, keyed sorted/min/max, pop) is a source; it is accepted only "
        "if the element type is hash-stable (ints/floats/tuples of such); str, Enum, str-hashed or identity-hashed objects and unknown types are reported. "
        "Module-level constants are typed from their defining expression in their own module (frozenset('ACGU'), set algebra with a table), names bound by := and names reused for values of "
        "different types are read through their reaching definitions, helpers nested in a function belong to it. One named exception with checked side conditions (spec/exceptions.json): the sort key "
        "must contain both residues, and the order of the key components must be consistent with their equality - where it is not (Residue.__lt__ vs __eq__) the exception holds only under the input "
        "assumption recorded there. Repeated calls: no method of the structure classes and no property anywhere in the package writes to state reachable from its receiver (effects engine), no "
        "function mutates a module-level container."
    )
    chk.trusted = ["CPython: set iteration order is a function of the hashes and the insertion history", "scipy/pulp/pandas/mmcif internals are deterministic", "dict and OrderedSet preserve insertion order"]
    chk.assumptions = ["int/float/tuple-of-int hashes do not depend on PYTHONHASHSEED"]
    chk.robust |= {"order-taint", "nondeterministic-value", "receiver-write", "cache-introspection", "shared-state", "query-write"}
    n = analyse(chk, chk.repo, None, "package")
    # repeated calls: no query changes the object it is asked on, none looks at the cache, no module-level container is consumed
    from checks import c12

    c12.check_effects(chk)
    query_effects(chk)
    shared_state(chk)
    if n < 8:
        chk.error("order-taint", "-", f"only {n} set-typed iteration sites recognised (9 confirmed on the pinned tree): the type inference lost track of the sets")


def run_thorough(chk) -> None:
    fx = os.path.join(VERIF, "fixtures", "c14")
    frepo = Repo(fx)
    ty = Types(frepo)
    for fi in frepo.module("taint").funcs.values():
        srcs, _ = find_sources(ty, fi)
        bad = [s for s in srcs if s.stable is not True]
        if fi.node.name.startswith("bad_"):
            if bad:
                chk.ok("fixture-control", f"fixtures/c14 {fi.qualname}", "firing example reported")
            else:
                chk.error("fixture-control", f"fixtures/c14 {fi.qualname}", "firing example NOT reported")
        elif fi.node.name.startswith("ok_"):
            if bad:
                chk.error("fixture-control", f"fixtures/c14 {fi.qualname}", f"silent twin reported: {bad[0].how}")
            else:
                chk.ok("fixture-control", f"fixtures/c14 {fi.qualname}", "silent twin not reported")


MANIFEST_ENTRY = {
    "text": "Whole-package iteration-order taint analysis on the current source: every place where a set becomes a sequence is found and the element type of the set "
    "is inferred; only hash-stable element types are accepted, unknown types fail closed. Hash-seed dependence needs two interpreters to observe; the analysis "
    "instead rules out its only source in this code base (iteration of str/object sets) on every path. Also: no id()/hash()/random/time values.",
    "note": "Trusted: determinism of scipy/pulp/pandas/mmcif internals; CPython set iteration being a function of hashes and insertion history. One named exception with a checked side condition (sorted with a non-injective key in the conflict resolution).",
    "technique": "static analysis: light type inference + iteration-order taint (unordered source -> sequence) over the ast of all modules",
}
