"""C14 - outputs are a deterministic function of the input (hash-seed independence).

A8: no construct of the package turns a set whose iteration order can depend on PYTHONHASHSEED (elements that
are str, Enum members, objects hashed through a str or by identity, or of unknown type) into a sequence;
no id()/hash()/random/time value reaches an output; the random name of a temporary file is used only to address
the file (sa/runvalue.py); no memoised function answers from state outside its arguments (sa/memoio.py).
"""
from __future__ import annotations

import ast
import json
import os
from typing import List, Tuple

from sa import astq
from sa.model import Repo, norm
from sa.ordertaint import find_sources, nondeterministic_calls
from sa.report import VERIF
from sa.types import Types

ANCHORED = ("common", "annotator", "tertiary", "parser")


def key_components(fi, key: ast.AST) -> List[set]:
    """For a key function (lambda or local def): per return, the attribute names of the parameter in the returned tuple."""
    fn = None
    if isinstance(key, ast.Lambda):
        param = key.args.args[0].arg
        rets = [key.body]
    elif isinstance(key, ast.Name):
        scopes = [fi.node] + [o.node for o in enclosing(fi)]
        for sc in scopes:
            for n in ast.walk(sc):
                if isinstance(n, ast.FunctionDef) and n.name == key.id:
                    fn = n
            if fn is not None:
                break
        if fn is None:
            return []
        param = fn.args.args[0].arg
        rets = [r.value for r in ast.walk(fn) if isinstance(r, ast.Return) and r.value is not None]
    else:
        return []
    out = []
    for r in rets:
        comps = set()
        elts = r.elts if isinstance(r, ast.Tuple) else [r]
        for e in elts:
            if isinstance(e, ast.Attribute) and isinstance(e.value, ast.Name) and e.value.id == param:
                comps.add(e.attr)
        out.append(comps)
    return out


def order_inconsistent_with_equality(repo, ty, elem_type, comps: List[str]) -> str:
    """'' when the `<` of every named component of elem_type orders exactly what its `==` distinguishes (dataclass(order=True) without
    a hand-written __lt__, or a primitive); otherwise the reason.  A hand-written __lt__ that does not read the compared fields themselves
    can leave two unequal values unordered."""
    if not (isinstance(elem_type, tuple) and elem_type[0] == "cls"):
        return ""
    for c in comps:
        t = ty.member(elem_type, c)
        if not (isinstance(t, tuple) and t[0] == "cls"):
            continue
        node = repo.modules[t[1]].classes[t[2]]
        lt = [b for b in node.body if isinstance(b, ast.FunctionDef) and b.name == "__lt__"]
        if not lt:
            continue
        fields = [b.target.id for b in node.body if isinstance(b, ast.AnnAssign) and isinstance(b.target, ast.Name)]
        read = sorted({n.attr for n in ast.walk(lt[0]) if isinstance(n, ast.Attribute) and isinstance(n.value, ast.Name) and n.value.id in ("self", "other")})
        if not set(fields) <= set(read):
            return f"`{t[2]}.__lt__` compares ({', '.join(read)}) while `{t[2]}.__eq__` compares its fields ({', '.join(fields)})"
    return ""


def enclosing(fi) -> List:
    """FuncInfos of the functions a nested function is defined in, innermost first."""
    out = []
    q = fi.qualname
    while ".<locals>." in q:
        q = q.rsplit(".<locals>.", 1)[0]
        o = fi.module.funcs.get(q)
        if o is not None:
            out.append(o)
    return out


def nested_functions(repo) -> List:
    """Nested defs of module-level functions (the source model lists nested defs of methods only): they iterate sets as well."""
    from sa.model import FuncInfo

    out = []
    for m in repo.modules.values():
        for q, fi in list(m.funcs.items()):
            if "." in q:
                continue

            def rec(node, qual):
                for ch in ast.iter_child_nodes(node):
                    if isinstance(ch, (ast.FunctionDef, ast.AsyncFunctionDef)):
                        q2 = f"{qual}.<locals>.{ch.name}"
                        if q2 not in m.funcs:
                            out.append(FuncInfo(m, q2, ch, None))
                        rec(ch, q2)
                    elif not isinstance(ch, (ast.ClassDef, ast.Lambda)):
                        rec(ch, qual)

            rec(fi.node, q)
    return out


FRESH_CALLS = {"list", "set", "dict", "tuple", "frozenset", "sorted", "defaultdict", "OrderedDict", "deque", "Counter", "reversed", "enumerate", "zip", "range", "filter", "map"}
READ_ONLY_CALLS = {"len", "sorted", "list", "set", "tuple", "frozenset", "defaultdict", "min", "max", "sum", "any", "all", "enumerate", "zip", "reversed", "range", "iter", "next", "isinstance", "bool", "dict"}
CONTAINER_METHODS = {"append", "add", "remove", "discard", "pop", "extend", "insert", "sort", "reverse", "clear", "update", "setdefault", "popitem", "values", "items", "keys", "get", "index", "count", "copy"}


def _result_unused(fi, node: ast.AST) -> Tuple[bool, str]:
    """(True, '') when the value of `node` (a sorted(...) call) and everything computed from it or under its control stays inside
    the function; otherwise (False, the first place where it leaves).

    T = the names that can depend on the order: the targets the value is bound to; every name bound from an expression that mentions a
    name of T (assignment of any form, tuple unpacking, augmented assignment, :=, loop and comprehension targets, with-targets); the
    receiver (base name) of every method call that takes a name of T as an argument; every name bound, and every receiver edited,
    inside a statement whose test / iterable mentions a name of T (implicit flow).
    The computation is dead when
      * every name of T is a local of this function that is only ever bound to fresh containers (literals, comprehensions, list/set/
        sorted/defaultdict(...)) or to values taken out of names of T - never a parameter, `self`, a global or a closure variable;
      * no name of T occurs in a return / yield / raise value, in a nested function or lambda, in the value or the target of an attribute
        store, in a subscript store into something that is not itself in T, or as an argument of a call other than a read-only builtin
        or a container method of a name of T;
      * no method other than a container method is called on (an element of) a name of T, and no attribute of an element is written;
      * no return / yield / raise stands under the control of a test or loop that mentions a name of T."""
    fn = fi.node
    par = {}
    for n in ast.walk(fn):
        for c in ast.iter_child_nodes(n):
            par[id(c)] = n
    st = node
    while id(st) in par and not isinstance(st, ast.stmt):
        st = par[id(st)]
    T: set = set()

    def names(e) -> set:
        return {x.id for x in ast.walk(e) if isinstance(x, ast.Name)} if e is not None else set()

    def base_name(e):
        while isinstance(e, (ast.Attribute, ast.Subscript, ast.Call)):
            e = e.func if isinstance(e, ast.Call) else e.value
        return e.id if isinstance(e, ast.Name) else None

    if isinstance(st, ast.Assign):
        for t in st.targets:
            T |= names(t) if not isinstance(t, (ast.Attribute, ast.Subscript)) else set()
            if isinstance(t, (ast.Attribute, ast.Subscript)):
                return False, f"it is stored in `{norm(t)[:40]}`"
    elif isinstance(st, ast.AnnAssign) and isinstance(st.target, ast.Name):
        T.add(st.target.id)
    else:
        return False, f"it is used directly in `{norm(st)[:60]}`"

    def controlled(n) -> bool:
        """n stands inside an if / while / for / comprehension whose test or iterable mentions a name of T"""
        p = par.get(id(n))
        while p is not None and p is not fn:
            if isinstance(p, (ast.If, ast.While)) and names(p.test) & T:
                return True
            if isinstance(p, (ast.For, ast.AsyncFor)) and names(p.iter) & T:
                return True
            if isinstance(p, ast.IfExp) and names(p.test) & T:
                return True
            p = par.get(id(p))
        return False

    changed = True
    while changed:
        changed = False
        for n in ast.walk(fn):
            bound, src = [], None
            if isinstance(n, ast.Assign):
                bound, src = n.targets, n.value
            elif isinstance(n, (ast.AnnAssign, ast.AugAssign)):
                bound, src = [n.target], n.value
            elif isinstance(n, ast.NamedExpr):
                bound, src = [n.target], n.value
            elif isinstance(n, (ast.For, ast.AsyncFor)):
                bound, src = [n.target], n.iter
            elif isinstance(n, ast.withitem) and n.optional_vars is not None:
                bound, src = [n.optional_vars], n.context_expr
            if bound and src is not None and ((names(src) & T) or controlled(n)):
                for t in bound:
                    new = ({base_name(t)} if isinstance(t, (ast.Attribute, ast.Subscript)) else names(t)) - {None}
                    if not new <= T:
                        T |= new
                        changed = True
            if isinstance(n, ast.Call) and isinstance(n.func, ast.Attribute):
                argn = set()
                for a in list(n.args) + [k.value for k in n.keywords]:
                    argn |= names(a)
                if (argn & T) or controlled(n):
                    b = base_name(n.func.value)
                    if b is not None and b not in T and (n.func.attr in CONTAINER_METHODS or argn & T):
                        if (argn & T) and (b in ("self", "cls") or b in {a.arg for a in fn.args.posonlyargs + fn.args.args + fn.args.kwonlyargs}):
                            return False, f"`{sorted(argn & T)[0]}` is handed to `{norm(n.func)[:40]}(...)`, outside this function"
                        T.add(b)
                        changed = True
    # every name of T is a fresh local
    params = {a.arg for a in fn.args.posonlyargs + fn.args.args + fn.args.kwonlyargs} | ({fn.args.vararg.arg} if fn.args.vararg else set()) | ({fn.args.kwarg.arg} if fn.args.kwarg else set())
    declared = {g for x in ast.walk(fn) if isinstance(x, (ast.Global, ast.Nonlocal)) for g in x.names}
    for nm in sorted(T):
        if nm in params or nm in declared or nm in ("self", "cls"):
            return False, f"`{nm}` - a parameter, `self` or a global - is edited with it"
        binds = []
        for n in ast.walk(fn):
            if isinstance(n, ast.Assign):
                binds += [(t, n.value) for t in n.targets if nm in names(t) and not isinstance(t, (ast.Attribute, ast.Subscript))]
            elif isinstance(n, (ast.AnnAssign, ast.AugAssign, ast.NamedExpr)) and nm in names(n.target) and not isinstance(n.target, (ast.Attribute, ast.Subscript)) and n.value is not None:
                binds.append((n.target, n.value))
            elif isinstance(n, (ast.For, ast.AsyncFor)) and nm in names(n.target):
                binds.append((n.target, n.iter))
            elif isinstance(n, ast.withitem) and n.optional_vars is not None and nm in names(n.optional_vars):
                return False, f"`{nm}` is bound by a with statement"
        if not binds:
            return False, f"`{nm}` is not a local of this function (closure or global)"
        for t, v in binds:
            fresh = isinstance(v, (ast.List, ast.Set, ast.Dict, ast.Tuple, ast.ListComp, ast.SetComp, ast.DictComp, ast.GeneratorExp, ast.Constant)) or (isinstance(v, ast.Call) and isinstance(v.func, ast.Name) and v.func.id in FRESH_CALLS)
            from_t = bool(names(v) & T) and all(isinstance(x, (ast.Name, ast.Subscript, ast.Constant, ast.Slice, ast.UnaryOp, ast.USub, ast.Load, ast.Store, ast.Attribute, ast.Call, ast.Tuple, ast.Index if hasattr(ast, "Index") else ast.Load)) or isinstance(x, (ast.expr_context, ast.operator, ast.unaryop)) for x in ast.walk(v))
            if not (fresh or from_t):
                return False, f"`{nm}` is bound to `{norm(v)[:50]}`, which is not a fresh local container"
    # where T must not occur
    for n in ast.walk(fn):
        if isinstance(n, (ast.ListComp, ast.SetComp, ast.DictComp, ast.GeneratorExp)) and any(names(g.iter) & T for g in n.generators):
            # the variables of a comprehension over a name of T are elements: nothing may be called on them or with them
            for c in ast.walk(n):
                if isinstance(c, ast.Call) and not (isinstance(c.func, ast.Name) and c.func.id in READ_ONLY_CALLS):
                    return False, f"`{norm(c)[:50]}` is called on its elements in a comprehension"
        if isinstance(n, (ast.Return, ast.Yield, ast.YieldFrom, ast.Raise)):
            v = n.value if not isinstance(n, ast.Raise) else n.exc
            if v is not None and names(v) & T:
                return False, f"`{norm(n)[:60]}` hands it out"
            if not isinstance(n, ast.Raise) and controlled(n) and v is not None:
                return False, f"`{norm(n)[:60]}` stands under a test of it"
        if isinstance(n, (ast.FunctionDef, ast.AsyncFunctionDef, ast.Lambda)) and n is not fn:
            inner = set()
            for b in (n.body if isinstance(n.body, list) else [n.body]):
                inner |= names(b)
            own = {a.arg for a in n.args.posonlyargs + n.args.args + n.args.kwonlyargs}
            if (inner - own) & T:
                return False, f"a nested function reads `{sorted((inner - own) & T)[0]}`"
        if isinstance(n, (ast.Assign, ast.AugAssign, ast.AnnAssign)):
            tgts = n.targets if isinstance(n, ast.Assign) else [n.target]
            for t in tgts:
                if isinstance(t, ast.Attribute) and ((names(n.value) & T) or base_name(t) in T or controlled(n)):
                    return False, f"`{norm(n)[:60]}` writes an attribute of an object that exists outside this function"
                if isinstance(t, ast.Subscript) and not isinstance(t.value, ast.Name) and (base_name(t) in T):
                    return False, f"`{norm(n)[:60]}` writes into an element"
        if isinstance(n, ast.Delete) and controlled(n):
            for t in n.targets:
                if base_name(t) not in T:
                    return False, f"`{norm(n)[:60]}` stands under a test of it"
        if isinstance(n, ast.Call):
            argn = set()
            for a in list(n.args) + [k.value for k in n.keywords if k.arg != "key"]:
                argn |= names(a)
            if isinstance(n.func, ast.Name):
                if (argn & T) and n.func.id not in READ_ONLY_CALLS:
                    return False, f"it is passed to `{n.func.id}(...)`"
                if controlled(n) and n.func.id not in READ_ONLY_CALLS and n.func.id not in FRESH_CALLS:
                    return False, f"`{norm(n)[:50]}` is called under a test of it"
            elif isinstance(n.func, ast.Attribute):
                b = base_name(n.func.value)
                recv = n.func.value
                # the receiver must be a container named in T: NAME, NAME[...], NAME.values()/items()/keys()
                plain = isinstance(recv, ast.Name) or (isinstance(recv, ast.Subscript) and isinstance(recv.value, ast.Name))
                if b in T:
                    if not (plain and n.func.attr in CONTAINER_METHODS):
                        return False, f"`{norm(n)[:60]}` calls a method of an element"
                elif (argn & T) or controlled(n):
                    return False, f"it is passed to `{norm(n.func)[:40]}(...)`"
            else:
                if argn & T:
                    return False, f"it is passed to `{norm(n.func)[:40]}(...)`"
    return True, ""


def analyse(chk, repo, modules, label: str) -> int:
    ty = Types(repo)
    exc = json.load(open(os.path.join(VERIF, "spec", "exceptions.json")))["order_taint"]
    n_sets = 0
    n_funcs = 0
    for fi in list(repo.all_funcs()) + nested_functions(repo):
        if modules is not None and fi.module.name not in modules:
            continue
        n_funcs += 1
        chk.note_function(fi)
        srcs, n = find_sources(ty, fi)
        n_sets += n
        for s in srcs:
            site = fi.site(s.node)
            desc = f"{s.how}: `{norm(s.container)[:50]}` with elements of type {s.elem_type}"
            if s.stable is True:
                chk.ok("order-taint", site, desc + " - hash-stable elements, iteration order independent of PYTHONHASHSEED")
                continue
            if getattr(s, "partial", ""):
                chk.violation("order-taint", site, f"{desc}: {s.partial}; sorted() is stable, so elements that are neither smaller nor greater than each other stay in the order the set yields them, which depends on their hashes (PYTHONHASHSEED)", key=f"{fi.module.name}:{fi.qualname}:sorted-partial:{norm(s.container)[:40]}")
                continue
            fq = f"{fi.module.name}:{fi.qualname}"
            fq_outer = f"{fi.module.name}:{fi.qualname.split('.<locals>.')[0]}"  # a helper nested in a named function is part of that function
            ex = [e for e in exc if fq in e["functions"] or fq_outer in e["functions"]]
            if ex and ex[0].get("requires_result_unused"):
                dead, leak = _result_unused(fi, s.node)
                if dead:
                    chk.ok("order-taint-exception", site, f"{desc}: named exception - the sorted order reaches no output of this function (dead computation: only fresh local containers are edited with it; nothing computed from it or under its control is returned, stored, passed on or used to edit a shared object)")
                    continue
                chk.violation("order-taint", site, f"{desc}: sorted(set, key=...) keeps set order among ties and its result is no longer confined to this function - {leak}: the order differs between interpreters (PYTHONHASHSEED)", key=f"{fq_outer}:sorted-key-live")
                continue
            if ex and s.key is not None:
                comps = key_components(fi, s.key)
                need = set(ex[0]["requires_key_components"])
                if comps and all(need <= c for c in comps):
                    # the argument 'tied pairs join the same two residues' needs the order of the key components to be consistent with their
                    # equality (a != b implies a < b or b < a); computed from the class of the components
                    incons = order_inconsistent_with_equality(repo, ty, s.elem_type, sorted(need))
                    if incons and not ex[0].get("assumes"):
                        chk.violation("order-taint", site, f"{desc}: the key contains {sorted(need)}, but {incons}: unequal values can tie, the tied pairs then differ in a residue and the survivor of a conflict depends on set order (PYTHONHASHSEED)", key=f"{fq_outer}:sorted-key-order")
                        continue
                    note = f"; under the stated input assumption only ({incons})" if incons else ""
                    atext = "C14 exception " + ex[0]["construct"] + ": " + str(ex[0].get("assumes"))
                    if incons and atext not in chk.assumptions:
                        chk.assumptions.append(atext)
                    chk.ok("order-taint-exception", site, f"{desc}: named exception - every key value contains {sorted(need)} ({ex[0]['reason'][:80]}...){note}")
                    continue
                chk.violation(
                    "order-taint",
                    site,
                    f"{desc}: the sort key no longer contains both residues on every return, so the survivor of a conflict depends on set order (PYTHONHASHSEED)",
                    key=f"{fq_outer}:sorted-key",
                    expected=sorted(need),
                    found=[sorted(c) for c in comps],
                )
                continue
            if s.stable is not False:
                # the element type could not be inferred: nothing is known, nothing is claimed (the check stops being a verdict)
                chk.error("order-taint", site, f"{desc}: element type not inferred; cannot decide whether the iteration order depends on PYTHONHASHSEED")
                continue
            why = "elements whose hash depends on PYTHONHASHSEED"
            chk.violation(
                "order-taint",
                site,
                f"{desc}: {why}; the resulting order differs between interpreters",
                key=f"{fq}:{norm(s.node)[:70] if not isinstance(s.node, (ast.For,)) else 'for ' + norm(s.node.target) + ' in ' + norm(s.node.iter)[:50]}",
            )
        for node, what in nondeterministic_calls(fi):
            chk.violation("nondeterministic-value", fi.site(node), f"{what} used in library code: value differs between runs", key=f"{fi.module.name}:{fi.qualname}:{what}")
    chk.ok("order-taint", label, f"{n_funcs} functions scanned, {n_sets} set-typed values in order-exposing positions, all classified")
    chk.ok("nondeterministic-value", label, f"{n_funcs} functions: no id()/hash()/random/time value")
    return n_sets


MUT = ("append", "extend", "insert", "pop", "remove", "clear", "update", "add", "discard", "setdefault", "popitem", "sort", "reverse")


def shared_state(chk) -> None:
    """A function that mutates a module-level container (or rebinds a global) answers differently on its second call."""
    repo = chk.repo
    n = 0
    for fi in repo.all_funcs():
        mod = fi.module
        local = {a.arg for a in fi.node.args.args + fi.node.args.kwonlyargs}
        for x in ast.walk(fi.node):
            if isinstance(x, ast.Name) and isinstance(x.ctx, ast.Store):
                local.add(x.id)
        globals_decl = {g for x in ast.walk(fi.node) if isinstance(x, ast.Global) for g in x.names}
        alias = {}
        for st in ast.walk(fi.node):
            if isinstance(st, ast.Assign) and len(st.targets) == 1 and isinstance(st.targets[0], ast.Name) and isinstance(st.value, ast.Name) and st.value.id in mod.consts and st.value.id not in (local - {st.targets[0].id}):
                alias[st.targets[0].id] = st.value.id
        for x in ast.walk(fi.node):
            tgt = None
            if isinstance(x, ast.Call) and isinstance(x.func, ast.Attribute) and x.func.attr in MUT and isinstance(x.func.value, ast.Name):
                nm = x.func.value.id
                tgt = alias.get(nm) or (nm if nm in mod.consts and nm not in local else None)
            elif isinstance(x, (ast.Assign, ast.AugAssign, ast.Delete)):
                for t in (x.targets if isinstance(x, (ast.Assign, ast.Delete)) else [x.target]):
                    if isinstance(t, ast.Subscript) and isinstance(t.value, ast.Name):
                        nm = t.value.id
                        tgt = tgt or alias.get(nm) or (nm if nm in mod.consts and nm not in local else None)
                    if isinstance(t, ast.Name) and t.id in globals_decl:
                        tgt = tgt or t.id
            if tgt is not None:
                val = mod.consts.get(tgt)
                if val is not None and isinstance(val, (ast.List, ast.Dict, ast.Set, ast.ListComp, ast.DictComp, ast.SetComp, ast.Call)) or tgt in globals_decl:
                    n += 1
                    chk.violation("shared-state", fi.site(x), f"`{norm(x)[:70]}` changes the module-level object `{tgt}`: the next call in the same process starts from another state, so repeated calls on the same input differ", key=f"{mod.name}:{fi.qualname}:shared:{tgt}")
    foreign_state(chk)
    chk.ok("shared-state", "package", "no function mutates a module-level container or rebinds a global; none assigns to an attribute of a module or of a class (state that outlives the call)")


def foreign_state(chk) -> None:
    """State that belongs to a module or a class outlives every call: `pulp.LpSolverDefault = None`, `sys.setrecursionlimit`-like
    assignments `module.NAME = value`, `os.environ[...] = value`, `Class.attribute = value`, `module.TABLE.append(...)`, setattr(module, ...).
    After such a statement - wherever it stands: a normal path, an exception handler, a fallback - every later call in the process runs
    with other settings than a fresh process, so the output of a structure depends on what was processed before it."""
    repo = chk.repo
    for fi in repo.all_funcs():
        mod = fi.module
        local = {a.arg for a in fi.node.args.posonlyargs + fi.node.args.args + fi.node.args.kwonlyargs}
        for x in ast.walk(fi.node):
            if isinstance(x, ast.Name) and isinstance(x.ctx, ast.Store):
                local.add(x.id)

        def owner(e: ast.AST):
            """('module' | 'class', text) when the attribute / subscript chain e is rooted in an imported module or a class of the package"""
            chain = e
            while isinstance(chain, (ast.Attribute, ast.Subscript)):
                chain = chain.value
            if not isinstance(chain, ast.Name) or chain.id in local:
                return None
            nm = chain.id
            if nm in mod.imports:
                src, orig = mod.imports[nm]
                if orig is None:
                    return "module", src
                full = f"{src}.{orig}"
                if full.split(".")[-1] in repo.modules and src.split(".")[0] == "rnapolis":
                    return "module", full
                try:
                    hm, hn = repo.const_home(mod.name, nm)
                    if hn in repo.modules[hm].classes:
                        return "class", hn
                except Exception:
                    pass
                if orig in ("environ", "path", "modules", "argv"):
                    return "module", full
                return None
            if nm in mod.classes:
                return "class", nm
            return None

        for x in ast.walk(fi.node):
            hit = None
            if isinstance(x, (ast.Assign, ast.AugAssign, ast.AnnAssign, ast.Delete)):
                tgts = x.targets if isinstance(x, (ast.Assign, ast.Delete)) else [x.target]
                for t in tgts:
                    for t2 in (t.elts if isinstance(t, (ast.Tuple, ast.List)) else [t]):
                        if isinstance(t2, (ast.Attribute, ast.Subscript)):
                            o = owner(t2)
                            if o is not None:
                                hit = (o, t2)
            elif isinstance(x, ast.Call) and isinstance(x.func, ast.Name) and x.func.id in ("setattr", "delattr") and x.args:
                o = owner(ast.Attribute(value=x.args[0], attr="_", ctx=ast.Load())) if isinstance(x.args[0], (ast.Name, ast.Attribute)) else None
                if o is not None:
                    hit = (o, x.args[0])
            elif isinstance(x, ast.Call) and isinstance(x.func, ast.Attribute) and x.func.attr in MUT and isinstance(x.func.value, (ast.Attribute, ast.Subscript)):
                o = owner(x.func.value)
                if o is not None and o[0] == "module":
                    hit = (o, x.func.value)
            if hit is None:
                continue
            (kind, name), tgt = hit
            if kind == "class" and fi.cls is not None and fi.cls.name == name and fi.node.name in ("__init_subclass__", "__class_getitem__"):
                continue
            handler = ""
            par = astq.parents(fi.node)
            p = par.get(id(x))
            while p is not None:
                if isinstance(p, ast.ExceptHandler):
                    handler = f" inside the handler `except {norm(p.type) if p.type is not None else ''}`: one fault changes how every later input of the process is treated;"
                    break
                p = par.get(id(p))
            chk.violation(
                "shared-state",
                fi.site(x),
                f"`{norm(x)[:70]}` writes `{norm(tgt)[:40]}`, state of the {kind} `{name}` that outlives the call{handler or ':'} the next call in the same process runs with other settings than a fresh process, so repeated calls / other structures in one run differ from fresh interpreters",
                key=f"{mod.name}:{fi.qualname}:foreign:{norm(tgt)[:40]}",
            )


def query_effects(chk) -> None:
    """A property / cached_property anywhere in the package that changes state reachable from its receiver - e.g. calls .remove() on
    the list another object's cached_property handed out - makes later answers differ from the first ones: repeated calls on the same
    input are no longer identical.  (common.py's own classes are covered method by method by c12.check_effects above.)"""
    from checks import c12
    from sa.effects import Effects

    repo = chk.repo
    eng = Effects(repo)
    n = 0
    for fi in sorted(repo.all_funcs(), key=lambda f: (f.module.name, f.node.lineno)):
        if fi.cls is None or "<locals>" in fi.qualname or fi.qualname.endswith(".setter"):
            continue
        if fi.module.name == c12.MOD and fi.cls.name in c12.CLASSES:
            continue
        if not any(d in ("property", "cached_property", "cache", "lru_cache") for d in fi.decorators):
            continue
        n += 1
        try:
            writes, _ = eng.analyse(fi)
        except Exception as ex:
            chk.error("query-write", fi.where, f"effect analysis failed: {type(ex).__name__}: {ex}")
            continue
        for w in writes:
            chk.violation(
                "query-write",
                fi.site(w.node),
                f"{w.what}" + (f" (through {w.via})" if w.via else "") + f": the query `{fi.qualname}` changes an object it only reads from (for instance the value another cached_property keeps), so the same question asked again - or another query of that object - answers differently within one process",
                key=f"{fi.module.name}:{fi.qualname}:{norm(w.node)[:80]}",
            )
    chk.ok("query-write", "package", f"{n} properties outside common.py's structure classes: none writes to state reachable from its receiver")


def run_values(chk) -> None:
    """The name of a temporary file is random on every run: it may address the file, it must not become data (sa/runvalue.py)."""
    from sa.runvalue import RunValues

    try:
        rv = RunValues(chk.repo)
        found = rv.analyse()
    except Exception as ex:
        chk.error("run-dependent-name", "package", f"taint analysis of temporary names failed: {type(ex).__name__}: {ex}")
        return
    for f in found:
        chk.violation("run-dependent-name", f.fi.site(f.node), f.text, key=f.key)
    chk.ok("run-dependent-name", "package", f"{rv.n_sources} temporary files / names are created in the package; every value derived from such a name (through assignments, string and path operations, returns and arguments of package functions) is used only to address the file, in tests, or in log messages")


def memo_external(chk) -> None:
    """A memoised function answers from its arguments only (sa/memoio.py)."""
    from sa import memoio

    try:
        found, n = memoio.findings(chk.repo)
    except Exception as ex:
        chk.error("memo-external-state", "package", f"analysis of memoised functions failed: {type(ex).__name__}: {ex}")
        return
    for fi, node, text, key in found:
        chk.violation("memo-external-state", fi.site(node), text, key=key)
    chk.ok("memo-external-state", "package", f"{n} memoised functions (lru_cache / cache, as decorator or wrapped at module level): none reads the file system, the environment, the clock or standard input, directly or through package functions it calls")


def borrowed_arrays(chk) -> None:
    """An array kept by an object (a cached_property, a field) is that object's state: an in-place numpy operation through a name that
    merely aliases it (`acc = atom.coordinates; acc += ...`) changes it for every later reader, so a query asked twice - or asked after
    another query - answers differently (sa/alias.py, origin analysis over the package)."""
    from sa import alias

    try:
        found, attrs, n_funcs = alias.findings(chk.repo)
    except Exception as ex:
        chk.error("borrowed-array-write", "package", f"alias analysis failed: {type(ex).__name__}: {str(ex)[:120]}")
        return
    k = 0
    for fi, node, name, src, attr, op in found:
        if attr == "parameter":
            continue  # writing into a caller's array can be a function's contract; the owner-state case is the one that makes calls history dependent
        k += 1
        chk.violation(
            "borrowed-array-write",
            fi.site(node),
            f"{op} `{name}`, which aliases {src} ({'; '.join(attrs.get(attr, [])[:2])}): the object's own array is changed for good, so every value computed from it afterwards - in this call or a later one in the same process - differs from what a fresh process computes for the same input",
            key=f"{fi.module.name}:{fi.qualname}:borrowed:{attr}:{name}",
        )
    if k == 0:
        chk.ok("borrowed-array-write", "package", f"{n_funcs} functions read; arrays kept per object: {sorted(attrs)}; no in-place numpy operation reaches one of them through an alias")


def serialised_records(chk) -> None:
    """A record that is written out attribute by attribute (orjson.dumps / json.dumps of a dataclass without __slots__ serialises what is
    in its __dict__) must not grow instance state when it is read: a functools.cached_property stores its value in that __dict__ on first
    access, a lazy `self._x = ...` in a method does the same - the bytes written for one and the same object then depend on which
    question was asked before (call history), not on the input."""
    repo = chk.repo
    ty = Types(repo)
    roots = []
    for fi in repo.all_funcs():
        ft = None
        for n in ast.walk(fi.node):
            if isinstance(n, ast.Call) and (astq.dotted(n.func) or "").split(".")[-1] in ("dumps", "dump") and (astq.dotted(n.func) or "").split(".")[0] in ("orjson", "json", "ujson", "simplejson") and n.args:
                from sa.types import FuncTypes

                ft = ft or FuncTypes(ty, fi)
                t = ft.of(n.args[0])
                roots.append((fi, n, t))
    seen = {}
    todo = []

    def push(t, via):
        if isinstance(t, tuple):
            if t[0] == "cls":
                if (t[1], t[2]) not in seen:
                    seen[(t[1], t[2])] = via
                    todo.append((t[1], t[2]))
            elif t[0] == "tuple":
                for x in t[1]:
                    push(x, via)
            else:
                for x in t[1:]:
                    push(x, via)

    for fi, n, t in roots:
        push(t, f"{norm(n)[:50]} in {fi.qualname}")
    while todo:
        m, c = todo.pop()
        node = repo.modules[m].classes.get(c)
        if node is None:
            continue
        for b in node.body:
            if isinstance(b, ast.AnnAssign):
                push(ty.ann(m, b.annotation), seen[(m, c)])
        for base in node.bases:
            push(ty._cls(m, ast.unparse(base).split(".")[-1].split("[")[0]), seen[(m, c)])
    n_cls = 0
    for (m, c), via in sorted(seen.items()):
        node = repo.modules[m].classes.get(c)
        if node is None:
            continue
        if any(isinstance(b, ast.Assign) and any(isinstance(t, ast.Name) and t.id == "__slots__" for t in b.targets) for b in node.body):
            continue
        if any(isinstance(d, ast.Call) and any(k.arg == "slots" and isinstance(k.value, ast.Constant) and k.value.value is True for k in d.keywords) for d in node.decorator_list):
            continue
        n_cls += 1
        fields = {b.target.id for b in node.body if isinstance(b, ast.AnnAssign) and isinstance(b.target, ast.Name)}
        for b in node.body:
            if not isinstance(b, ast.FunctionDef):
                continue
            fi = repo.modules[m].funcs.get(f"{c}.{b.name}")
            decs = fi.decorators if fi is not None else []
            if "cached_property" in decs:
                chk.violation("serialised-record-state", fi.site(b), f"`{c}.{b.name}` is a cached_property of a record that is written out attribute by attribute ({via}): the first read stores `{b.name}` in the object's __dict__, so the serialised text of the same object gains a field - the output depends on what was asked before, not on the input. Use a plain property (or exclude the cache from the record)", key=f"{m}:{c}.{b.name}:cached-on-serialised")
                continue
            if b.name in ("__init__", "__post_init__", "__setstate__"):
                continue
            for x in ast.walk(b):
                tgt = None
                if isinstance(x, (ast.Assign, ast.AugAssign, ast.AnnAssign)):
                    for t in (x.targets if isinstance(x, ast.Assign) else [x.target]):
                        if isinstance(t, ast.Attribute) and isinstance(t.value, ast.Name) and t.value.id == "self" and t.attr not in fields:
                            tgt = t.attr
                        if isinstance(t, ast.Subscript) and norm(t.value) == "self.__dict__":
                            tgt = norm(t.slice)
                elif isinstance(x, ast.Call) and norm(x.func) == "object.__setattr__" and len(x.args) >= 2 and norm(x.args[0]) == "self" and not (isinstance(x.args[1], ast.Constant) and x.args[1].value in fields):
                    tgt = norm(x.args[1])
                if tgt is not None and fi is not None:
                    chk.violation("serialised-record-state", fi.site(x), f"`{c}.{b.name}` stores `{tgt}`, which is not a declared field, on a record that is written out attribute by attribute ({via}): the serialised text of the object changes after this call", key=f"{m}:{c}.{b.name}:lazy-attr:{tgt}")
    if roots:
        chk.ok("serialised-record-state", "package", f"{len(roots)} serialisation calls (orjson / json dumps); {n_cls} record classes reachable from what they write: none has a cached_property or stores an undeclared attribute outside its constructor")
    else:
        chk.ok("serialised-record-state", "package", "no orjson / json dumps call of a record in the package")


def run(chk) -> None:
    chk.explanation = (
        "Iteration-order taint analysis over every function of the package: light type inference (annotations, constructors, adds, "
        "comprehensions, modelled externals such as KDTree.query_pairs) gives the element type of every set-typed value; each construct that turns a "
        "set into a sequence (for, comprehension, list/tuple/next/enumerate/zip/join/itertools.*, keyed sorted/min/max, pop) is a source; it is accepted only "
        "if the element type is hash-stable (ints/floats/tuples of such); str, Enum, str-hashed or identity-hashed objects and unknown types are reported. "
        "Module-level constants are typed from their defining expression in their own module (frozenset('ACGU'), set algebra with a table), names bound by := and names reused for values of "
        "different types are read through their reaching definitions, helpers nested in a function belong to it. One named exception with checked side conditions (spec/exceptions.json): the sort key "
        "must contain both residues, and the order of the key components must be consistent with their equality - where it is not (Residue.__lt__ vs __eq__) the exception holds only under the input "
        "assumption recorded there. Repeated calls: no method of the structure classes and no property anywhere in the package writes to state reachable from its receiver (effects engine), no "
        "function mutates a module-level container; no memoised function (lru_cache / cache) reads the file system, the environment or the clock - its key would name the source, not the content. "
        "Run-dependent names: the name of a temporary file (tempfile.*) is followed through assignments, string operations, returns and arguments across the package; it may address the file, "
        "it must not be stored, formatted into a result or written."
    )
    chk.trusted = ["CPython: set iteration order is a function of the hashes and the insertion history", "scipy/pulp/pandas/mmcif internals are deterministic", "dict and OrderedSet preserve insertion order"]
    chk.assumptions = ["int/float/tuple-of-int hashes do not depend on PYTHONHASHSEED"]
    chk.robust |= {"order-taint", "nondeterministic-value", "receiver-write", "cache-introspection", "shared-state", "query-write", "run-dependent-name", "memo-external-state", "borrowed-array-write", "serialised-record-state"}
    n = analyse(chk, chk.repo, None, "package")
    # repeated calls: no query changes the object it is asked on, none looks at the cache, no module-level container is consumed
    from checks import c12

    c12.check_effects(chk)
    query_effects(chk)
    shared_state(chk)
    run_values(chk)
    memo_external(chk)
    borrowed_arrays(chk)
    try:
        serialised_records(chk)
    except Exception as ex:
        chk.error("serialised-record-state", "package", f"analysis failed: {type(ex).__name__}: {str(ex)[:120]}")
    if n < 8:
        chk.error("order-taint", "-", f"only {n} set-typed iteration sites recognised (9 confirmed on the pinned tree): the type inference lost track of the sets")


def run_thorough(chk) -> None:
    fx = os.path.join(VERIF, "fixtures", "c14")
    frepo = Repo(fx)
    ty = Types(frepo)
    for fi in frepo.module("taint").funcs.values():
        srcs, _ = find_sources(ty, fi)
        bad = [s for s in srcs if s.stable is not True]
        if fi.node.name.startswith("bad_"):
            if bad:
                chk.ok("fixture-control", f"fixtures/c14 {fi.qualname}", "firing example reported")
            else:
                chk.error("fixture-control", f"fixtures/c14 {fi.qualname}", "firing example NOT reported")
        elif fi.node.name.startswith("ok_"):
            if bad:
                chk.error("fixture-control", f"fixtures/c14 {fi.qualname}", f"silent twin reported: {bad[0].how}")
            else:
                chk.ok("fixture-control", f"fixtures/c14 {fi.qualname}", "silent twin not reported")


MANIFEST_ENTRY = {
    "text": "Whole-package iteration-order taint analysis on the current source: every place where a set becomes a sequence is found and the element type of the set "
    "is inferred; only hash-stable element types are accepted, unknown types fail closed. Hash-seed dependence needs two interpreters to observe; the analysis "
    "instead rules out its only source in this code base (iteration of str/object sets) on every path. Also: no id()/hash()/random/time values. Since rounds 3-7 also: the sorted value of the one named exception must reach no output (containment analysis), state of a module or class written in a handler (shared-state), memo keys that name a file not its content, run-dependent names used as data, in-place numpy writes through a borrowed array (package-wide alias analysis), sorted/min/max without a key over a set whose elements have a non-total order, and record classes that reach a JSON serialiser must not grow attributes after construction.",
    "note": "Trusted: determinism of scipy/pulp/pandas/mmcif internals; CPython set iteration being a function of hashes and insertion history. One named exception with a checked side condition (sorted with a non-injective key in the conflict resolution).",
    "technique": "static analysis: light type inference + iteration-order taint (unordered source -> sequence) over the ast of all modules + containment, alias and process-state analyses (shared state, memo keys, run-dependent values, borrowed arrays, serialised records)",
}
