"""C11 - fact-level rules (evidence rules) for the parts of C11 that used to read a pinned statement form.

  bph/br branches   decided on the symbolic paths of the pair loop of find_pairs (checks/c03e.py, role symbols):
                    a contact is *entered* as base-phosphate iff one of its atoms is a phosphate acceptor and both atoms are
                    unused; as base-ribose iff that does not hold, one atom is a ribose acceptor and both atoms are unused.
                    Every entered contact ends the iteration without becoming a hydrogen bond; it is recorded iff
                    detect_bph_br_classification(donor residue, donor atom, acceptor atom) is not None - with the donor side
                    chosen by the stored type - as (donor residue, acceptor residue, class) in the list of its own kind,
                    and both atoms are marked used.  Nothing else is recorded in these lists.  One copy of the block per
                    kind, one shared copy selected by a flag / an alias of the list / a loop over a literal table of
                    (kind, acceptor list, target list) with `break`: the same facts.
  class table       detect_bph_br_classification executed symbolically for every (base letter, donor atom name): constant
                    look-ups (`TABLE.get(base, {}).get(name)`), comparisons with letters and names and tuple unpacking are
                    folded, data-dependent tests (atom present, torsion) fork; the set of classes that can be returned is
                    compared with the pinned Zirbel table.  The torsion split is read from the paths that return each class.
  Saenger look-up   detect_saenger executed symbolically: a class is returned only as Saenger[T[key]] with
                    key = (letter of residue_i + letter of residue_j, lw.value) on a path where the key was found present
                    (`key in T` or `T.get(key) is not None`), None otherwise.
  result order      find_pairs returns (list of BasePair, list of BasePhosphate, list of BaseRibose): read from what is
                    constructed into each returned list.
  ordering keys     Residue3D.__lt__ and its twin Residue.__lt__ compare the same fields in the same order (sibling
                    agreement), each key component being the field itself (or `field or <default>`).
"""
from __future__ import annotations

import ast
import copy
from typing import Any, Dict, List, Optional, Sequence, Set, Tuple

from checks import c03e
from checks.c03e import K, NotReadable, idioms, str_parts
from sa import astq
from sa import symexec as SX
from sa.consteval import Folder
from sa.model import FuncInfo, norm

AN, CM, T3 = "annotator", "common", "tertiary"

KINDS = (("base-phosphate", "PHOSPHATE_ACCEPTORS", "bph"), ("base-ribose", "RIBOSE_ACCEPTORS", "br"))


def _name_in(p: SX.Path, lst: str) -> Optional[bool]:
    """True: one of the two atoms was found in the acceptor list; False: both were found absent; None: not decided."""
    vals = [p.value_of(f"atom_{s}.name in {lst}") for s in c03e.SIDES]
    if True in vals:
        return True
    if vals == [False, False]:
        return False
    return None


def _unused(p: SX.Path) -> Optional[bool]:
    vals = [p.value_of(f"atom_{s} in used_atoms") for s in c03e.SIDES]
    if True in vals:
        return False
    if vals == [False, False]:
        return True
    return None


def _class_cond(p: SX.Path) -> Optional[Tuple[str, bool, ast.AST]]:
    for k, v, n in p.conds:
        if k.startswith("detect_bph_br_classification(") and k.endswith(" is None"):
            return k, v, n
    return None


def _donor_side(p: SX.Path) -> Optional[str]:
    for k, v, _ in p.conds:
        if k == "type_i == 'donor'" or k == "type_j == 'acceptor'":
            return "i" if v else "j"
        if k == "type_j == 'donor'" or k == "type_i == 'acceptor'":
            return "j" if v else "i"
    return None


def check_bph_branches(chk, fi: FuncInfo, m: c03e.PairsModel) -> None:
    if m.bph is None or m.br is None or m.hb is None:
        raise NotReadable("base-phosphate / base-ribose lists not identified")
    used = sorted({e.recv for p in m.paths for e in p.effects if e.kind == "call" and e.method in ("add", "update") and e.recv in m.sites.nonnull})
    if used != ["used_atoms"]:
        # the set of consumed atoms under another name: the rules below read `used_atoms`
        raise NotReadable(f"set of used atoms not identified ({used})")
    for name, lst, tag in KINDS:
        store = m.bph if tag == "bph" else m.br
        other = m.br if tag == "bph" else m.bph
        recs = [(p, e) for p in m.paths for e in p.effects if e.recv == store and e.method == "append"]
        if not recs:
            chk.violation("bph-branch", fi.site(m.sites.loop), f"{name} branch not found in the contact loop: no path records a {name} contact", K(fi, f"{name}-branch"))
            continue

        def entered(p: SX.Path) -> bool:
            if tag == "bph":
                return _name_in(p, lst) is True and _unused(p) is True
            # base-ribose comes second: the contact must have been found *not* to involve a phosphate acceptor
            return _name_in(p, lst) is True and _unused(p) is True and _name_in(p, "PHOSPHATE_ACCEPTORS") is False

        n_entered = 0
        falls: List[SX.Path] = []
        unclassified: List[SX.Path] = []
        lost: List[SX.Path] = []
        for p in m.paths:
            if p.exit == "raise" or not entered(p):
                continue
            n_entered += 1
            hb = [e for e in p.effects if e.recv == m.hb and e.method == "append"]
            if p.exit != "continue" or hb:
                falls.append(p)
                continue
            cc = _class_cond(p)
            mine = [e for e in p.effects if e.recv == store and e.method == "append"]
            if cc is None:
                unclassified.append(p)
            elif cc[1] is False and len(mine) != 1:
                lost.append(p)
        stray = [(p, e) for p, e in recs if not entered(p)]
        want_test = f"(atom_i.name in {lst} or atom_j.name in {lst}) and atom_i not in used_atoms and atom_j not in used_atoms" + (" (and no phosphate acceptor involved)" if tag == "br" else "")
        if stray:
            p, e = stray[0]
            chk.violation("bph-branch", fi.site(e.node), f"{name} branch condition changed: a contact is recorded as {name} on a path that has not established `{want_test}` (decisions: {[d for d in p.describe() if 'label' not in d[0] and 'auth' not in d[0]][:6]})", K(fi, f"{name}-test"), expected=want_test)
        else:
            chk.ok("bph-branch", fi.site(recs[0][1].node), f"{name}: recorded only when one of the two atoms is a {lst[:-1].lower().replace('_', ' ')} and neither atom is used yet ({len(recs)} recording paths)")
        if falls:
            chk.violation("bph-branch", fi.site(recs[0][1].node), f"{name} branch does not end the iteration: the contact also counts as a base-base hydrogen bond (a path with {want_test} ends in `{falls[0].exit}`)", K(fi, f"{name}-continue"))
        else:
            chk.ok("bph-branch", fi.site(recs[0][1].node), f"the branch consumes the contact: all {n_entered} paths that enter it end the iteration without recording a hydrogen bond")
        if unclassified:
            chk.error("bph-roles", fi.site(recs[0][1].node), f"{name}: a path enters the branch without testing detect_bph_br_classification(...) against None")
        # roles and record
        bad_roles = {}
        bad_record = {}
        for p, e in recs:
            d = _donor_side(p)
            cc = _class_cond(p)
            if d is None or cc is None:
                bad_roles["typing"] = f"recorded without deciding the donor side by the stored type (decisions: {p.describe()[-4:]})"
                continue
            a = "j" if d == "i" else "i"
            call = cc[2].left if isinstance(cc[2], ast.Compare) else None
            want_call = f"detect_bph_br_classification(residue_{d}, atom_{d}, atom_{a})"
            if call is None or norm(call) != want_call or cc[1] is not False:
                bad_roles[f"atom_{d} is the donor"] = {"classified": norm(call) if call is not None else None, "class found": not cc[1]}
                continue
            rec = e.args[0] if e.args else None
            want_rec = f"(residue_{d}, residue_{a}, {want_call})"
            if rec is None or norm(rec) != want_rec:
                bad_roles[f"atom_{d} is the donor "] = {"pair": norm(rec) if rec is not None else None}
                continue
            marks = []
            for u in p.effects:
                if u.recv == "used_atoms" and u.kind == "call":
                    if u.method == "add" and u.args:
                        marks.append(norm(u.args[0]))
                    elif u.method == "update" and u.args and isinstance(u.args[0], (ast.Tuple, ast.List, ast.Set)):
                        marks += [norm(x) for x in u.args[0].elts]
                    else:
                        marks.append("?")
            if sorted(set(marks)) != ["atom_i", "atom_j"]:
                bad_record[f"atom_{d} is the donor"] = marks
        chk.expect(not bad_roles, "bph-roles", fi.site(recs[0][1].node), f"{name}: the class is computed from (donor residue, donor atom, acceptor atom) and the pair is (donor residue, acceptor residue), for both typings of the contact", f"{name}: donor/acceptor roles are wrong: {bad_roles}", K(fi, f"{name}-roles"), found={k: str(v) for k, v in bad_roles.items()})
        ok_rec = not bad_record and not lost and not bad_roles
        chk.expect(ok_rec or bool(bad_roles), "bph-record", fi.site(recs[0][1].node), "a classified contact is recorded as (donor residue, acceptor residue, class) and both atoms are marked used", f"{name}: a classified contact is not recorded as (donor_residue, acceptor_residue, class) with both atoms marked used" + (f" (marked: {bad_record})" if bad_record else " (a path with a class found records nothing)"), K(fi, f"{name}-record"))


# ---------------------------------------------------------------------------------------------------------------------
# detect_bph_br_classification
# ---------------------------------------------------------------------------------------------------------------------
class _Bind(ast.NodeTransformer):
    """<residue>.one_letter_name -> base letter, <donor>.name -> atom name"""

    def __init__(self, res: str, donor: str, b: str, d: str):
        self.res, self.donor, self.b, self.d = res, donor, b, d

    def visit_Attribute(self, n: ast.Attribute):
        if isinstance(n.value, ast.Name) and isinstance(n.ctx, ast.Load):
            if n.value.id == self.res and n.attr == "one_letter_name":
                return ast.Constant(value=self.b)
            if n.value.id == self.donor and n.attr == "name":
                return ast.Constant(value=self.d)
        self.generic_visit(n)
        return n


def _to_ast(v: Any) -> Optional[ast.expr]:
    if v is None or isinstance(v, (bool, int, float, str)):
        return ast.Constant(value=v)
    if isinstance(v, (tuple, list)):
        elts = [_to_ast(x) for x in v]
        if any(e is None for e in elts):
            return None
        return ast.Tuple(elts=elts, ctx=ast.Load()) if isinstance(v, tuple) else ast.List(elts=elts, ctx=ast.Load())
    return None


def class_paths(chk, fi: FuncInfo, b: str, d: str) -> List[SX.Path]:
    """Paths of the classifier for one (base letter, donor atom name); everything constant is folded."""
    repo = chk.repo
    params = [a.arg for a in fi.node.args.args]
    if len(params) != 3:
        raise NotReadable("detect_bph_br_classification does not take (donor residue, donor atom, acceptor atom)")
    binder = _Bind(params[0], params[1], b, d)
    folder = Folder(repo, fi.module.name)

    def rewrite(e: ast.expr) -> ast.expr:
        e = binder.visit(e)

        class F(ast.NodeTransformer):
            def generic_visit(self, n):
                super().generic_visit(n)
                if isinstance(n, (ast.Call, ast.Subscript, ast.Compare, ast.BinOp, ast.BoolOp, ast.IfExp)) and not any(isinstance(x, ast.Name) and x.id in params for x in ast.walk(n)) and not any(SX.is_elem(x) is not None or SX.is_opaque(x) for x in ast.walk(n)):
                    try:
                        v = folder.fold(ast.fix_missing_locations(copy.deepcopy(n)))
                    except Exception:
                        return n
                    r = _to_ast(v)
                    if r is not None:
                        return ast.copy_location(r, n)
                return n

        return F().visit(e)

    return SX.Executor(rewrite=rewrite).run(fi.node.body)


def classification_table(chk, fi: FuncInfo) -> Tuple[Dict[str, Dict[str, Set[Any]]], Dict[Tuple[str, str], List[SX.Path]]]:
    repo = chk.repo
    donors = Folder(repo, T3).fold(repo.const_expr(T3, "BASE_DONORS"))
    out: Dict[str, Dict[str, Set[Any]]] = {}
    allp: Dict[Tuple[str, str], List[SX.Path]] = {}
    for b in "ACGUT":
        out[b] = {}
        for d in donors.get(b, []):
            acc: Set[Any] = set()
            ps = class_paths(chk, fi, b, d)
            allp[(b, d)] = ps
            for p in ps:
                if p.exit == "raise":
                    continue
                if p.exit == "fall" or p.ret is None:
                    acc.add(None)
                elif isinstance(p.ret, ast.Constant):
                    acc.add(p.ret.value)
                else:
                    acc.add("?")
            out[b][d] = acc
    return out, allp


def check_bph_table(chk, fi: FuncInfo, sp: Dict[str, Any], fold) -> None:
    from sa import intervals

    try:
        table, allp = classification_table(chk, fi)
    except SX.TooManyPaths as ex:
        raise NotReadable(str(ex))
    chk.robust |= {"bph-class-table", "bph-split", "bph-split-atoms"}  # evaluated on the current code, whatever its shape
    for b, row in table.items():
        for d, got in row.items():
            if d == "O2'":
                chk.expect(got == {None}, "bph-class-table", fi.where, f"{b}:{d} (ribose hydroxyl) has no class", f"{b}:{d} unexpectedly classified {sorted(map(str, got))}", K(fi, f"class:{b}:{d}"), found=sorted(map(str, got)))
                continue
            want = set(sp["classes"].get(b, {}).get(d, []))
            conditional = len(want) > 1
            ok = (got - {None}) == want and (conditional or None not in got)
            chk.expect(
                ok,
                "bph-class-table",
                fi.where,
                f"{b}:{d} -> {sorted(want)}",
                f"donor {d} of {b} is classified {sorted(map(str, got))}, the Zirbel et al. table says {sorted(want)}" + ("" if want else " (no class: the contact would be dropped or mis-filed)"),
                K(fi, f"class:{b}:{d}"),
                expected=sorted(want),
                found=sorted(map(str, got)),
            )
    # torsion splits: for every donor with two classes, the lower-numbered... the class returned when |torsion| < 90
    params = [a.arg for a in fi.node.args.args]

    def is_torsion(n: ast.AST) -> bool:
        return any(isinstance(x, ast.Call) and astq.callee_name(x) == "torsion_angle" for x in ast.walk(n))

    n_split = 0
    for (b, d), ps in sorted(allp.items()):
        want = sp["classes"].get(b, {}).get(d, [])
        if len(want) != 2:
            if any(is_torsion(n) for p in ps for k, v, n in p.conds):
                chk.violation("bph-split", fi.where, f"{b}:{d} has one class in the Zirbel table but its classification depends on a torsion angle", K(fi, f"split:{b}:{d}"))
            continue
        by_ret: Dict[Any, List[SX.Path]] = {}
        for p in ps:
            if p.exit == "return" and isinstance(p.ret, ast.Constant) and p.ret.value is not None:
                by_ret.setdefault(p.ret.value, []).append(p)
        if set(by_ret) != set(want):
            continue  # reported by the class table
        n_split += 1
        # the class returned when the torsion lies within (-90, 90): read it off the paths, then require a clean split at +-90
        alts = {}
        calls = {}
        for cls, pp in by_ret.items():
            for p in pp:
                cs = [(k, v, n) for k, v, n in p.conds if is_torsion(n)]
                alts.setdefault(cls, {})[norm(c03e._conj(cs))] = c03e._conj(cs)
                for k, v, n in cs:
                    for x in ast.walk(n):
                        if isinstance(x, ast.Call) and astq.callee_name(x) == "torsion_angle":
                            calls[norm(x)] = x
        if len(calls) != 1:
            chk.error("bph-split", fi.where, f"{b}:{d}: class split does not depend on one torsion_angle(...) ({sorted(calls)})")
            continue
        call = next(iter(calls.values()))
        lo_cls = None
        try:
            regs = {}
            for cls in by_ret:
                test = ast.fix_missing_locations(c03e._disj(list(alts[cls].values())))
                regs[cls] = intervals.region(test, [((lambda n: isinstance(n, ast.Call) and astq.callee_name(n) == "torsion_angle"), "rad")], fold, extra_thresholds=(-90.0, 90.0, -180.0, 180.0))
            inner = [cls for cls, reg in regs.items() if all(v == (-90 < k[0] < 90) for k, v in reg.items() if -180 <= k[0] <= 180)]
            outer = [cls for cls, reg in regs.items() if all(v == (not -90 < k[0] < 90) for k, v in reg.items() if -180 <= k[0] <= 180)]
            ok = len(inner) == 1 and len(outer) == 1 and inner != outer
            shown = {str(cls): [k[0] for k, v in reg.items() if v and -180 <= k[0] <= 180] for cls, reg in regs.items()}
            chk.expect(ok, "bph-split", fi.where, f"{b}:{d}: the two classes {sorted(by_ret)} are split at a torsion of +-90 degrees (class {inner[0] if inner else '?'} inside)", f"{b}:{d}: class split is not |torsion| < 90 degrees (after unit conversion); sample torsions per class: {shown}", K(fi, f"split:{b}:{d}"), found=shown)
            if ok:
                lo_cls = inner[0]
                # which of the two classes is the cis one is data of the Zirbel table: the smaller number for A:N6 / C:N4 / G:N2
                chk.expect(lo_cls == want[0], "bph-split", fi.where, f"{b}:{d}: class {lo_cls} for the cis hydrogen", f"{b}:{d}: the classes of the two amino hydrogens are exchanged (class {lo_cls} returned for |torsion| < 90, the table gives {want[0]})", K(fi, f"split-order:{b}:{d}"))
        except intervals.NotThreshold as ex:
            chk.error("bph-split", fi.where, f"{b}:{d}: {ex}")
        args = [norm(a) for a in call.args]
        ring = sp.get("torsion_atoms", {}).get(f"{b}:{d}")
        want_args = ([f"{params[0]}.find_atom({x!r})" for x in ring] if ring else args[:2]) + [params[1], params[2]]
        chk.expect(len(args) == 4 and args == want_args, "bph-split-atoms", fi.where, f"{b}:{d}: torsion runs {' - '.join(ring) if ring else '...'} - donor - acceptor", f"{b}:{d}: torsion atoms {args} are not ({', '.join(ring) if ring else '...'}, donor, acceptor)", K(fi, f"split-atoms:{b}:{d}"), expected=want_args, found=args)
    chk.expect(n_split == 3, "bph-split", fi.where, "three donors (A:N6, G:N2, C:N4) have a torsion split", f"{n_split} torsion splits, expected 3", K(fi, "split-count"))


# ---------------------------------------------------------------------------------------------------------------------
# detect_saenger
# ---------------------------------------------------------------------------------------------------------------------
def check_saenger_lookup(chk, ds: FuncInfo) -> None:
    params = [a.arg for a in ds.node.args.args]
    if len(params) != 3:
        raise NotReadable("detect_saenger does not take (residue, residue, lw)")
    ri, rj, lw = params
    paths = SX.Executor(rewrite=idioms).run(ds.node.body)

    def key_of(e: ast.expr) -> Optional[str]:
        """'ij' / 'ji' when e is (letter of one residue + letter of the other, lw.value)"""
        if isinstance(e, ast.Tuple) and len(e.elts) == 2 and norm(e.elts[1]) == f"{lw}.value":
            parts = str_parts(e.elts[0])
            if parts == [f"{ri}.one_letter_name", f"{rj}.one_letter_name"]:
                return "ij"
            if parts == [f"{rj}.one_letter_name", f"{ri}.one_letter_name"]:
                return "ji"
        return None

    def table_get(e: ast.expr) -> Optional[Tuple[str, ast.expr]]:
        """('sub' | 'get', key) when e is Saenger.table()[key] / Saenger.table().get(key)"""
        b = astq.match(e, "Saenger.table()[X_]")
        if b:
            return "sub", b["X_"]
        b = astq.match(e, "Saenger.table().get(X_)")
        if b:
            return "get", b["X_"]
        return None

    hits = 0
    none_ret = False
    problems: List[Tuple[str, ast.AST, str]] = []
    for p in paths:
        if p.exit == "raise":
            continue
        if p.exit == "fall" or p.ret is None or (isinstance(p.ret, ast.Constant) and p.ret.value is None):
            none_ret = True
            continue
        b = astq.match(p.ret, "Saenger[X_]")
        tg = table_get(b["X_"]) if b else None
        if tg is None:
            problems.append(("error", ds.node, f"return value `{norm(p.ret)[:80]}` not recognised"))
            continue
        how, key = tg
        ko = key_of(key)
        if ko is None:
            problems.append(("error", ds.node, f"Saenger key `{norm(key)[:80]}` not recognised"))
            continue
        if ko == "ji":
            problems.append(("violation", ds.node, "the Saenger key takes the bases in the order (j, i) while the class lw is read from i to j"))
            continue
        k_txt = norm(key)
        present = p.value_of(f"{k_txt} in Saenger.table()") is True or p.value_of(f"Saenger.table().get({k_txt}) is None") is False or p.value_of(f"{k_txt} in Saenger.table().keys()") is True
        if present:
            hits += 1
        else:
            problems.append(("violation", ds.node, "the Saenger table is subscripted without testing that the key is present: KeyError for pairs that have no Saenger class"))
    seen = set()
    for kind, node, msg in problems:
        if msg in seen:
            continue
        seen.add(msg)
        if kind == "error":
            chk.error("saenger-lookup", ds.where, msg)
        else:
            chk.violation("saenger-lookup", ds.where, msg, K(ds, "lookup"))
    if not problems:
        chk.expect(hits >= 1 and none_ret, "saenger-lookup", ds.where, "Saenger class = table[(bases in pair order, lw name)] when present, else None", "detect_saenger does not look up (base_i + base_j, lw.value) in Saenger.table() and return None otherwise", K(ds, "lookup"))


# ---------------------------------------------------------------------------------------------------------------------
# result order of find_pairs
# ---------------------------------------------------------------------------------------------------------------------
def built_from(fn: ast.AST, name: str) -> Set[str]:
    """Constructors whose results are collected in list `name` (comprehension or append)."""
    out: Set[str] = set()
    for n in ast.walk(fn):
        if isinstance(n, (ast.Assign, ast.AnnAssign)):
            t = n.targets[0] if isinstance(n, ast.Assign) else n.target
            if isinstance(t, ast.Name) and t.id == name and isinstance(n.value, (ast.ListComp,)) and isinstance(n.value.elt, ast.Call):
                out.add(astq.callee_name(n.value.elt) or "?")
        elif isinstance(n, ast.Call) and isinstance(n.func, ast.Attribute) and n.func.attr == "append" and isinstance(n.func.value, ast.Name) and n.func.value.id == name and n.args:
            out.add(astq.callee_name(n.args[0]) if isinstance(n.args[0], ast.Call) else "?")
    return out


def check_result_order(chk, fi: FuncInfo) -> None:
    fi = c03e.normalised(fi)
    rets = [r for r in fi.node.body if isinstance(r, ast.Return)]
    if len(rets) != 1 or not isinstance(rets[0].value, ast.Tuple) or len(rets[0].value.elts) != 3:
        chk.violation("result-order", fi.where, "find_pairs does not end in `return <base pairs>, <base phosphates>, <base riboses>`", K(fi, "result"))
        return
    got = []
    for e in rets[0].value.elts:
        if isinstance(e, ast.Name):
            got.append(sorted(built_from(fi.node, e.id)))
        elif isinstance(e, ast.ListComp) and isinstance(e.elt, ast.Call):
            got.append([astq.callee_name(e.elt)])
        else:
            got.append(["?"])
    chk.expect(got == [["BasePair"], ["BasePhosphate"], ["BaseRibose"]], "result-order", fi.site(rets[0]), "returns (list of BasePair, list of BasePhosphate, list of BaseRibose)", f"find_pairs returns lists built from {got}, not (BasePair, BasePhosphate, BaseRibose) in this order", K(fi, "result"), found=got)


# ---------------------------------------------------------------------------------------------------------------------
# ordering keys of Residue / Residue3D (sibling agreement)
# ---------------------------------------------------------------------------------------------------------------------
def order_keys(fi: FuncInfo) -> Optional[List[Tuple[List[Tuple[str, bool]], List[str]]]]:
    """For every path of an ordering method: (decisions of the path, key components with self.<f> / other.<f> written as X.<f>)
    of its `return key(self) < key(other)` (or the mirrored `key(other) > key(self)`); a bare `a < b` is a key of one component.
    None when a path returns something else."""
    params = [a.arg for a in fi.node.args.args]
    if len(params) != 2:
        return None
    me, other = params
    try:
        paths = SX.run(fi.node.body)
    except SX.TooManyPaths:
        return None
    out = []
    for p in paths:
        if p.exit == "raise":
            continue
        v = p.ret if p.exit == "return" else None
        if isinstance(v, ast.Name) and v.id == "NotImplemented":
            continue
        if not (isinstance(v, ast.Compare) and len(v.ops) == 1 and isinstance(v.ops[0], (ast.Lt, ast.Gt))):
            return None
        mine, theirs = (v.left, v.comparators[0]) if isinstance(v.ops[0], ast.Lt) else (v.comparators[0], v.left)
        ma = list(mine.elts) if isinstance(mine, ast.Tuple) else [mine]
        ta = list(theirs.elts) if isinstance(theirs, ast.Tuple) else [theirs]
        if len(ma) != len(ta):
            return None
        key = []
        for a, b in zip(ma, ta):
            xa = norm(c03e._rename(a, me, "X"))
            xb = norm(c03e._rename(b, other, "X"))
            if xa != xb:
                return None
            key.append(xa)
        out.append((p.describe(), key))
    return out or None


def order_key(fi: FuncInfo) -> Optional[List[str]]:
    ks = order_keys(fi)
    if ks is None or len({tuple(k) for _, k in ks}) != 1:
        return None
    return ks[0][1]


def check_order_keys(chk, rule: str = "order-keys") -> None:
    """`residue_i < residue_j` (Residue3D.__lt__) orients and sorts what is emitted as Residue objects (Residue.__lt__ sorts
    them again wherever a consumer sorts the lists): the two must be the same order on (chain, number, icode)."""
    repo = chk.repo
    f3 = repo.func(T3, "Residue3D.__lt__")
    f2 = repo.func(CM, "Residue.__lt__")
    chk.note_function(f3)
    chk.note_function(f2)
    ks3, ks2 = order_keys(f3), order_keys(f2)
    if ks3 is None or ks2 is None:
        chk.error(rule, (f3 if ks3 is None else f2).where, "ordering is not `return (key of self) < (same key of other)` on every path")
        return
    for who, f, ks in (("Residue3D", f3, ks3), ("Residue", f2, ks2)):
        distinct = sorted({tuple(k) for _, k in ks})
        if len(distinct) > 1:
            # one method, several orders: which one applies depends on the data of the two objects (e.g. whether both carry label ids)
            main = [list(k) for k in distinct if [x.replace("X.", "").split(" or ")[0] for x in k][-3:] == ["chain", "number", "icode"]]
            odd = next((list(k) for k in distinct if list(k) not in main), list(distinct[0]))
            when = next((d for d, k in ks if k == odd), [])
            chk.violation(rule, f.where, f"{who}.__lt__ compares {[t.replace('X.', '') for t in odd]} on one path (decisions {when[:3]}) and {[t.replace('X.', '') for t in (main[0] if main else distinct[-1])]} on another: residues are ordered by two different keys depending on their data, while the twin class orders by (chain, number, insertion code) only - orientation (`lower residue first`), sorting and the emitted Residue objects no longer agree", K(f, "order-paths"), expected=["chain", "number", "icode"], found=[list(k) for k in distinct])
            return
    k3, k2 = ks3[0][1], ks2[0][1]

    def field_of(t: str) -> Optional[str]:
        """the identity field a key component stands for: X.f  or  X.f or <constant>"""
        try:
            e = ast.parse(t, mode="eval").body
        except SyntaxError:
            return None
        if isinstance(e, ast.BoolOp) and isinstance(e.op, ast.Or) and len(e.values) == 2 and isinstance(e.values[1], ast.Constant):
            e = e.values[0]
        if isinstance(e, ast.Attribute) and isinstance(e.value, ast.Name) and e.value.id == "X":
            return e.attr
        return None

    derived3 = [t for t in k3 if field_of(t) is None]
    derived2 = [t for t in k2 if field_of(t) is None]
    tail3 = [t for t in k3 if field_of(t) != "model"]
    if derived3 or derived2:
        who, t = ("Residue3D", derived3[0]) if derived3 else ("Residue", derived2[0])
        chk.violation(rule, (f3 if derived3 else f2).where, f"{who}.__lt__ orders by `{t.replace('X.', 'self.')}`, a value derived from an identity field instead of the field itself: the order is no longer the lexicographic order of (chain, number, insertion code), so `lower residue first` and the final sort follow another order than the residues' own (and an order-preserving renaming of chains can change it)", K(f3 if derived3 else f2, "order-derived"), expected=["chain", "number", "icode"], found=k3 if derived3 else k2)
        return
    chk.expect(
        tail3 == k2,
        rule,
        f3.where,
        f"Residue3D.__lt__ and Residue.__lt__ compare the same key {[t.replace('X.', '') for t in k2]} (Residue3D puts the model in front): orientation, sorting and the emitted Residue objects agree",
        f"Residue3D.__lt__ orders by {[t.replace('X.', '') for t in k3]} while its twin Residue.__lt__ orders by {[t.replace('X.', '') for t in k2]}: interactions are oriented and sorted by one order and carry residues that compare by another",
        K(f3, "order-siblings"),
        expected=[t.replace("X.", "") for t in k2],
        found=[t.replace("X.", "") for t in tail3],
    )
    fields = [field_of(t) for t in k2]
    chk.expect(fields == ["chain", "number", "icode"], rule, f2.where, "residues are ordered by (chain, number, insertion code)", f"Residue.__lt__ orders by {fields}, not by (chain, number, icode)", K(f2, "order-fields"), found=fields)


# ---------------------------------------------------------------------------------------------------------------------
# emission of BasePhosphate / BaseRibose objects
# ---------------------------------------------------------------------------------------------------------------------
def with_local_helpers_inlined(fi: FuncInfo) -> FuncInfo:
    return c03e.normalised(fi)


def _with_local_helpers_inlined_old(fi: FuncInfo) -> FuncInfo:
    """A copy of the function in which calls of its own nested single-purpose helpers (`def as_residue(r): return Residue(...)`)
    are replaced by their bodies, so that the emitted objects are read in the same form as before the extraction."""
    from sa.inline import inline_in_function

    helpers = {n.name: n for n in fi.node.body if isinstance(n, ast.FunctionDef) and not n.decorator_list}
    if not helpers:
        return fi
    node = copy.deepcopy(fi.node)
    helpers = {n.name: n for n in node.body if isinstance(n, ast.FunctionDef) and not n.decorator_list}
    try:
        inline_in_function(node, helpers, None, [])
    except Exception:
        return fi
    return FuncInfo(fi.module, fi.qualname, node, fi.cls)


def constructed(fi: FuncInfo, ctor: str) -> List[Tuple[ast.Call, ast.expr, ast.AST]]:
    """[(constructor call with its arguments written over the elements of the collection it is built from, that collection,
    site)] for every place that builds `ctor(...)` objects in a loop with one append or in a comprehension."""
    out = []
    for n in ast.walk(fi.node):
        if isinstance(n, ast.ListComp) and isinstance(n.elt, ast.Call) and astq.callee_name(n.elt) == ctor:
            st = SX._State()
            ex = SX.Executor()
            ok = True
            first_iter = None
            for k, g in enumerate(n.generators):
                if g.ifs:
                    ok = False
                it = ex.sub(g.iter, st)
                if first_iter is None:
                    first_iter = it
                ex._serial = k + 1
                ex._bind_loop_target(g.target, it, st)
            if ok:
                out.append((ex.sub(n.elt, st), first_iter, n))
        elif isinstance(n, ast.For) and any(isinstance(c, ast.Call) and astq.callee_name(c) == ctor for c in ast.walk(n)) and not any(n is not m and isinstance(m, ast.For) and any(x is n for x in ast.walk(m)) for m in ast.walk(fi.node)):
            ex = SX.Executor()
            st = SX._State()
            it = ex.sub(n.iter, st)
            ex._serial = 1
            ex._serials[id(n)] = 1
            ex._bind_loop_target(n.target, it, st)
            paths = ex.run(n.body, st.store)
            for p in paths:
                for e in p.effects:
                    if e.method == "append" and e.args and isinstance(e.args[0], ast.Call) and astq.callee_name(e.args[0]) == ctor and not e.guards and not p.conds:
                        out.append((e.args[0], it, e.node))
    return out


def check_bph_emission(chk, fi: FuncInfo, store: str, cls_name: str, en: str) -> None:
    """Every (pair, class) of merge_and_clean_bph_br(sorted(<store>)) becomes cls(Residue(donor), Residue(acceptor), en[_class]).
    Read over the elements of the collection the objects are built from; a shape that cannot be read is an analysis error."""
    fi2 = c03e.normalised(fi)
    cons = constructed(fi2, cls_name)
    if len(cons) != 1:
        chk.error("bph-emission", fi.where, f"{cls_name} objects are built at {len(cons)} readable place(s) (loop with one append / comprehension), expected one")
        return
    call, it, site = cons[0]
    # the collection: <M>.items() with M = merge_and_clean_bph_br(sorted(<store>)), directly or through a local bound once
    m_items = astq.match(it, "M_.items()")
    src = m_items["M_"] if m_items else None
    for _ in range(3):
        if isinstance(src, ast.Name):
            d = [v for s2, v in astq.assignments(fi2.node, src.id) if v is not None]
            src = d[0] if len(d) == 1 else None
    mm = astq.match(src, "merge_and_clean_bph_br(A_)") if src is not None else None
    if mm is None:
        chk.error("sorted-emission", fi.site(site), f"{cls_name} objects are built from `{norm(it)[:60]}`, which is not traced to merge_and_clean_bph_br(...).items()")
        return
    arg = norm(mm["A_"])
    if arg == f"sorted({store})":
        chk.ok("sorted-emission", fi.site(site), f"{cls_name}: built from merge_and_clean_bph_br(sorted({store})) - the sorted contact list")
    elif arg in (store, f"list({store})", f"reversed({store})", f"set({store})"):
        chk.violation("sorted-emission", fi.site(site), f"{cls_name} objects come from merge_and_clean_bph_br({arg}), not from the sorted contact list: output order follows KD-tree order", K(fi, f"{cls_name}-sorted"), found=arg)
    else:
        chk.error("sorted-emission", fi.site(site), f"{cls_name}: argument `{arg[:60]}` of merge_and_clean_bph_br not recognised (expected sorted({store}))")
    E = None
    for x in ast.walk(call):
        r = SX.is_elem(x)
        if r is not None and norm(r) == norm(it):
            E = norm(x)
            break
    got = [norm(a)[:80] for a in call.args]
    if E is None or len(call.args) != 3 or call.keywords:
        chk.error("bph-emission", fi.site(site), f"{cls_name}(...) arguments {got} not read over the elements of the collection")
        return
    a, b = f"{E}[0][0]", f"{E}[0][1]"
    want01 = [f"Residue({a}.label, {a}.auth)", f"Residue({b}.label, {b}.auth)"]
    m = astq.match(call.args[2], f"{en}[X_]")
    parts = str_parts(m["X_"]) if m else None
    cls_ok = False
    if parts is not None and len(parts) == 2 and parts[0] == "'_'":
        try:
            pe = SX.is_elem(ast.parse(parts[1], mode="eval").body)
            cls_ok = pe is not None and norm(pe) == f"{E}[1]"
        except SyntaxError:
            cls_ok = False
    ok = [norm(x) for x in call.args[:2]] == want01 and cls_ok
    chk.expect(ok, "bph-emission", fi.site(site), f"every (pair, class) becomes {cls_name}(Residue(donor), Residue(acceptor), {en}[_class]) (read over the elements of the merged map)", f"{cls_name} objects are not built as (Residue(donor), Residue(acceptor), {en}[f'_{{class}}']) from every (pair, class) of the merged map: arguments {got}", K(fi, f"{cls_name}-emission"), found=got)


# ---------------------------------------------------------------------------------------------------------------------
# sorted(<recorded tuples>, key=...) - the key must be the residues' own order
# ---------------------------------------------------------------------------------------------------------------------
def check_sort_key(chk, fi: FuncInfo, call: ast.Call, rule: str, what: str) -> Optional[bool]:
    """`sorted(X)` orders the recorded (residue, residue, ...) tuples by Residue3D.__lt__.  With `key=` the order is whatever the key
    says: it is the same order only if, residue by residue, the key holds the residue itself or every component Residue3D.__lt__
    compares, in its order.  Returns True (same order), False (reported), None (not readable: reported as analysis error)."""
    keys = [k for k in call.keywords if k.arg == "key"]
    if not keys:
        return True
    if any(k.arg == "reverse" for k in call.keywords):
        chk.error(rule, fi.site(call), f"{what}: sorted(..., reverse=...) not read")
        return None
    kf = keys[0].value
    body = None
    param = None
    if isinstance(kf, ast.Lambda) and len(kf.args.args) == 1:
        param, body = kf.args.args[0].arg, [ast.Return(value=kf.body)]
    elif isinstance(kf, ast.Name):
        defs = [n for n in ast.walk(fi.node) if isinstance(n, ast.FunctionDef) and n.name == kf.id]
        if not defs:
            try:  # a module-level function of the package
                hm, hn = chk.repo.const_home(fi.module.name, kf.id)
                g = chk.repo.modules[hm].funcs.get(hn)
                defs = [g.node] if g is not None and g.cls is None else []
            except Exception:
                defs = []
        if len(defs) == 1 and len(defs[0].args.args) == 1:
            param, body = defs[0].args.args[0].arg, [b for b in defs[0].body if not (isinstance(b, ast.Expr) and isinstance(b.value, ast.Constant))]
    if body is None:
        chk.error(rule, fi.site(call), f"{what}: sort key `{norm(kf)[:60]}` not readable")
        return None
    elem = ast.Tuple(elts=[ast.Name(id="R1", ctx=ast.Load()), ast.Name(id="R2", ctx=ast.Load()), ast.Name(id="REST", ctx=ast.Load())], ctx=ast.Load())
    try:
        paths = [p for p in SX.run(body, {param: elem}) if p.exit == "return"]
    except SX.TooManyPaths:
        paths = []
    if len(paths) != 1 or paths[0].conds:
        chk.error(rule, fi.site(call), f"{what}: sort key `{norm(kf)[:60]}` is not one expression of the recorded tuple")
        return None
    ret = paths[0].ret
    comps = list(ret.elts) if isinstance(ret, ast.Tuple) else [ret]
    f3 = chk.repo.func(T3, "Residue3D.__lt__")
    ks = order_keys(f3)
    if ks is None or len({tuple(k) for _, k in ks}) != 1:
        chk.error(rule, fi.site(call), "ordering key of Residue3D.__lt__ not readable")
        return None
    full = [t.replace("X.", "").split(" or ")[0] for t in ks[0][1]]
    seen: Dict[str, List[str]] = {"R1": [], "R2": []}
    order: List[str] = []
    for c in comps:
        t = norm(c)
        if t in ("R1", "R2"):
            seen[t] = list(full)
            order.append(t)
            continue
        if t == "REST":
            continue
        e = c.values[0] if isinstance(c, ast.BoolOp) and isinstance(c.op, ast.Or) and len(c.values) == 2 and isinstance(c.values[1], ast.Constant) else c
        if isinstance(e, ast.Attribute) and isinstance(e.value, ast.Name) and e.value.id in seen:
            seen[e.value.id].append(e.attr)
            order.append(e.value.id)
            continue
        chk.error(rule, fi.site(call), f"{what}: component `{t[:50]}` of the sort key not readable")
        return None
    grouped = [r for k, r in enumerate(order) if k == 0 or order[k - 1] != r]
    problems = []
    for r in ("R1", "R2"):
        miss = [f for f in full if f not in seen[r]]
        if miss:
            problems.append(f"the {'first' if r == 'R1' else 'second'} residue without {miss}")
        elif [f for f in seen[r] if f in full] != full:
            problems.append(f"the components of the {'first' if r == 'R1' else 'second'} residue in the order {seen[r]}")
    if grouped != ["R1", "R2"]:
        problems.append("the two residues interleaved or in the other order")
    if problems:
        chk.violation(rule, fi.site(call), f"{what} are sorted with the key `{norm(ret)[:90]}`: it holds {'; '.join(problems)}, while Residue3D.__lt__ - the order that `lower residue first` and every other sorted list use - compares {full}: residues that differ only in the omitted component tie and keep their KD-tree arrival order (or follow their partner), so the list is not in residue order", K(fi, "sort-key"), expected=full, found={k: v for k, v in seen.items()})
        return False
    chk.ok(rule, fi.site(call), f"{what}: the sort key holds, residue by residue, every component Residue3D.__lt__ compares ({full})")
    return True
