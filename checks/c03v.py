"""By-value reading of what find_pairs / find_stackings put into their KD-tree (C03, C04, C05, C11).

When the registration code is in a shape the symbolic reading of checks/c03e.py cannot follow (a helper that builds an ordered
name -> kind dict and is memoised per base letter, one dict of NamedTuple records, a comprehension producing (centre, residue)
pairs from which the list of points and the dictionary are derived, a centroid that lives in a cached property of Residue3D ...)
the statements that precede `KDTree(<points>)` are *evaluated* (sa/blockeval.py: the statements are read from the ast, their
expressions folded by the constant folder; nothing of the repository is imported or run) on rule-supplied stand-ins:

    a structure holding one residue per input class: base letter A, G, C, U, T, unknown; every atom present / one atom missing;
    requested model None / equal / different
    atoms with distinct, deterministic coordinates, named after the pinned tables of spec/lw_edges.json

and the resulting *values* are inspected: which points were registered, and what each dictionary keyed by a point holds for it
(the atom, the string "acceptor"/"donor", the residue - alone, in a tuple, or in a record).  Properties of Residue3D that the
code reads on a residue (e.g. a cached `base_geometric_center`) are evaluated the same way on the stand-in.
"""
from __future__ import annotations

import ast
import collections
import json
import os
from typing import Any, Dict, List, Optional, Sequence, Tuple

from sa import astq
from sa.blockeval import BlockEval, Unknown
from sa.consteval import Folder
from sa.model import FuncInfo, norm
from sa.report import VERIF


class NotEvaluable(Exception):
    pass


def tables() -> Dict[str, Any]:
    return json.load(open(os.path.join(VERIF, "spec", "lw_edges.json")))


LETTERS = ["A", "G", "C", "U", "T", "N"]
BACKBONE = ["P", "OP1", "OP2", "O5'", "C5'", "C4'", "O4'", "C3'", "O3'", "C2'", "O2'", "C1'"]


def universe(letter: str) -> List[str]:
    t = tables()
    names: List[str] = []
    for n in BACKBONE + t["BASE_ATOMS"].get(letter, []) + t["BASE_DONORS"].get(letter, []) + t["BASE_ACCEPTORS"].get(letter, []) + t["RIBOSE_ACCEPTORS"] + t["PHOSPHATE_ACCEPTORS"]:
        if n not in names:
            names.append(n)
    return names


class AtomStub:
    _folder_stub = True

    def __init__(self, name: str, k: int, res: "ResStub"):
        self.name = name
        # distinct, not on a lattice: no two atoms (and no two means of subsets) coincide by accident
        self.x = round(1.0 + 0.37 * k + 0.013 * k * k, 6)
        self.y = round(-2.0 + 0.91 * k - 0.007 * k * k * k, 6)
        self.z = round(0.5 + 0.23 * k * k, 6)
        self.label, self.auth, self.model = res.label, res.auth, res.model
        self.entity_id = "1"
        self.occupancy = 1.0

    @property
    def coordinates(self):
        from sa.blockeval import Vec

        return Vec((self.x, self.y, self.z))

    def __repr__(self):
        return f"<atom {self.name}>"

    def __hash__(self):
        return hash(("atom", self.name, id(self.label)))


class ResStub:
    """Stand-in for a Residue3D: fields, find_atom by name, and - on demand - the properties the analysed class defines,
    evaluated from their ast on this very object."""

    _folder_stub = True

    def __init__(self, repo, letter: str, model: int = 1, missing: Sequence[str] = (), tag: int = 0, names: Optional[Sequence[str]] = None):
        self._repo = repo
        self.one_letter_name = letter
        self.model = model
        self.label = ("label", letter, tag)
        self.auth = ("auth", letter, tag)
        self.chain, self.number, self.icode, self.name = "A", 10 + tag, None, letter
        self.full_name = f"A.{letter}{10 + tag}"
        self._tag = tag
        ns = list(names) if names is not None else universe(letter)
        self.atoms = tuple(AtomStub(n, k + 40 * tag, self) for k, n in enumerate(ns) if n not in missing)
        self._busy: set = set()

    def find_atom(self, atom_name):
        for a in self.atoms:
            if a.name == atom_name:
                return a
        return None

    def __repr__(self):
        return f"<residue {self.one_letter_name}#{self._tag}>"

    def __getattr__(self, name: str):
        if name.startswith("_") and not name.startswith("_Residue3D"):
            raise AttributeError(name)
        repo = self.__dict__.get("_repo")
        if repo is None:
            raise AttributeError(name)
        plain = name[len("_Residue3D") :] if name.startswith("_Residue3D__") else name
        try:
            fi = repo.func("tertiary", f"Residue3D.{plain}")
        except Exception:
            # class-level table of Residue3D
            try:
                return Folder(repo, "tertiary").fold(repo.class_attr_expr("tertiary", "Residue3D", plain))
            except Exception:
                raise AttributeError(name)
        if not any(d in ("property", "cached_property") for d in fi.decorators):
            params = [a.arg for a in fi.node.args.args][1:]

            def method(*args, _fi=fi, _params=params):
                return self._eval(_fi, dict(zip(_params, args)))

            return method
        if plain in self._busy:
            raise Unknown(f"recursive property {plain}")
        self._busy.add(plain)
        try:
            v = self._eval(fi, {})
        finally:
            self._busy.discard(plain)
        self.__dict__[name] = v
        return v

    def _eval(self, fi: FuncInfo, args: Dict[str, Any]):
        from sa.blockeval import NumpyStub

        env = {"self": self, "Residue3D": ClassStub(self._repo, "tertiary", "Residue3D"), "numpy": NumpyStub(), "np": NumpyStub()}
        env.update(args)
        kind, val = BlockEval(self._repo, "tertiary", env).run(fi.node.body)
        return val if kind == "return" else None


class ClassStub:
    _folder_stub = True

    def __init__(self, repo, module: str, cls: str):
        self._repo, self._module, self._cls = repo, module, cls

    def __getattr__(self, name: str):
        if name.startswith("_"):
            raise AttributeError(name)
        try:
            return Folder(self._repo, self._module).fold(self._repo.class_attr_expr(self._module, self._cls, name))
        except Exception:
            raise AttributeError(name)


class StructStub:
    _folder_stub = True

    def __init__(self, residues, repo=None):
        self.residues = list(residues)
        self.__dict__["_repo"] = repo
        self.__dict__["_busy"] = set()

    def __getattr__(self, name: str):
        # properties and methods of tertiary.Structure3D, evaluated from their ast on the stand-in (as ResStub does for Residue3D)
        repo = self.__dict__.get("_repo")
        if name.startswith("_") or repo is None:
            raise AttributeError(name)
        try:
            fi = repo.func("tertiary", f"Structure3D.{name}")
        except Exception:
            raise AttributeError(name)
        if not any(d in ("property", "cached_property") for d in fi.decorators):
            params = [a.arg for a in fi.node.args.args][1:]

            def method(*args, _fi=fi, _params=params):
                return self._eval(_fi, dict(zip(_params, args)))

            return method
        if name in self._busy:
            raise Unknown(f"recursive property {name}")
        self._busy.add(name)
        try:
            return self._eval(fi, {})
        finally:
            self._busy.discard(name)

    def _eval(self, fi: FuncInfo, args: Dict[str, Any]):
        env = {"self": self, "Residue3D": ClassStub(self._repo, "tertiary", "Residue3D")}
        env.update(args)
        kind, val = BlockEval(self._repo, "tertiary", env).run(fi.node.body)
        return val if kind == "return" else None


def record_classes(repo, module: str) -> Dict[str, Any]:
    """Constructors for the NamedTuple / dataclass records a module defines for itself (fields by annotation order)."""
    out = {}
    for name, c in repo.modules[module].classes.items():
        bases = [norm(b) for b in c.bases]
        is_nt = any(b.endswith("NamedTuple") for b in bases)
        is_dc = any("dataclass" in norm(d) for d in c.decorator_list)
        if not (is_nt or is_dc) or any(isinstance(b, ast.FunctionDef) for b in c.body):
            continue
        fields = [b.target.id for b in c.body if isinstance(b, ast.AnnAssign) and isinstance(b.target, ast.Name)]
        if not fields:
            continue
        base = collections.namedtuple(name, fields)
        rec = type(name, (base,), {"_folder_stub": True, "_folder_keywords": True, "_record_fields": tuple(fields)})
        out[name] = rec
    return out


def prefix_statements(fi: FuncInfo, points: str) -> List[ast.stmt]:
    """Top-level statements of the function that precede `KDTree(<points>)`, without the early `return`s for small inputs."""
    out: List[ast.stmt] = []
    for st in fi.node.body:
        if isinstance(st, (ast.Assign, ast.AnnAssign)) and st.value is not None and isinstance(st.value, ast.Call) and astq.callee_name(st.value) in ("KDTree", "cKDTree"):
            return out
        if isinstance(st, ast.If) and st.body and isinstance(st.body[-1], ast.Return) and not st.orelse:
            continue
        if isinstance(st, ast.Expr) and isinstance(st.value, ast.Constant):
            continue
        out.append(st)
    raise NotEvaluable("no `KDTree(<points>)` statement at the top level of the function")


def run_prefix(repo, fi: FuncInfo, points: str, residues: Sequence[ResStub], model: Optional[int]) -> Dict[str, Any]:
    params = [a.arg for a in fi.node.args.args]
    if len(params) < 2:
        raise NotEvaluable("expected (structure, model) parameters")
    env: Dict[str, Any] = {params[0]: StructStub(residues, repo), params[1]: model}
    env.update(record_classes(repo, fi.module.name))
    # module-level helpers of the analysed module as callables whose *ast* is evaluated in the same world (sa/world.py)
    from sa import world as W

    world = W.build(repo, fi.module.name, functions=True, extra=record_classes(repo, fi.module.name))
    ev = BlockEval(repo, fi.module.name, env, world=world, max_steps=20000)
    try:
        kind, _ = ev.run(prefix_statements(fi, points))
    except Unknown as ex:
        raise NotEvaluable(str(ex))
    except NotEvaluable:
        raise
    except Exception as ex:
        raise NotEvaluable(f"{type(ex).__name__}: {ex}")
    if kind != "fall":
        raise NotEvaluable(f"the statements before the KD-tree end in `{kind}`")
    if not isinstance(ev.env.get(points), list):
        raise NotEvaluable(f"`{points}` is not a list after the registration")
    return ev.env


def component_kind(v: Any, res: ResStub) -> Any:
    if isinstance(v, AtomStub):
        return "atom"
    if v is res:
        return "residue"
    if isinstance(v, str) and v in ("acceptor", "donor"):
        return "type"
    if isinstance(v, tuple) and hasattr(v, "_record_fields"):
        return ("record", type(v).__name__, list(v._record_fields), [component_kind(x, res) for x in v])
    if isinstance(v, tuple):
        return [component_kind(x, res) for x in v]
    return None


def site_dicts(env: Dict[str, Any], points: str) -> Dict[str, Dict[Any, Any]]:
    """Local dictionaries whose keys are exactly the registered points."""
    pts = env[points]
    keys = {p if isinstance(p, tuple) else None for p in pts}
    out = {}
    for name, v in env.items():
        if isinstance(v, dict) and v and name != points and set(v.keys()) == keys:
            out[name] = v
    return out
