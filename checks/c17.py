"""C17 - clash detection equals the pairwise van-der-Waals definition.

Decided on clashfinder.py: the KD-tree search radius covers the largest acceptance threshold for every pair of atom
types, the listed pairs equal the van-der-Waals definition for all 32 option combinations (distance threshold per type
pair and mode, one filter per option, occupancy rule and sum, atoms considered, record roles, each pair once; closed
world of the conditions), CLI argument <-> parameter agreement, accumulator self-reference, None-only occupancy
defaults, report and CSV list the clashes found with every atom under its own residue, maxima, same order.

Fact-level rules (checks/c17e.py: find_clashes and main evaluated on input-class representatives) come first; the
pinned-form rules below (`legacy_*`) run only when the fact-level reading is impossible.
"""
from __future__ import annotations

import ast
import itertools
import types
from typing import Any, Dict, List

from checks.c03 import K, kd_loop, spec
from checks.c08 import flat
from sa import astq, intervals
from sa.consteval import Folder, NotConst
from sa.defuse import Inliner
from sa.flow import FlowMap, facts
from sa.model import AnalysisError, norm

M = "clashfinder"


def atom_types(chk) -> Dict[str, float]:
    """AtomType member -> radius: the radius property evaluated per member (checks/c17e.EnumS: the body is interpreted
    with self = the member, whatever its shape - if/elif chain, dispatch table, match); the path-folding reading below
    is the fallback."""
    repo = chk.repo
    try:
        from checks import c17e

        fi0 = repo.func(M, "AtomType.radius")
        chk.note_function(fi0)
        enum = c17e.EnumS(repo, M, "AtomType")
        out0: Dict[str, float] = {}
        for m in enum.members:
            try:
                out0[m.name] = m.radius
            except c17e.Raised:
                out0[m.name] = None
        return out0
    except AnalysisError:
        raise
    except Exception:
        pass
    members = {k: Folder(repo, M).fold(v) for k, v in repo.enum_members(M, "AtomType").items()}
    fi = repo.func(M, "AtomType.radius")
    chk.note_function(fi)
    out: Dict[str, float] = {}
    for name, value in members.items():
        me = types.SimpleNamespace(value=value, name=name)
        r = None
        stack = list(fi.node.body)
        while stack:
            st = stack.pop(0)
            if isinstance(st, ast.If):
                t = Folder(repo, M, {"self": me}).try_fold(st.test)
                if t is None:
                    raise AnalysisError(f"AtomType.radius: test `{norm(st.test)}` does not fold for member {name}")
                stack = list(st.body if t else st.orelse) + stack
            elif isinstance(st, ast.Return):
                r = Folder(repo, M, {"self": me}).try_fold(st.value)
                break
            elif isinstance(st, ast.Raise):
                r = None
                break
        out[name] = r
    return out


def run(chk) -> None:
    repo = chk.repo
    c = spec("constants.json")["C17"]
    chk.explanation = (
        "Static rules on clashfinder.py: radii per atom type obtained by abstract evaluation of AtomType.radius (module-level tables folded). find_clashes is read from the ast and evaluated "
        "(sa/blockeval + rule-supplied stubs, KD-tree modelled as 'every pair within the radius once'; nothing of the library is imported or run) on one synthetic structure of well separated "
        "two-atom clusters, one per input class (16 ordered type pairs x 4 distance cells just below/above r_a+r_b and r_a+r_b+0.5; same/different residue x nucleotide flags x equal/different "
        "names x 6 occupancy classes incl. 0.0, missing and a sum of 0.99 x 2 distance cells; two different residues that share chain/number/insertion code; atoms of no known type incl. hydrogens named HO../HN..), for all 32 option combinations, plus inputs with fewer than two atoms; the listed pairs, "
        "record roles and sums are compared with the pairwise van-der-Waals definition; the evaluated KD-tree radius must cover the largest threshold; every atomic condition met is classified as "
        "a function of one feature of the definition (closed world). main is evaluated the same way on a representative clash list with tokens for chains, residues and atoms: listed lines and "
        "CSV rows = the clashes, every atom under its own residue (key and record of a filed clash agree on orientation), printed maxima = maxima of the listed lines (maxima in the middle of file and sort order; "
        "residue pairs that differ in one identity component), same order in both outputs, independence of set iteration order; the evaluated call of find_clashes binds every option parameter to the switch of the same name "
        "(positional or keyword); the structure is read the same way with and without the switches and find_clashes receives every residue of it that it would consider (no option reaches the parser, the report of one clash list does not depend on the switches); read_metadata receives an open file; main is evaluated once per metadata class (every category present, each asked category absent, no category at all as for a PDB-format file, rows without the items): the CSV rows are exactly the clashes in each (csv-metadata-total). Accumulator updates read what they write; no truthiness default on occupancies. The pinned-form rules run only when a function cannot be evaluated."
    )
    chk.trusted = ["CPython ast", "scipy KDTree.query_pairs returns every pair within the radius exactly once"]
    chk.assumptions = ["float distance arithmetic is not decided", "atom typing by first letter of the name as coded (C/N/O/P)"]
    chk.robust |= {"atom-types", "molprobity-term", "search-radius", "distance-region", "option-extra-filter", "optional-truthiness", "cli-arguments", "cli-structure", "accumulator", "csv-metadata-arg", "collection"}
    radii = atom_types(chk)
    at = repo.cls(M, "AtomType")
    chk.expect(set(radii) == {"C", "N", "O", "P"} and all(isinstance(v, float) and v > 0 for v in radii.values()), "atom-types", f"src/rnapolis/clashfinder.py:{at.lineno} AtomType", f"four atom types with radii {radii}", f"atom types/radii are not total over C, N, O, P: {radii}", f"{M}:AtomType:radii", found=radii)
    # every atom type has its own element's radius (the reference values of the definition: spec/constants.json) - decided on
    # the evaluated radius of each member, whatever its shape (if-chain, table, helper, renamed constants)
    ref = c.get("vdw_radii") or {}
    chk.robust |= {"atom-radii"}
    wrong = {k: (radii.get(k), v) for k, v in ref.items() if not (isinstance(radii.get(k), (int, float)) and abs(radii[k] - v) < 1e-12)}
    if ref and set(radii) == set(ref):
        twin = {k: [k2 for k2, v2 in ref.items() if k2 != k and isinstance(got, (int, float)) and abs(got - v2) < 1e-12] for k, (got, _) in wrong.items()}
        first = next(iter(sorted(wrong)), None)
        chk.expect(not wrong, "atom-radii", f"src/rnapolis/clashfinder.py:{at.lineno} AtomType", f"each atom type evaluates to the radius of its own element {ref}", (f"atom type {first} has radius {wrong[first][0]}, not the {wrong[first][1]} A of its element" + (f" (it is the radius of {twin[first][0]}: a row or branch cloned from another element)" if twin.get(first) else "") + f": every clash threshold and the search radius that involve {first} atoms are off") if wrong else "", f"{M}:AtomType:radius-values", expected=ref, found=radii)
    fi = repo.func(M, "find_clashes")
    chk.note_function(fi)
    from checks import c17e

    total = set(radii) == {"C", "N", "O", "P"} and all(isinstance(v, float) and v > 0 for v in radii.values())
    if ref and set(ref) == set(radii):
        radii = {k: float(ref[k]) for k in radii}  # the definition the listed pairs are compared with uses the reference radii
    why = c17e.check_find_clashes(chk, fi, radii, c["molprobity_extra"]) if total else "the radii of the atom types are not total"
    if why is None:
        # decided on the current code whatever its shape; the pinned forms are not consulted
        chk.ok("molprobity-term", fi.where, f"the extra tolerance is decided by rule `distance-threshold`: pairs just below r_a + r_b + {c['molprobity_extra']} are accepted and pairs just above rejected in MolProbity mode, r_a + r_b otherwise")
        truthy = [n for n in ast.walk(fi.node) if isinstance(n, ast.BoolOp) and isinstance(n.op, ast.Or) and any(isinstance(v, ast.Attribute) and v.attr == "occupancy" for v in n.values)]
        chk.expect(not truthy, "optional-truthiness", fi.site(truthy[0]) if truthy else fi.where, "no `occupancy or default`: a stated occupancy of 0.0 is kept", f"`{norm(truthy[0])}` replaces a stated occupancy of 0.0 by the default" if truthy else "", K(fi, "occupancy-or"))
    else:
        chk.ok("clash-facts", fi.where, f"fact-level reading of find_clashes not possible ({why[:140]}); falling back to the pinned forms")
        try:
            legacy_find_clashes(chk, fi, radii, c)
        except AnalysisError as ex:  # the pinned anchor (one top-level loop over kdtree.query_pairs) is gone as well: the other obligations are still evaluated
            chk.error("clash-facts", fi.where, f"find_clashes can be read neither at fact level ({why[:100]}) nor in its pinned form ({ex})")
    mt =repo.func(M, "AtomType.matches")
    chk.note_function(mt)
    if why is None:
        chk.ok("collection", mt.where, "atom typing is decided by rule `collection` on the evaluated structure: atoms named H1, M2, HO1, HN2, HC1, HP2 right next to typed atoms are not considered, every C/N/O/P atom is")
    else:
        chk.expect([norm(s) for s in mt.node.body] == ["return atom.name.strip().startswith(self.value)"], "collection", mt.where, "an atom matches a type when its name starts with the type letter", "AtomType.matches changed", K(mt, "matches"))
    check_cli(chk, fi)
    for rule, n in (("search-radius", 1), ("option-filter", 2), ("distance-threshold", 2), ("cli-arguments", 2)):
        chk.floor(rule, n)


def legacy_find_clashes(chk, fi, radii, c) -> None:
    """Pinned-form rules for find_clashes (fallback)."""
    repo = chk.repo
    fm = FlowMap(fi.node)
    inl = Inliner(fi.node)
    loop = kd_loop(chk, fi)
    members = [types.SimpleNamespace(value=k, name=k, radius=v) for k, v in radii.items()]

    # ---- molprobity constant ---------------------------------------------------------------------
    mf = astq.first_assign(fi.node, "molprobity_factor")
    fvals = {}
    for flag in (True, False):
        fvals[flag] = Folder(repo, M, {"enable_molprobity_mode": flag}).try_fold(mf) if mf is not None else None
    chk.expect(fvals == {True: c["molprobity_extra"], False: 0.0}, "molprobity-term", fi.where, "the extra tolerance is 0.5 A in MolProbity mode and 0 otherwise", f"the molprobity term folds to {fvals}", K(fi, "molprobity"), expected={True: c["molprobity_extra"], False: 0.0}, found=fvals)

    # ---- search radius covers every acceptance threshold -----------------------------------------------
    q = inl.inline(loop.iter.args[0], loop, stop=("enable_molprobity_mode",)) if loop.iter.args else None
    dist_skips = [s for s in loop.body if isinstance(s, ast.If) and s.body and isinstance(s.body[-1], ast.Continue) and "distance" in astq.names(s.test)]
    if q is None or len(dist_skips) != 1:
        chk.error("search-radius", fi.site(loop), "query radius or distance test not found")
    else:
        thr_e = None
        test = dist_skips[0].test
        if isinstance(test, ast.Compare) and len(test.ops) == 1 and "distance" in (norm(test.left), norm(test.comparators[0])):
            thr_e = test.comparators[0] if norm(test.left) == "distance" else test.left
        if thr_e is None:
            chk.error("search-radius", fi.site(test), f"distance test `{norm(test)}` is not `distance > <threshold>`")
        else:
            thr_i = inl.inline(thr_e, dist_skips[0], stop=("enable_molprobity_mode", "ai", "aj"))
            worst = None
            try:
                for flag in (True, False):
                    R = Folder(repo, M, {"AtomType": members, "enable_molprobity_mode": flag}).fold(q)
                    for a, b in itertools.combinations_with_replacement(members, 2):
                        loc = {"enable_molprobity_mode": flag, "AtomType": {m.name: m for m in members}, "ai": types.SimpleNamespace(name=a.name + "1"), "aj": types.SimpleNamespace(name=b.name + "2")}
                        T = Folder(repo, M, loc).fold(thr_i)
                        if not (isinstance(R, (int, float)) and isinstance(T, (int, float))):
                            raise NotConst("radius/threshold not numeric")
                        if R + 1e-12 < T and worst is None:
                            worst = (flag, a.name, b.name, R, T)
                chk.expect(
                    worst is None,
                    "search-radius",
                    fi.site(loop),
                    "the KD-tree radius is at least r_a + r_b + extra for every pair of atom types, in both modes",
                    f"the KD-tree radius ({worst[3]:.2f} A) is smaller than the acceptance threshold of {worst[1]}-{worst[2]} ({worst[4]:.2f} A, molprobity={worst[0]}): such clashes are never examined" if worst else "",
                    K(fi, "search-radius"),
                    found=list(worst) if worst else None,
                )
            except (NotConst, Exception) as ex:
                chk.error("search-radius", fi.site(loop), f"radius `{norm(q)[:70]}` / threshold `{norm(thr_i)[:70]}` not evaluable: {ex}")
            # threshold definition
            sv = astq.first_assign(fi.node, "sum_vdw_radii")
            chk.expect(sv is not None and norm(sv) == "AtomType[ai.name[0]].radius + AtomType[aj.name[0]].radius" and norm(thr_e) == "sum_vdw_radii + molprobity_factor", "distance-threshold", fi.site(test), "threshold = radius(type of a) + radius(type of b) + extra", "the acceptance threshold is not radius(ai) + radius(aj) + molprobity_factor", K(fi, "threshold"), found=[norm(sv) if sv is not None else None, norm(thr_e)])
            d = astq.first_assign(fi.node, "distance")
            chk.expect(d is not None and norm(d) in ("np.linalg.norm(ai.coordinates - aj.coordinates)", "np.linalg.norm(aj.coordinates - ai.coordinates)"), "distance-threshold", fi.where, "distance = |a - b|", "distance is not the norm of the coordinate difference of the two atoms", K(fi, "distance"))
            # accept region
            try:
                reg = intervals.region(test, [((lambda n: isinstance(n, ast.Name) and n.id == "distance"), "raw")], Folder(repo, M, {"sum_vdw_radii": 1.2, "molprobity_factor": 0.5}).fold, extra_thresholds=(1.7,))
                bad = {k: v for k, v in reg.items() if v != (k[0] > 1.7)}
                chk.expect(not bad, "distance-region", fi.site(test), "a pair is skipped iff its distance exceeds the threshold", "the distance test does not skip exactly the pairs farther apart than the threshold", K(fi, "distance-region"), found={str(k): v for k, v in bad.items()})
            except intervals.NotThreshold as ex:
                chk.error("distance-region", fi.site(test), str(ex))

    # ---- one filter per option (closed world) -----------------------------------------------------------
    skips = [s for s in loop.body if isinstance(s, ast.If) and s.body and isinstance(s.body[-1], ast.Continue) and not s.orelse]
    want = {"ignore_autoclashes": "ignore_autoclashes is True and ri == rj", "require_same_atom_name": "require_same_atom_name is True and ai.name != aj.name"}
    seen = {}
    extra = []
    for s in skips:
        if s in dist_skips:
            continue
        opts = [p for p in ("ignore_autoclashes", "require_same_atom_name", "ignore_occupancy", "nucleic_acid_only", "enable_molprobity_mode") if p in astq.names(s.test)]
        if len(opts) == 1 and opts[0] in want:
            seen.setdefault(opts[0], []).append(norm(s.test))
        else:
            extra.append(s)
    for opt, t in want.items():
        alt = t.replace(" is True", "")
        chk.expect(seen.get(opt) in ([t], [alt]), "option-filter", fi.site(loop), f"{opt} guards exactly `{t.split(' and ')[1]}`", f"option {opt} is not wired to its own filter (`{t}`): found {seen.get(opt)}", K(fi, f"option:{opt}"), expected=t, found=seen.get(opt))
    for s in extra:
        n_opts = sum(1 for p in ("ignore_autoclashes", "require_same_atom_name", "ignore_occupancy", "nucleic_acid_only", "enable_molprobity_mode") if p in astq.names(s.test))
        if n_opts >= 2:  # several filters merged into one test: not readable in the pinned form (the fact-level reading decides it)
            chk.error("option-extra-filter", fi.site(s), f"filter `if {norm(s.test)[:70]}: continue` combines {n_opts} options: not readable in the pinned form")
            continue
        chk.violation("option-extra-filter", fi.site(s), f"additional filter `if {norm(s.test)[:70]}: continue` in the clash loop", K(fi, f"extra:{norm(s.test)[:50]}"))
    chk.ok("option-extra-filter", fi.site(loop), "only the autoclash, same-name and distance filters skip a pair")
    # occupancy rule and record
    apps = [a for a in astq.calls(loop, "append") if astq.dotted(a.func.value) == "result"]
    ok = False
    if len(apps) == 1:
        g = [x for x in fm.guards_within(fm.stmt_of(apps[0]), loop) if x.kind == "if"]
        ok = len(g) == 1 and g[0].polarity and norm(g[0].test) in ("ignore_occupancy is True or math.isclose(sum_occupancies, 1.0)", "ignore_occupancy or math.isclose(sum_occupancies, 1.0)")
        ok = ok and flat(apps[0].args[0]) == flat("((ri, ai), (rj, aj), sum_occupancies)")
    chk.expect(ok, "occupancy-rule", fi.site(loop), "a clash is listed iff occupancies are ignored or their sum is 1; recorded once as ((ri, ai), (rj, aj), sum)", "the occupancy rule / clash record changed", K(fi, "occupancy-rule"))
    so = astq.first_assign(fi.node, "sum_occupancies")
    truthy = [n for n in ast.walk(fi.node) if isinstance(n, ast.BoolOp) and isinstance(n.op, ast.Or) and any(isinstance(v, ast.Attribute) and v.attr == "occupancy" for v in n.values)]
    chk.expect(not truthy, "optional-truthiness", fi.site(truthy[0]) if truthy else fi.where, "no `occupancy or default`: a stated occupancy of 0.0 is kept", f"`{norm(truthy[0])}` replaces a stated occupancy of 0.0 by the default" if truthy else "", K(fi, "occupancy-or"))
    ok = so is not None and flat(so) in (flat("(1.0 if ai.occupancy is None else ai.occupancy) + (1.0 if aj.occupancy is None else aj.occupancy)"), flat("(ai.occupancy if ai.occupancy is not None else 1.0) + (aj.occupancy if aj.occupancy is not None else 1.0)"))
    chk.expect(ok, "occupancy-sum", fi.where, "occupancy sum = occ(a) + occ(b), 1.0 only when absent", "the occupancy sum is not occ(a) + occ(b) with 1.0 for a missing occupancy", K(fi, "occupancy-sum"), found=norm(so) if so is not None else None)
    for nm, w in (("ai", "reference_atoms[i]"), ("aj", "reference_atoms[j]")):
        d = [s for s in loop.body if isinstance(s, (ast.Assign, ast.AnnAssign)) and norm(s.targets[0] if isinstance(s, ast.Assign) else s.target) == nm]
        chk.expect(len(d) == 1 and norm(d[0].value) == w, "pair-roles", fi.site(loop), f"{nm} = {w}", f"{nm} is not {w}", K(fi, f"role:{nm}"))
    rr = [s for s in loop.body if isinstance(s, ast.Assign) and flat(s) == flat("ri, rj = reference_residues[i], reference_residues[j]")]
    chk.expect(len(rr) == 1, "pair-roles", fi.site(loop), "ri, rj = residues of the two query indices", "ri/rj are not reference_residues[i], reference_residues[j]", K(fi, "role:residues"))
    # collection: which residues' atoms are considered, read path by path
    from sa import paths as PT

    rl = [l for l in fi.node.body if isinstance(l, ast.For) and norm(l.iter) == "residues" and isinstance(l.target, ast.Name)]
    if len(rl) != 1:
        chk.error("collection", fi.where, "loop over the residues not found")
    else:
        r = rl[0].target.id

        def holds(text: str, val: bool, nao: bool, nuc: bool):
            table = {
                "nucleic_acid_only is True": nao is True, "nucleic_acid_only is False": nao is False, "nucleic_acid_only is not True": nao is not True,
                "nucleic_acid_only is not False": nao is not False, "nucleic_acid_only": bool(nao), "nucleic_acid_only == True": nao == True, "nucleic_acid_only == False": nao == False,
                f"{r}.is_nucleotide": nuc, f"{r}.is_nucleotide is True": nuc is True, f"{r}.is_nucleotide is False": nuc is False,
            }
            if text not in table:
                return None
            return table[text] == val

        bad, unknown = [], []
        atom_loops = set()
        for events, exit_ in PT.paths(rl[0].body):
            reached = [ev[1] for ev in events if ev[0] == "loop" and isinstance(ev[1], ast.For) and norm(ev[1].iter) == f"{r}.atoms"]
            for lp in reached:
                atom_loops.add(lp)
            stray = [ev[1] for ev in events if ev[0] == "stmt" and any(isinstance(c2, ast.Call) and isinstance(c2.func, ast.Attribute) and c2.func.attr == "append" for c2 in ast.walk(ev[1]))]
            if stray:
                unknown.append(f"append outside the atom loop: {norm(stray[0])[:50]}")
            for nao in (True, False):
                for nuc in (True, False):
                    cons = [holds(ev[1], ev[2], nao, nuc) for ev in events if ev[0] == "test"]
                    if None in cons:
                        unknown.append([ev[1] for ev in events if ev[0] == "test" and holds(ev[1], ev[2], nao, nuc) is None][0])
                        continue
                    if not all(cons):
                        continue
                    want_reach = (nao is True and nuc) or nao is False
                    if bool(reached) != want_reach:
                        bad.append((nao, nuc, bool(reached)))
        if unknown:
            chk.error("collection", fi.site(rl[0]), f"residue selection not understood: {unknown[0]}")
        elif bad:
            nao, nuc, got = bad[0]
            chk.violation("collection", fi.site(rl[0]), f"with nucleic_acid_only={nao} a residue that is {'a' if nuc else 'not a'} nucleotide is {'considered' if got else 'left out'}: atoms considered must be those of all residues, or of nucleotides only when requested", K(fi, "collection"), found=[list(b) for b in bad])
        elif len(atom_loops) != 1:
            chk.error("collection", fi.site(rl[0]), f"{len(atom_loops)} loops over the atoms of a residue")
        else:
            chk.ok("collection", fi.site(rl[0]), "atoms considered = atoms of all residues, or of nucleotides only when nucleic_acid_only is set (4 option/residue cases evaluated over all paths)")
            al = next(iter(atom_loops))
            a = norm(al.target)
            bad2, unk2 = [], []
            MATCH = (flat(f"any([atom_type.matches({a}) for atom_type in AtomType])"), flat(f"any(atom_type.matches({a}) for atom_type in AtomType)"), flat(f"any((atom_type.matches({a}) for atom_type in AtomType))"))
            for events, exit_ in PT.paths(al.body):
                dec = None
                for ev in events:
                    if ev[0] == "test":
                        if flat(ev[1]) in MATCH:
                            dec = ev[2]
                        else:
                            unk2.append(ev[1])
                apps = sorted(norm(c2) for ev in events if ev[0] == "stmt" for c2 in ast.walk(ev[1]) if isinstance(c2, ast.Call) and isinstance(c2.func, ast.Attribute) and c2.func.attr == "append")
                want_apps = sorted([f"coordinates.append({a}.coordinates)", f"reference_atoms.append({a})", f"reference_residues.append({r})"])
                if dec is True and apps != want_apps:
                    bad2.append(f"an atom of one of the four types is registered as {apps}, not in the three parallel lists")
                if dec is False and apps:
                    bad2.append("an atom of no known type is registered")
                if dec is None and apps:
                    bad2.append("atoms are registered without the type test")
            if unk2:
                chk.error("collection", fi.site(al), f"atom selection not understood: {unk2[0][:60]}")
            else:
                chk.expect(not bad2, "collection", fi.site(al), "an atom is registered (residue, atom, coordinates in parallel) iff it matches one of the four types", bad2[0] if bad2 else "", K(fi, "collection-atoms"))


def legacy_cli_arguments(chk, mn, params) -> None:
    """Pinned form of `cli-arguments` (fallback when main cannot be evaluated): positional `args.<parameter name>`."""
    calls = astq.calls(mn.node, "find_clashes")
    ok = False
    found = None
    readable = False
    if len(calls) == 1:
        args = calls[0].args
        found = [norm(a) for a in args] + [f"{k.arg}={norm(k.value)}" for k in calls[0].keywords]
        readable = all(norm(a).startswith("args.") for a in args[1:]) and all(k.arg is not None and norm(k.value).startswith("args.") for k in calls[0].keywords)
        bound = dict(zip(params, [norm(a) for a in args]))
        bound.update({k.arg: norm(k.value) for k in calls[0].keywords if k.arg is not None})
        ok = readable and len(args) <= len(params) and bound.get(params[0]) == "structure3d.residues" and all(bound.get(p) == f"args.{p}" for p in params[1:])
    if not ok and not readable:
        chk.error("cli-arguments", mn.where, f"arguments of find_clashes not understood: {found}")
    else:
        chk.expect(ok, "cli-arguments", mn.where, "every option is passed to the parameter of the same name", "CLI options are not passed to find_clashes parameters of the same name (mix-up)", K(mn, "cli-args"), expected=["structure3d.residues"] + [f"args.{p}" for p in params[1:]], found=found)
    # the structure is read without any option (pinned reading: no `args.<option>` among the arguments of the reader)
    for c2 in astq.calls(mn.node, "read_3d_structure"):
        used = sorted({n.attr for a in list(c2.args) + [k.value for k in c2.keywords] for n in ast.walk(a) if isinstance(n, ast.Attribute) and isinstance(n.value, ast.Name) and n.value.id == "args" and n.attr in params[1:]})
        chk.expect(not used, "cli-structure", mn.site(c2), "the structure is read without any option: find_clashes receives the whole structure of the input file", f"read_3d_structure receives option(s) {used}: the structure handed to find_clashes is pre-filtered by the parser's own criterion, the tool lists only what passes both filters", K(mn, "reader-args"))
    flags = sorted(a.args[0].value for a in astq.calls(mn.node, "add_argument") if a.args and isinstance(a.args[0], ast.Constant) and any(k.arg == "action" and norm(k.value) == "'store_true'" for k in a.keywords))
    chk.expect(flags == sorted("--" + p.replace("_", "-") for p in params[1:]), "cli-arguments", mn.where, "one boolean switch per option", "the set of boolean switches differs from find_clashes' options", K(mn, "cli-flags"), found=flags)


def legacy_csv_metadata_arg(chk, mn) -> None:
    """Pinned form of `csv-metadata-arg` (fallback when main cannot be evaluated)."""
    # CSV: read_metadata(file: IO) needs an open file (it uses file.name), not the path string
    for c2 in astq.calls(mn.node, "read_metadata"):
        a0 = c2.args[0] if c2.args else None
        opened = set()
        for w in [x for x in ast.walk(mn.node) if isinstance(x, ast.With)]:
            for it in w.items:
                if isinstance(it.context_expr, ast.Call) and norm(it.context_expr.func) == "open" and it.optional_vars is not None and any(c2 is n for n in ast.walk(w)):
                    opened.add(norm(it.optional_vars))
        is_file = a0 is not None and (norm(a0) in opened or (isinstance(a0, ast.Call) and norm(a0.func) in ("open", "handle_input_file")))
        is_path = a0 is not None and norm(a0).startswith("args.")
        if is_file:
            chk.ok("csv-metadata-arg", mn.site(c2), f"read_metadata receives the open file `{norm(a0)}`")
        elif is_path:
            chk.violation("csv-metadata-arg", mn.site(c2), f"read_metadata (which reads file.name) receives the path string `{norm(a0)}`: --csv raises AttributeError as soon as one clash is found, no CSV is written", K(mn, f"read_metadata({norm(a0)})"))
        else:
            chk.error("csv-metadata-arg", mn.site(c2), f"argument `{norm(a0) if a0 is not None else None}` of read_metadata not classified (path or open file)")


def check_cli(chk, fi) -> None:
    repo = chk.repo
    # ---- CLI -----------------------------------------------------------------------------------------------
    mn = repo.func(M, "main")
    chk.note_function(mn)
    params = [a.arg for a in fi.node.args.args]
    # report and CSV: fact-level first (main evaluated on a representative clash list), pinned forms as the fallback
    from checks import c17e

    why = c17e.check_main(chk, mn, fi)  # incl. the fact-level `cli-arguments` (evaluated call of find_clashes)
    if why is not None:
        legacy_cli_arguments(chk, mn, params)
        legacy_csv_metadata_arg(chk, mn)
    # accumulators read what they write
    n_acc = 0
    for s in ast.walk(mn.node):
        if isinstance(s, ast.Assign) and isinstance(s.targets[0], ast.Subscript) and isinstance(s.value, ast.Call) and astq.callee_name(s.value) == "max":
            tgt = s.targets[0]
            minl = Inliner(mn.node)
            val = minl.inline(s.value, s, stop=("ri", "rj", "occupancy"))
            gets = [c2 for c2 in ast.walk(val) if isinstance(c2, ast.Call) and astq.callee_name(c2) == "get"]
            ok = len(gets) == 1 and norm(gets[0].func.value) == norm(tgt.value) and flat(gets[0].args[0]) == flat(minl.inline(tgt.slice, s, stop=("ri", "rj")))
            if not gets:
                if why is not None:
                    chk.error("accumulator", mn.site(s), f"running maximum `{norm(s)[:70]}` not understood")
                continue
            n_acc += 1
            chk.expect(ok, "accumulator", mn.site(s), f"`{norm(tgt)[:50]}` is the running maximum of its own previous value", f"running maximum `{norm(tgt)[:50]}` is computed from `{norm(gets[0])[:60] if gets else None}`: another container or key than the one it updates", K(mn, f"acc:{norm(tgt.value)}"))
    if why is None:
        for _ in range(max(0, 2 - n_acc)):
            chk.ok("accumulator", mn.where, "running maxima not in the form D[k] = max(D.get(k, d), v): decided by rule `report-maxima` on the evaluated report")
    chk.floor("accumulator", 2)
    if why is None:
        return
    chk.ok("report-facts", mn.where, f"fact-level reading of main not possible ({why[:140]}); falling back to the pinned forms")
    # printed and CSV loops over the same containers with the same sort
    outer = [l for l in ast.walk(mn.node) if isinstance(l, ast.For) and norm(l.iter) == "sorted(clashing_chains)"]
    mids = [l for l in ast.walk(mn.node) if isinstance(l, ast.For) and flat(l.iter) == flat("clashing_chains[(ci, cj)]")]
    inner = [l for l in ast.walk(mn.node) if isinstance(l, ast.For) and flat(l.iter) == flat("sorted(clashing_chains[(ci, cj)][(ri, rj)])")]
    chk.expect(len(outer) == 2 and len(mids) == 2 and len(inner) == 2, "report-loops", mn.where, "the printed report and the CSV iterate the same containers in the same order", "the printed report and the CSV no longer iterate the same containers with the same sort", K(mn, "loops"), found=[len(outer), len(mids), len(inner)])
    minl2 = Inliner(mn.node)
    adds = [c2 for c2 in ast.walk(mn.node) if isinstance(c2, ast.Call) and isinstance(c2.func, ast.Attribute) and c2.func.attr == "add" and c2.args and flat(c2.args[0]) == flat("(ai, aj, occupancy)")]
    if len(adds) != 1:
        chk.error("report-grouping", mn.where, "the statement filing a clash `(ai, aj, occupancy)` not found")
    else:
        st = FlowMap(mn.node).stmt_of(adds[0])
        recv = adds[0].func.value
        at = st
        for _ in range(4):  # the receiver is mutated by definition: follow its definitions by hand
            if isinstance(recv, ast.Name):
                d = minl2.reaching(recv.id, at)
                if d is None:
                    break
                at = minl2.stmt_of_value(d) or at
                recv = d
            elif isinstance(recv, ast.Call) and isinstance(recv.func, ast.Attribute) and isinstance(recv.func.value, ast.Name) and recv.func.value.id != "clashing_chains":
                d = minl2.reaching(recv.func.value.id, at)
                if d is None:
                    break
                import copy as _copy

                recv = _copy.deepcopy(recv)
                recv.func.value = d
            else:
                break
        recv = minl2.inline(recv, st, stop=("ri", "rj", "clashing_chains"))
        CK, RK = flat("(ri.chain, rj.chain)"), flat("(ri, rj)")
        forms = (flat(f"clashing_chains[(ri.chain, rj.chain)][(ri, rj)]"), flat("clashing_chains.setdefault((ri.chain, rj.chain), {}).setdefault((ri, rj), set())"), flat("clashing_chains.setdefault((ri.chain, rj.chain), dict()).setdefault((ri, rj), set())"))
        t = flat(recv)
        if t in forms:
            chk.ok("report-grouping", mn.site(adds[0]), "every clash is filed under (chain pair, residue pair)")
        elif "clashing_chains" in t and (flat("(rj.chain, ri.chain)") in t or flat("(rj, ri)") in t or t.count(CK) == 0 or t.count(RK) == 0):
            chk.violation("report-grouping", mn.site(adds[0]), f"a clash is filed under `{norm(recv)[:90]}`, not under ((ri.chain, rj.chain), (ri, rj))", K(mn, "grouping"), found=norm(recv))
        else:
            chk.error("report-grouping", mn.site(adds[0]), f"container `{norm(recv)[:90]}` receiving the clash not understood")


MANIFEST_ENTRY = {
    "text": "Static decision on the current source of clashfinder.py: every atom type evaluates to the radius of its own element (reference values in spec/constants.json); the KD-tree radius (evaluated for all 32 option combinations) is at least r_a + r_b + extra for every pair of atom types, so no accepted pair is outside the search; "
    "the pairs listed by find_clashes, evaluated on one representative per input class (type pair x distance cell, residue/nucleotide configuration, two different residues that share chain/number/insertion code, name equality, occupancy class "
    "incl. 0.0, missing and a sum of 0.99, atoms of no known type) for all 32 option combinations, are exactly those of the van-der-Waals definition (extra = 0.5 iff MolProbity; each option guards exactly one filter; occupancy rule and sum; "
    "atoms considered; record roles; each pair once) and nothing else skips a pair (closed world of the atomic conditions); the evaluated call of find_clashes in main binds every option parameter to the switch of the same name and hands over the whole structure of the input file (no option reaches the parser; main does not filter what find_clashes returns); the CSV rows are the clashes whatever metadata categories / items the file has; running maxima "
    "read the entry they write; occupancy defaults only for None; report and CSV list exactly the clashes found, every atom under its own residue (the key a clash is filed under and the stored record agree on the order of the pair), the maxima "
    "printed per residue pair and per chain pair equal the maxima of the atom clashes listed below the heading (largest sum in the middle of file and sort order, residue pairs that differ in one identity component only), both outputs in the "
    "same order and independent of set iteration order. Completeness of a search radius is a for-all-pairs claim decided here for all type pairs at once.",
    "note": "Trusted: KD-tree completeness and pair uniqueness; float distance not decided.",
    "technique": "static analysis: abstract evaluation of the radius property per Enum member, evaluation of find_clashes / main read from the ast on input-class representatives with stubs (finite partition, nothing of the library imported or run), closed-world classification of atomic conditions by feature, argument/parameter binding on the evaluated call; pinned-form rules only as fallback",
}
