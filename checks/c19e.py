"""C19, fact-level rules: the FR3D import and the DSSR name/class matchers are *evaluated* (sa/blockeval.py in the abstract
world of sa/world.py: Enum stubs, dataclass constructors as records, the module's own functions as inlined ast, an opened
listing as a text stub) on one representative per class of input, whatever the shape of the code:

* unit-id             parse_unit_id on unit ids with 5 / 7 / 8 / 9 fields, empty and non-empty insertion code, negative number;
                      ids without a number / with a non-numeric number are rejected
* dispatch-exhaustive every category the evaluated normaliser returns files an object (no line is dropped)
* dispatch-branch     ... exactly one, of the class of the category, carrying the class the normaliser returned
* line-fields         ... between the residues of column 1 and column 3 (label = column 2), extra columns and CRLF ignored
* result-fields       ... in the BaseInteractions field whose declared element type is that class
* fr3d-lines          comment / blank lines are skipped, every other line is processed, order kept
* fr3d-total          malformed lines raise nothing, file nothing, and do not stop the lines after them
* label-total         a line with two well-formed unit ids files exactly one interaction for EVERY class of label (recognised or
                      not): an exception on a label path is neither swallowed as 'malformed line' nor does it escape
* import-history      two imports in one process (sa/procstate.py: module-level objects and default arguments are created once
                      and live on) give what each gives in a process of its own, and a result already returned does not change
* dssr-name           match_dssr_name_to_residue on resolvable / model-prefixed / unresolvable / prefix-of-a-name / None ids
* guard-exact         match_dssr_lw on every member name, non-members, Enum attribute names that are not members, None

Each function returns None when the fact-level reading was possible (its obligations are recorded) or the reason why not;
the caller then falls back to the pinned-form rules.
"""
from __future__ import annotations

import re
from typing import Any, Callable, Dict, List, Optional, Tuple

from checks.c03 import K
from sa import world as W
from sa.blockeval import Unknown
from sa.model import norm
from sa.procstate import Process, render

M = "adapter"
DISPATCH = {"base-pair": ("BasePair", 1), "stacking": ("Stacking", 0), "base-ribose": ("BaseRibose", 0), "base-phosphate": ("BasePhosphate", 0), "other": ("OtherInteraction", None)}
# category -> (class of the object filed, shape of its tail: None = no class argument, 0 = (class,), 1 = (class, None) - BasePair's saenger is not known to FR3D)

# unit id -> (chain, number, insertion code, name); FR3D: pdb|model|chain|name|number|atom|alt|icode|symmetry
UNITS = {
    "1EHZ|1|A|G|10": ("A", 10, None, "G"),
    "1EHZ|1|B|C|25|||X": ("B", 25, "X", "C"),
    "1EHZ|1|C|U|-3||": ("C", -3, None, "U"),
    "1EHZ|1|D|A|7|||": ("D", 7, None, "A"),
    "1EHZ|1|E|DG|1001|P|alt|B|sym": ("E", 1001, "B", "DG"),
    "1EHZ|1|F|PSU|5||||6_555": ("F", 5, None, "PSU"),
    # ids that share all but one field with an id above (decoded after it, in the same process): chain / name / insertion code / number differs
    "1EHZ|1|B|G|10": ("B", 10, None, "G"),
    "1EHZ|1|A|C|10": ("A", 10, None, "C"),
    "1EHZ|1|A|G|10|||X": ("A", 10, "X", "G"),
    "1EHZ|1|A|G|11": ("A", 11, None, "G"),
    "2XYZ|2|A|G|10": ("A", 10, None, "G"),
}
BAD_UNITS = ["1EHZ|1|A|G", "1EHZ|1|A|G|x", "1EHZ|1|A|G|", "1EHZ|1|A|G|1.5", "G10", ""]
U1, U2 = "1EHZ|1|A|G|10", "1EHZ|1|B|C|25|||X"


def residue(u: str) -> tuple:
    c, n, i, nm = UNITS[u]
    return ("Residue", None, ("ResidueAuth", c, n, i, nm))


class Fact:
    """Obligations of a fact-level reading: always a VIOLATION when they fail (the rule id is robust while they are recorded)."""

    def __init__(self, chk):
        self.chk = chk

    def expect(self, cond: bool, rule: str, *a, **k) -> bool:
        had = rule in self.chk.robust
        self.chk.robust.add(rule)
        try:
            return self.chk.expect(cond, rule, *a, **k)
        finally:
            if not had:
                self.chk.robust.discard(rule)


def describe(ex: BaseException) -> str:
    """`ValueError ('cXY' is not a valid LeontisWesthof), raised in unify_classification line 111 by `return (...)`"""
    txt = str(ex)
    s = type(ex).__name__ + (f" ({txt[:80]})" if txt else "")
    o = getattr(ex, "_sa_origin", None)
    if o:
        s += f", raised in {o[0]} line {o[1]} by `{o[2]}`"
    return s


def swallowing_handlers(fis, ex: BaseException) -> List[str]:
    """The except clauses of the given functions that accept an exception of this type (for the message: who made the line vanish)."""
    import ast
    import builtins

    out: List[str] = []
    for fi in fis:
        for t in ast.walk(fi.node):
            if not isinstance(t, ast.Try):
                continue
            for h in t.handlers:
                types = [] if h.type is None else ([ast.unparse(x).split(".")[-1] for x in h.type.elts] if isinstance(h.type, ast.Tuple) else [ast.unparse(h.type).split(".")[-1]])
                hit = h.type is None
                for name in types:
                    cls = getattr(builtins, name, None)
                    if isinstance(cls, type) and isinstance(ex, cls):
                        hit = True
                if hit:
                    out.append(f"`except {ast.unparse(h.type) if h.type is not None else ''}`".replace(" `", "`") + f" of {fi.qualname} (line {h.lineno})")
    return out


def _pic(v: Any) -> str:
    import json

    try:
        t = json.dumps(v)
    except (TypeError, ValueError):
        t = repr(v)
    return t if len(t) <= 110 else t[:107] + "..."


def _counts(res: Any, exc: Optional[str]) -> str:
    """[n, n, n, n, n] of a BaseInteractions record, or the exception."""
    if exc is not None:
        return f"an exception ({exc})"
    return str([len(x) for x in res[1:]])


def _element_class(annotation: str) -> Optional[str]:
    m = re.fullmatch(r"(?:typing\.)?(?:List|list|Sequence|Tuple|tuple)\[(\w+)(?:, \.\.\.)?\]", annotation)
    return m.group(1) if m else None


def fr3d_facts(chk, labels: Dict[str, Any]) -> Optional[str]:
    """`labels`: the label classes of normaliser-eval (label -> expected (category, class)); only the labels are used here -
    the category and class a line must be filed under are the ones the *evaluated* normaliser returns, so that this rule
    and normaliser-eval stay independent."""
    repo = chk.repo
    pu = repo.func(M, "parse_unit_id")
    pl = repo.func(M, "_process_interaction_line")
    pf = repo.func(M, "parse_fr3d_output")
    uc = repo.func(M, "unify_classification")
    files: Dict[str, str] = {}
    proc = Process(repo, M, extra={"open": W.opener(files)})  # module-level objects / default arguments live as long as the process
    world = proc.world
    bi = repo.cls("common", "BaseInteractions")
    import ast

    field_cls = [_element_class(norm(b.annotation)) for b in bi.body if isinstance(b, ast.AnnAssign)]

    def run_import(lines: List[str], fresh: bool = True) -> Tuple[Any, Optional[str]]:
        """(the BaseInteractions record, None) or (None, description of the exception); `fresh`: in a process of its own"""
        if fresh:
            proc.restart()
        files.clear()
        files["listing"] = "".join(l if l.endswith("\n") else l + "\n" for l in lines)
        try:
            res = world["parse_fr3d_output"]("listing")
        except Unknown:
            raise
        except Exception as ex:
            return None, describe(ex)
        if not (isinstance(res, tuple) and res[:1] == ("BaseInteractions",) and len(res) == 1 + len(field_cls) and all(isinstance(x, list) for x in res[1:])):
            raise Unknown(f"parse_fr3d_output does not return BaseInteractions(<{len(field_cls)} lists>): {res!r}"[:160])
        return res, None

    def listing(lines: List[str]) -> Tuple[Optional[List[Tuple[int, Any]]], Optional[str]]:
        """([(position in BaseInteractions, object)], None) or (None, description of the exception) - the first import of a process"""
        res, exc = run_import(lines)
        if exc is not None:
            return None, exc
        return [(pos, o) for pos, lst in enumerate(res[1:]) for o in lst], None

    obligations: List[Callable[[], None]] = []  # recorded only when the whole reading was possible
    F = Fact(chk)
    try:
        # ---- unit ids ------------------------------------------------------------------------------------------------------
        bad: Dict[str, str] = {}
        after_others: List[str] = []

        def decode(u: str) -> Any:
            try:
                return world["parse_unit_id"](u)
            except Unknown:
                raise
            except Exception as ex:
                return "raises " + describe(ex)

        proc.restart()
        fresh0 = proc.snapshot()
        for u in UNITS:  # one after the other in one process ...
            got = decode(u)
            if got != residue(u):
                bad[u] = got if isinstance(got, str) else repr(got)
        changed = [n for n, v in proc.snapshot().items() if fresh0.get(n) != v]
        for u in list(bad):  # ... and what was wrong once more in a process of its own
            proc.restart()
            if decode(u) == residue(u):
                after_others.append(f"`{u}` is decoded as {bad.pop(u)} after the ids {', '.join('`' + x + '`' for x in list(UNITS)[: list(UNITS).index(u)][-3:])} ... were decoded in the same process, and as {residue(u)!r} in a process of its own" + (f" (state the calls left behind: {', '.join(n if n.startswith('default') else 'module-level `' + n + '`' for n in changed)})" if changed else ""))
        proc.restart()
        obligations.append(lambda: F.expect(not after_others, "import-history", pu.where, f"{len(UNITS)} unit ids decoded one after the other in one process (among them ids that differ in a single field) are decoded as in a process of their own", "; ".join(after_others[:1]) + ": the answer depends on the ids seen before", K(pu, "unit-history"), found=after_others[:4]))
        accepted = []
        for u in BAD_UNITS:
            try:
                got = world["parse_unit_id"](u)
                accepted.append(f"`{u}` -> {got!r}")
            except Unknown:
                raise
            except Exception:
                pass
        obligations.append(lambda bad=bad: F.expect(not bad, "unit-id", pu.where, f"{len(UNITS)} unit ids (5, 7, 8, 9 fields; empty / non-empty insertion code; negative number; ids differing in one field) give Residue(None, ResidueAuth(chain = field 3, number = int(field 5), icode = field 8 or None, name = field 4))", "unit ids are decoded wrongly: " + "; ".join(f"`{u}` -> {g} (expected {residue(u)!r})" for u, g in list(bad.items())[:3]), K(pu, "unit-id-eval"), expected={u: repr(residue(u)) for u in list(bad)[:6]}, found=dict(list(bad.items())[:6])))
        obligations.append(lambda accepted=accepted: F.expect(not accepted, "unit-id", pu.where, f"{len(BAD_UNITS)} ids without a residue number / with a non-numeric number are rejected", "a unit id without a parsable residue number is accepted: " + "; ".join(accepted[:3]), K(pu, "unit-id-reject"), found=accepted[:6]))

        # ---- the categories the normaliser returns ---------------------------------------------------------------------------
        sample: Dict[str, Tuple[str, Any]] = {}
        label_exc: Dict[str, BaseException] = {}
        for label in labels:
            try:
                r = world["unify_classification"](label)
            except Unknown:
                raise
            except Exception as ex:
                label_exc[label] = ex  # what becomes of such a line is decided by label-total below
                continue
            if isinstance(r, tuple) and len(r) == 2 and isinstance(r[0], str):
                sample.setdefault(r[0], (label, r[1]))
        if not sample:
            raise Unknown("the normaliser returns no (category, class) pair for any label class")
        unknown = sorted(c for c in sample if c not in DISPATCH)
        dropped: List[str] = []
        raised: List[str] = []
        per_cat: Dict[str, Tuple[bool, str, Any]] = {}
        fields_bad: List[str] = []
        pos_bad: List[str] = []
        for cat in sorted(sample):
            label, cls_val = sample[cat]
            objs, exc = listing(["# FR3D listing", "", f"{U1}\t{label}\t{U2}"])
            if exc is not None:
                raised.append(f"`{label}` line: {exc}")
                continue
            if not objs:
                dropped.append(f"{cat} (label `{label}`)")
                continue
            if cat not in DISPATCH:
                continue
            cname, tail = DISPATCH[cat]
            want_tail = () if tail is None else ((cls_val,) if tail == 0 else (cls_val, None))
            one = len(objs) == 1
            pos, o = objs[0]
            shape_ok = one and isinstance(o, tuple) and len(o) >= 3 and o[0] == cname and tuple(o[3:]) == want_tail
            per_cat[cat] = (shape_ok, f"{len(objs)} object(s): " + ", ".join(repr(x) for _, x in objs[:2]), cname + "(nt1, nt2" + "".join(", " + repr(x) for x in want_tail) + ")")
            if one and isinstance(o, tuple) and len(o) >= 3 and tuple(o[1:3]) != (residue(U1), residue(U2)):
                fields_bad.append(f"`{U1}<TAB>{label}<TAB>{U2}` files {o!r}: residues are not (column 1, column 3)")
            if one and cname in field_cls and pos != field_cls.index(cname):
                pos_bad.append(f"the {cat} object is passed as BaseInteractions field {pos + 1} (element type {field_cls[pos]}), not field {field_cls.index(cname) + 1} (List[{cname}])")
            elif one and cname not in field_cls:
                pos_bad.append(f"BaseInteractions has no field of element type {cname}")
        obligations.append(lambda: F.expect(not dropped and not unknown, "dispatch-exhaustive", pl.where, f"every category the normaliser returns ({', '.join(sorted(sample))}) files an object: no line with two well-formed unit ids is dropped", ("lines are silently dropped for the categor" + ("ies " if len(dropped) > 1 else "y ") + ", ".join(dropped) if dropped else "") + ("; " if dropped and unknown else "") + (f"the normaliser returns categor{'ies' if len(unknown) > 1 else 'y'} {unknown} that the statement does not know" if unknown else ""), K(pl, "categories"), expected=sorted(DISPATCH), found={"returned": sorted(sample), "dropped": dropped}))
        for cat in sorted(DISPATCH):
            if cat in per_cat:
                ok, found, want = per_cat[cat]
                obligations.append(lambda cat=cat, ok=ok, found=found, want=want: F.expect(ok, "dispatch-branch", pl.where, f"{cat}: exactly one {want} is filed", f"a `{cat}` line does not file exactly one {want}: {found}", K(pl, f"branch:{cat}"), expected=want, found=found))
            else:
                why_not = "not returned by the normaliser for any label class (normaliser-eval reports that if it is wrong)" if cat not in sample else "nothing filed / the import raised (reported by dispatch-exhaustive / fr3d-total)"
                obligations.append(lambda cat=cat, why_not=why_not: chk.ok("dispatch-branch", pl.where, f"{cat}: {why_not}"))
        obligations.append(lambda: F.expect(not pos_bad, "result-fields", pf.where, "every object reaches the BaseInteractions field whose declared element type is its class (keys written = keys read, arguments in field order)", "; ".join(pos_bad[:3]), K(pf, "fields"), found=pos_bad[:5]))

        # ---- every class of label: exactly one interaction ---------------------------------------------------------------------
        lost: List[str] = []
        for label in labels:
            objs, exc = listing([f"{U1}\t{label}\t{U2}"])
            shown = f"`{U1}<TAB>{label}<TAB>{U2}`"
            if exc is not None:
                lost.append(f"the line {shown} makes the import raise {exc}")
            elif len(objs) == 1:
                continue
            elif objs:
                lost.append(f"the line {shown} files {len(objs)} interactions: {[o for _, o in objs][:2]!r}"[:300])
            elif label in label_exc:
                ex = label_exc[label]
                who = swallowing_handlers((pl, pf), ex)
                lost.append(f"the line {shown} files nothing: the label path raises {describe(ex)}" + (f", which {who[0]} takes for a malformed line" if who else ", which the import swallows") + " - the line is dropped instead of being kept (an unrecognised label is an 'other' interaction)")
            else:
                r = world["unify_classification"](label)
                lost.append(f"the line {shown} files nothing (the normaliser returns {r!r})"[:260])
        obligations.append(lambda: F.expect(not lost, "label-total", pl.where, f"{len(labels)} labels, one per class of the label language (recognised or not): a line with two well-formed unit ids files exactly one interaction; no exception of a label path is swallowed as 'malformed line' or escapes", f"{len(lost)} of {len(labels)} label classes lose their line: " + "; ".join(lost[:2]), K(pl, "label-total"), found=lost[:6]))

        # ---- columns, line ends ----------------------------------------------------------------------------------------------
        some = "base-pair" if "base-pair" in sample else sorted(sample)[0]
        lab, cls_val = sample[some]
        for what, text, want_nts in (
            ("units swapped", f"{U2}\t{lab}\t{U1}", (residue(U2), residue(U1))),
            ("extra columns", f"{U1}\t{lab}\t{U2}\t0\textra", (residue(U1), residue(U2))),
            ("CRLF line end", f"{U1}\t{lab}\t{U2}\r", (residue(U1), residue(U2))),
            ("other unit ids", f"1EHZ|1|C|U|-3||\t{lab}\t1EHZ|1|E|DG|1001|P|alt|B|sym", (residue("1EHZ|1|C|U|-3||"), residue("1EHZ|1|E|DG|1001|P|alt|B|sym"))),
        ):
            objs, exc = listing([text])
            if exc is not None:
                raised.append(f"{what}: {exc}")
            elif len(objs) != 1 or not isinstance(objs[0][1], tuple) or tuple(objs[0][1][1:3]) != want_nts:
                fields_bad.append(f"{what}: `{text.replace(chr(9), '<TAB>').replace(chr(13), '<CR>')}` files {[o for _, o in objs]!r}"[:260])
        obligations.append(lambda: F.expect(not fields_bad, "line-fields", pl.where, "a line is decoded as (unit 1 = column 1, label = column 2, unit 2 = column 3); further columns and a CR line end change nothing", "; ".join(fields_bad[:2]), K(pl, "fields"), found=fields_bad[:5]))

        # ---- which lines are processed ---------------------------------------------------------------------------------------
        lines_bad: List[str] = []
        objs, exc = listing(["# comment", "", "   ", f"#{U1}\t{lab}\t{U2}", "\t"])
        if exc is not None:
            raised.append(f"comment / blank lines: {exc}")
        elif objs:
            lines_bad.append(f"a comment or blank line files {[o for _, o in objs][:2]!r}")
        seq = [(U1, U2), (U2, U1), (U1, U1), (U1, "1EHZ|1|B|G|10"), ("1EHZ|1|A|G|10|||X", "1EHZ|1|A|C|10")]  # the last ids share all but one field with U1
        objs, exc = listing(["# head"] + [f"{a}\t{lab}\t{b}" for a, b in seq[:2]] + ["", "# between"] + [f"{a}\t{lab}\t{b}" for a, b in seq[2:]])
        if exc is not None:
            raised.append(f"{len(seq)} lines: {exc}")
        elif [tuple(o[1:3]) for _, o in objs if isinstance(o, tuple)] != [(residue(a), residue(b)) for a, b in seq]:
            lines_bad.append(f"{len(seq)} `{lab}` lines (with a blank and a comment line between them) file {len(objs)} object(s) / not in file order: {[o for _, o in objs][:3]!r}"[:300])
        obligations.append(lambda: F.expect(not lines_bad, "fr3d-lines", pf.where, "comment and blank lines are skipped, every other line is processed, in file order", "; ".join(lines_bad[:2]), K(pf, "lines"), found=lines_bad[:4]))

        # ---- malformed lines ---------------------------------------------------------------------------------------------------
        malformed = ["garbage", f"{U1}\t{lab}", f"{U1} {lab} {U2}", "\t\t", f"\t{lab}\t"] + [f"{U1}\t{lab}\t{b}" for b in BAD_UNITS if b] + [f"{b}\t{lab}\t{U2}" for b in BAD_UNITS[:2]]
        kept_bad: List[str] = []
        for text in malformed:
            objs, exc = listing([text, f"{U1}\t{lab}\t{U2}"])
            shown = text.replace("\t", "<TAB>")
            if exc is not None:
                raised.append(f"malformed line `{shown}`: {exc}")
            elif len(objs) != 1 or not isinstance(objs[0][1], tuple) or tuple(objs[0][1][1:3]) != (residue(U1), residue(U2)):
                kept_bad.append(f"`{shown}` followed by a well-formed line files {[o for _, o in objs]!r}"[:260])
        obligations.append(lambda: F.expect(not raised, "fr3d-total", pf.where, f"{len(malformed)} malformed lines (too few columns, blanks for tabs, empty columns, unit ids without / with a non-numeric residue number) and all well-formed ones raise nothing", "the import raises: " + "; ".join(raised[:3]), K(pf, "eval-raises"), found=raised[:6]))
        obligations.append(lambda: F.expect(not kept_bad, "fr3d-lines", pf.where, "a line without two parsable unit ids is skipped: it files nothing and the lines after it are still imported", "; ".join(kept_bad[:2]), K(pf, "malformed"), found=kept_bad[:4]))

        # ---- call histories: one process, two imports -------------------------------------------------------------------------------
        per_cat_lines = [f"{U1}\t{sample[c][0]}\t{U2}" for c in sorted(sample)]
        one_line = [f"{U2}\t{lab}\t{U1}"]
        scenarios = [
            (f"a listing with one line per category ({len(per_cat_lines)} lines)", per_cat_lines, "a one-line listing", one_line),
            ("a one-line listing", one_line, "a listing of comments only", ["# nothing here", ""]),
            (f"a {len(per_cat_lines)}-line listing", per_cat_lines, "the same listing again", per_cat_lines),
            ("a listing with a malformed and a well-formed line", ["garbage"] + one_line, "a one-line listing", [f"{U1}\t{lab}\t{U1}"]),
        ]
        proc.restart()
        fresh_state = proc.snapshot()
        hist_bad: List[str] = []
        hist_found: Dict[str, Any] = {}
        for what_a, lines_a, what_b, lines_b in scenarios:
            if hist_bad:
                break
            alone, exc0 = run_import(lines_b)
            alone_pic = render(alone) if exc0 is None else f"raises {exc0}"
            first, exc1 = run_import(lines_a)  # a process of its own ...
            first_pic = render(first) if exc1 is None else f"raises {exc1}"
            first_counts = _counts(first, exc1)
            left = {n: v for n, v in proc.snapshot().items() if fresh_state.get(n) != v}
            shared = proc.aliases(first) if exc1 is None else []
            second, exc2 = run_import(lines_b, fresh=False)  # ... and the next import in the same process
            second_pic = render(second) if exc2 is None else f"raises {exc2}"
            first_after = render(first) if exc1 is None else first_pic
            state_txt = ""
            if left:
                n0 = sorted(left)[0]
                state_txt = f"; the first import leaves {n0 if n0.startswith('default') else 'module-level `' + n0 + '`'} as {_pic(left[n0])} (in a new process: {_pic(fresh_state.get(n0))})"
            if shared:
                state_txt += f"; the lists of the result it returned are the very objects held by {shared[0]}"
            if second_pic != alone_pic:
                hist_bad.append(f"{what_b} imported after {what_a} in the same process gives {_counts(second, exc2)} interactions per field, in a process of its own {_counts(alone, exc0)}: the result depends on the imports made before" + state_txt)
                hist_found = {"second import": second_pic, "alone": alone_pic}
            elif first_after != first_pic:
                hist_bad.append(f"the BaseInteractions returned for {what_a} changes when {what_b} is imported afterwards ({first_counts} -> {_counts(first, exc1)} interactions per field): a result already handed out is rewritten by a later import" + state_txt)
                hist_found = {"first result, as returned": first_pic, "after the second import": first_after}
        proc.restart()
        obligations.append(lambda: F.expect(not hist_bad, "import-history", pf.where, f"{len(scenarios)} histories of two imports in one process (module-level objects and default arguments created once: {', '.join(proc.carriers()) or 'none that is mutable'}): the second import gives what it gives in a process of its own, and the result of the first is not changed by it", "; ".join(hist_bad[:1]), K(pf, "history"), found=hist_found or None))
    except Unknown as ex:
        return str(ex)
    for ob in obligations:
        ob()
    for fi in (pu, pl, pf, uc):
        chk.note_function(fi)
    return None


def dssr_name_facts(chk) -> Optional[str]:
    repo = chk.repo
    mn = repo.func(M, "match_dssr_name_to_residue")
    world = W.build(repo, M)
    names = ["A.G10", "A.G1", "B.C2", "A.G1"]  # the prefix-of-another-name and the duplicate come after the names they could be confused with
    res = [W.Obj(f"<residue {i} {n}>", full_name=n) for i, n in enumerate(names)]
    structure = W.Obj("<structure>", residues=res)
    cases = [
        ("A.G1", res[1], "exact full name (the first residue with that name; `A.G10` comes earlier and must not match)"),
        ("1:A.G1", res[1], "model prefix stripped"),
        ("2:B.C2", res[2], "model prefix stripped"),
        ("A.G10", res[0], "exact full name"),
        ("A.G", None, "a prefix of a name is not a match"),
        ("a.g1", None, "case matters"),
        ("Z.U99", None, "unknown residue"),
        ("", None, "empty id"),
        (None, None, "missing id"),
    ]
    bad: List[str] = []
    try:
        for arg, want, why in cases:
            try:
                got = world["match_dssr_name_to_residue"](structure, arg)
            except Unknown:
                raise
            except Exception as ex:
                bad.append(f"{arg!r} raises {type(ex).__name__} ({ex}) [{why}]")
                continue
            if got is not want:
                bad.append(f"{arg!r} -> {got!r}, expected {want!r} [{why}]")
    except Unknown as ex:
        return str(ex)
    Fact(chk).expect(not bad, "dssr-name", mn.where, f"{len(cases)} ids (exact, model-prefixed, prefix of a name, other case, unknown, empty, None): a DSSR id resolves to the first residue whose full name equals the part after the model prefix, else None", "DSSR name matching differs from the statement: " + "; ".join(bad[:3]), K(mn, "match"), found=bad[:6])
    return None


def dssr_lw_facts(chk) -> Optional[str]:
    repo = chk.repo
    ml = repo.func(M, "match_dssr_lw")
    world = W.build(repo, M)
    lw = world.get("LeontisWesthof")
    if not isinstance(lw, W.EnumStub):
        return "LeontisWesthof is not an Enum visible in adapter"
    members = list(lw.__members__)
    others = ["cww", "CWW", "c.W", "cW", "cWWa", "xyz", "", "name", "value", "__members__", "__class__", "_value_", "reverse", None]
    bad: List[str] = []
    try:
        for arg in members + others:
            want = lw.__members__.get(arg) if isinstance(arg, str) else None
            try:
                got = world["match_dssr_lw"](arg)
            except Unknown:
                raise
            except Exception as ex:
                bad.append(f"{arg!r} raises {type(ex).__name__}")
                continue
            if got != want or (got is None) != (want is None):
                bad.append(f"{arg!r} -> {got!r}, expected {want!r}")
    except Unknown as ex:
        return str(ex)
    Fact(chk).expect(not bad, "guard-exact", ml.where, f"the {len(members)} member names give their member; {len(others)} other values (other case, partial, attribute names of the Enum class, empty, None) give None and raise nothing", "the DSSR class lookup is not exact: " + "; ".join(bad[:4]), K(ml, "guard"), found=bad[:8])
    return None
