"""C09 - PDB/mmCIF write-read round trips preserve every atom field.

Decided on parser_v2.py: the column layout produced by the PDB line formatter equals, field by field, the slices the
reader takes (and the wwPDB table), MODEL and TER lines likewise; the record-order automaton of write_pdb; the three
encodings of the PDB<->mmCIF field correspondence agree; value domains (formal charge) agree across formats; null
placeholders written are nulls when read; numeric precisions.
"""
from __future__ import annotations

import ast
from typing import Any, Dict, List, Optional, Tuple

from checks.c03 import K, spec
from checks.c08 import flat, line_slices
from sa import astq, widths
from sa.consteval import Folder
from sa.flow import FlowMap, facts
from sa.model import AnalysisError, FuncInfo, norm

M = "parser_v2"

PDB_TO_CIF = {
    "record_type": ["group_PDB"], "serial": ["id"], "element": ["type_symbol"], "name": ["label_atom_id", "auth_atom_id"], "altLoc": ["label_alt_id"],
    "resName": ["label_comp_id", "auth_comp_id"], "chainID": ["label_asym_id", "auth_asym_id"], "resSeq": ["label_seq_id", "auth_seq_id"], "iCode": ["pdbx_PDB_ins_code"],
    "x": ["Cartn_x"], "y": ["Cartn_y"], "z": ["Cartn_z"], "occupancy": ["occupancy"], "tempFactor": ["B_iso_or_equiv"], "charge": ["pdbx_formal_charge"], "model": ["pdbx_PDB_model_num"],
}


def key_alias(repo) -> Dict[str, str]:
    """atom_data key -> PDB field, for keys that are not themselves PDB field names: such a key is identified by the columns the
    formatter writes it to (`record_name` at columns 1-6 is the record type).  Keys named like a field stand for that field."""
    sp = spec("pdb_columns.json")
    try:
        fi = repo.func(M, "_format_pdb_atom_line")
        wenv: Dict[str, Any] = {}
        kenv: Dict[str, str] = {}
        widths.scan(fi.node.body, wenv, kenv)
        lines = [s for s in fi.node.body if isinstance(s, ast.Assign) and norm(s.targets[0]) == "line" and isinstance(s.value, ast.JoinedStr)]
        lay, total = widths.layout(lines[0].value, wenv, kenv)
    except Exception:
        return {"record_name": "record_type"}
    keys = {k for k, a, b in lay}
    out: Dict[str, str] = {}
    for k, a, b in lay:
        if k in sp["atom"]:
            continue
        for field, (lo, hi) in sp["atom"].items():
            if (a, b) == (lo, hi) and field not in keys:
                out[k] = field
    return out or {"record_name": "record_type"}


def formatter_layout(chk) -> Dict[str, Tuple[int, int]]:
    repo = chk.repo
    sp = spec("pdb_columns.json")
    fi = repo.func(M, "_format_pdb_atom_line")
    chk.note_function(fi)
    wenv: Dict[str, Any] = {}
    kenv: Dict[str, str] = {}
    widths.scan(fi.node.body, wenv, kenv)
    lines = [s for s in fi.node.body if isinstance(s, ast.Assign) and norm(s.targets[0]) == "line" and isinstance(s.value, ast.JoinedStr)]
    if len(lines) != 1:
        raise AnalysisError("_format_pdb_atom_line: `line = f\"...\"` not found")
    lay, total = widths.layout(lines[0].value, wenv, kenv)
    if not isinstance(total, int):
        chk.error("writer-layout", fi.site(lines[0]), f"width of `{total[0]}` not determined ({total[1]})")
        return {}
    alias = key_alias(repo)
    got = {alias.get(k, k): (a, b) for k, a, b in lay}
    chk.expect(total == 80, "writer-layout", fi.site(lines[0]), "the formatted fields and gaps add up to 80 columns", f"the atom line adds up to {total} columns, not 80", K(fi, "total"), expected=80, found=total)
    for field, want in sp["atom"].items():
        g = got.get(field)
        chk.expect(
            g == tuple(want),
            "writer-layout",
            fi.site(lines[0]),
            f"{field} is written to columns {want[0] + 1}-{want[1]}",
            f"{field} is written to {g}, the reader and the format expect line[{want[0]}:{want[1]}]",
            K(fi, f"layout:{field}"),
            expected=want,
            found=list(g) if g else None,
        )
    rets = [r for r in fi.node.body if isinstance(r, ast.Return)]
    chk.expect(len(rets) == 1 and norm(rets[0].value) == "line.ljust(80)", "writer-layout", fi.where, "the line is padded to exactly 80 characters", "the atom line is not returned as line.ljust(80)", K(fi, "ljust"))
    # writer widths vs reader slices (sibling agreement)
    from checks import c08

    rd, _how = c08.reader_slices(chk, "v2")
    if _how == "none":
        chk.error("writer-reader-columns", fi.where, "the columns parse_pdb_atoms takes its fields from could not be established")
    for field, g in got.items():
        if field in sp["atom"] and _how != "none":
            chk.expect(rd.get(field) == g, "writer-reader-columns", fi.where, f"{field}: writer columns = reader slice {g}", f"{field}: writer puts it at {g}, reader takes {rd.get(field)}", f"{M}:columns:{field}", expected=list(g), found=list(rd.get(field)) if rd.get(field) else None)
    return got


def _writer_reader_columns(chk, lay: Dict[str, Tuple[int, int]]) -> None:
    """Sibling agreement: the columns a field is written to (found on probe rows) are the columns parse_pdb_atoms reads it from."""
    from checks import c08

    repo = chk.repo
    sp = spec("pdb_columns.json")
    fi = repo.func(M, "_format_pdb_atom_line") if repo.has_func(M, "_format_pdb_atom_line") else repo.func(M, "write_pdb")
    rd, how = c08.reader_slices(chk, "v2")
    if how == "none":
        chk.error("writer-reader-columns", fi.where, "the columns parse_pdb_atoms takes its fields from could not be established")
        return
    for field, want in sp["atom"].items():
        g = lay.get(field)
        r = rd.get(field)
        inside = g is not None and r is not None and r[0] <= g[0] and g[1] <= r[1]
        chk.expect(inside, "writer-reader-columns", fi.where, f"{field}: written inside the columns the reader slices ({r})", f"{field}: writer puts it at {g}, reader takes {r}", f"{M}:columns:{field}", expected=list(r) if r else None, found=list(g) if g else None)


def check_formatter_details(chk) -> None:
    repo = chk.repo
    fi = repo.func(M, "_format_pdb_atom_line")
    src = {norm(s.targets[0]): s.value for s in ast.walk(fi.node) if isinstance(s, ast.Assign) and isinstance(s.targets[0], ast.Name)}
    prec = {"x": "8.3f", "y": "8.3f", "z": "8.3f", "occupancy": "6.2f", "temp_factor": "6.2f"}
    for var, want in prec.items():
        e = src.get(var)
        ok = isinstance(e, ast.JoinedStr) and len(e.values) == 1 and isinstance(e.values[0], ast.FormattedValue) and e.values[0].format_spec is not None and "".join(x.value for x in e.values[0].format_spec.values if isinstance(x, ast.Constant)) == want
        if not ok and not (isinstance(e, ast.JoinedStr) and len(e.values) == 1 and isinstance(e.values[0], ast.FormattedValue)):
            # another way of formatting a number (%-formatting, format(), str.format, round): this reading cannot tell what it does
            chk.error("numeric-format", fi.where, f"{var} is not formatted by an f-string with a format spec (`{norm(e)[:60] if e is not None else 'not found'}`): its precision is not read off here")
            continue
        chk.expect(ok, "numeric-format", fi.where, f"{var} is formatted {want}", f"{var} is not formatted with :{want}", K(fi, f"format:{var}"), found=norm(e) if e is not None else None)
    just = {"serial": "rjust(5)", "res_name": "rjust(3)", "res_seq": "rjust(4)", "element": "rjust(2)", "record_name": "ljust(6)"}
    for var, want in just.items():
        e = src.get(var)
        chk.expect(e is not None and norm(e).endswith("." + want), "justification", fi.where, f"{var} is {want}", f"{var} is not {want}: the reader's strip() still works but the value lands in other columns when shorter", K(fi, f"just:{var}"), found=norm(e) if e is not None else None)
    # atom name alignment
    an = [s for s in fi.node.body if isinstance(s, ast.If) and "atom_name" in norm(s.test)]
    ok = len(an) == 1 and norm(an[0].test) == "len(atom_name) < 4 and atom_name[:1].isalpha()" and [norm(s) for s in an[0].body] == ["atom_name_fmt = (' ' + atom_name).ljust(4)"] and [norm(s) for s in an[0].orelse] == ["atom_name_fmt = atom_name.ljust(4)"]
    chk.expect(ok, "atom-name-alignment", fi.where, "names shorter than 4 starting with a letter are indented by one column, all names occupy 4 columns", "atom name alignment rule changed", K(fi, "atom-name"))
    # charge formatting: the fragment computing the 2-column charge field, evaluated per class of charge value
    from sa.blockeval import BlockEval, Unknown

    body = fi.node.body
    idx = [k for k, st in enumerate(body) if any(isinstance(n, ast.Constant) and n.value == "charge" for n in ast.walk(st))]
    line_idx = [k for k, st in enumerate(body) if isinstance(st, ast.Assign) and norm(st.targets[0]) == "line"]
    if not idx or not line_idx:
        chk.error("charge-format", fi.where, "charge fragment of the line formatter not found")
    else:
        frag = body[idx[0] : line_idx[0]]
        classes = [("1", "1+"), ("-2", "2-"), ("3", "3+"), ("+1", "1+"), ("1.0", "1+"), (1, "1+"), (-2, "2-"), (2.0, "2+"), ("1+", "1+"), ("2-", "2-"), ("", "  "), (None, "  "), ("0", "  ")]
        found, bad = {}, {}
        try:
            for v, want in classes:
                ev = BlockEval(repo, M, {"atom_data": {"charge": v}})
                ev.run(frag)
                got = ev.env.get("charge_fmt")
                found[repr(v)] = got
                if got != want:
                    bad[repr(v)] = (got, want)
            chk.expect(
                not bad,
                "charge-format",
                fi.site(frag[0]),
                f"a numeric charge n is written as |n| followed by its sign, formatted strings are kept, absent/zero charge is blank ({len(classes)} classes of value evaluated)",
                "the charge field is wrong for " + ", ".join(f"charge={k}: `{g}` instead of `{w}`" for k, (g, w) in list(bad.items())[:4]),
                K(fi, "charge"),
                expected={k: w for k, (g, w) in bad.items()},
                found={k: g for k, (g, w) in bad.items()},
            )
        except Unknown as ex:
            chk.error("charge-format", fi.site(frag[0]), f"charge fragment not evaluable: {ex}")
        except Exception as ex:
            chk.violation("charge-format", fi.site(frag[0]), f"the charge fragment raises {type(ex).__name__} ({ex}) for one of the charge value classes", K(fi, "charge-raises"))


def check_other_lines(chk) -> None:
    repo = chk.repo
    sp = spec("pdb_columns.json")
    fi = repo.func(M, "write_pdb")
    chk.note_function(fi)
    # MODEL line
    models = [c for c in astq.calls(fi.node, "write") if c.args and isinstance(c.args[0], ast.JoinedStr) and norm(c.args[0]).startswith("f'MODEL")]
    ok = False
    if len(models) == 1:
        js = models[0].args[0]
        lay, total = widths.layout(js, {}, {})
        ok = bool(lay) and (lay[0][1], lay[0][2]) == tuple(sp["model_serial"]) and norm(js.values[-1]).endswith("\\n'") or (bool(lay) and (lay[0][1], lay[0][2]) == tuple(sp["model_serial"]))
    chk.expect(ok, "model-line", fi.where, "MODEL serial is written right-justified to columns 11-14", "the MODEL line does not put the model number into columns 11-14", K(fi, "model-line"))
    # TER lines
    ters = [s for s in ast.walk(fi.node) if isinstance(s, ast.Assign) and norm(s.targets[0]) == "ter_line"]
    chk.expect(len(ters) >= 3, "ter-line", fi.where, f"{len(ters)} TER sites (chain change, model change, end)", f"only {len(ters)} TER sites: chain change, model change and end of file each need one", K(fi, "ter-sites"))
    fm = FlowMap(fi.node)
    for t in ters:
        blk = fm.stmt_of(t.value)
        # widths of the pieces from the preceding assignments in the same block
        parent_block = None
        for n in ast.walk(fi.node):
            for fld in ("body", "orelse"):
                b = getattr(n, fld, None)
                if isinstance(b, list) and t in b:
                    parent_block = b
        wenv: Dict[str, Any] = {}
        kenv: Dict[str, str] = {}
        widths.scan(parent_block[: parent_block.index(t)] if parent_block else [], wenv, kenv)
        wenv.setdefault("ter_chain_id", 1)
        if wenv.get("ter_chain_id") is None:
            wenv["ter_chain_id"] = 1
        wenv["ter_icode"] = 0
        lay, total = widths.layout(t.value, wenv, kenv) if isinstance(t.value, ast.JoinedStr) else ([], None)
        got = {k: (a, b) for k, a, b in lay}
        want = {"ter_serial": tuple(sp["atom"]["serial"]), "ter_res_name": tuple(sp["atom"]["resName"]), "ter_chain_id": tuple(sp["atom"]["chainID"]), "ter_res_seq": tuple(sp["atom"]["resSeq"])}
        ok = all(got.get(k) == v for k, v in want.items()) and got.get("ter_icode", (0, 0))[0] == sp["atom"]["iCode"][0]
        chk.expect(ok, "ter-line", fi.site(t), "TER carries serial, residue name, chain, number and insertion code in the ATOM columns", "a TER line does not follow the fixed column layout (serial 7-11, resName 18-20, chain 22, resSeq 23-26, iCode 27)", K(fi, f"ter-layout:{t.lineno}"), expected={k: list(v) for k, v in want.items()}, found={k: list(v) for k, v in got.items()})
        # provenance
        prov = {}
        for s in (parent_block[: parent_block.index(t)] if parent_block else []):
            if isinstance(s, ast.Assign) and isinstance(s.targets[0], ast.Name):
                prov[s.targets[0].id] = norm(s.value)
        ok = prov.get("ter_serial") == "str(last_serial + 1).rjust(5)" and prov.get("ter_res_name") == "last_res_info[2].strip().rjust(3)" and prov.get("ter_chain_id") == "last_chain_id" and prov.get("ter_res_seq") == "str(last_res_info[0]).rjust(4)" and prov.get("ter_icode") == "last_res_info[1] if last_res_info[1] else ''"
        chk.expect(ok, "ter-provenance", fi.site(t), "TER names the last residue of the chain it closes, serial = last serial + 1", "a TER record is not built from the last atom's serial + 1 and the last residue's (name, chain, number, icode)", K(fi, f"ter-prov:{t.lineno}"))
    wr = [c for c in astq.calls(fi.node, "write") if c.args and "ter_line" in norm(c.args[0])]
    chk.expect(len(wr) == len(ters) and all(norm(c.args[0]) == "ter_line.ljust(80) + '\\n'" for c in wr), "ter-line", fi.where, "every TER line is padded to 80 columns", "a TER line is not written as ter_line.ljust(80)", K(fi, "ter-ljust"))
    ri = [s for s in ast.walk(fi.node) if isinstance(s, ast.Assign) and norm(s.targets[0]) == "current_res_info"]
    chk.expect(len(ri) == 1 and flat(ri[0].value) == flat("(atom_data['resSeq'], atom_data['iCode'], atom_data['resName'])"), "ter-provenance", fi.where, "residue info tracked as (resSeq, iCode, resName)", "last_res_info is not (resSeq, iCode, resName) of the atom just written", K(fi, "res-info"))


def classify_write(c: ast.Call) -> Optional[str]:
    if not c.args:
        return None
    t = norm(c.args[0])
    for key, tag in (("'ENDMDL", "ENDMDL"), ("f'MODEL", "MODEL"), ("'END\\n'", "END"), ("ter_line", "TER"), ("pdb_line", "ATOM")):
        if t.startswith(key) or key in t[:12]:
            return tag
    return None


def check_record_order(chk) -> None:
    repo = chk.repo
    fi = repo.func(M, "write_pdb")
    fm = FlowMap(fi.node)
    loops = [l for l in fi.node.body if isinstance(l, ast.For) and "iterrows" in norm(l.iter)]
    if len(loops) != 1:
        raise AnalysisError("write_pdb: row loop not found")
    loop = loops[0]
    events = []  # (tag, call, in_loop, guards)
    for c in sorted(astq.calls(fi.node, "write"), key=lambda c: (c.lineno, c.col_offset)):
        if astq.dotted(c.func.value) != "buffer":
            continue
        tag = classify_write(c)
        if tag is None:
            continue
        st = fm.stmt_of(c)
        in_loop = any(c is n for n in ast.walk(loop))
        gs = [norm(g.test) + ("" if g.polarity else " [not]") for g in (fm.guards_within(st, loop) if in_loop else fm.of(st).guards) if g.kind == "if"]
        events.append((tag, c, in_loop, gs))
    inl = [(t, g) for t, c, il, g in events if il]
    tags = [t for t, g in inl]
    chk.expect(tags == ["TER", "ENDMDL", "MODEL", "TER", "ATOM"], "record-order", fi.site(loop), "per row: [TER, ENDMDL] at a model change, MODEL, TER at a chain change, then the atom line", f"records are emitted in the order {tags} inside the row loop; expected TER, ENDMDL, MODEL, TER, ATOM", K(fi, "loop-order"), found=tags)
    if tags == ["TER", "ENDMDL", "MODEL", "TER", "ATOM"]:
        g = [x[1] for x in inl]
        ok = g[0] == ["current_model_num != last_model_num", "last_model_num is not None", "last_chain_id is not None"] and g[1] == ["current_model_num != last_model_num", "last_model_num is not None"] and g[2] == ["current_model_num != last_model_num"]
        chk.expect(ok, "record-order", fi.site(loop), "a model change closes the open chain with TER, then ENDMDL, then opens MODEL", "the model-change block does not emit TER (if a chain is open) before ENDMDL (if a model is open) before MODEL", K(fi, "model-change"), found=g[:3])
        ok = g[3] == ["last_chain_id is not None and current_chain_id != last_chain_id"] and g[4] == []
        chk.expect(ok, "record-order", fi.site(loop), "TER exactly when the chain changes inside a model; every row yields an atom line", "TER at a chain change / unconditional atom line rule changed", K(fi, "chain-change"), found=g[3:])
        # tracking resets at a model change, after the TER
        mc = [s for s in loop.body if isinstance(s, ast.If) and norm(s.test) == "current_model_num != last_model_num"]
        if mc:
            tail = [norm(s) for s in mc[0].body if isinstance(s, ast.Assign)]
            chk.expect(tail == ["last_model_num = current_model_num", "last_chain_id = None", "last_res_info = None"], "record-order", fi.site(mc[0]), "model and chain tracking are reset when a model opens", "tracking variables are not reset (last_model_num, last_chain_id, last_res_info) when a model opens", K(fi, "model-reset"), found=tail)
    upd = [norm(s) for s in loop.body if isinstance(s, ast.Assign) and norm(s.targets[0]).startswith("last_")]
    chk.expect(upd == ["last_serial = atom_data['serial']", "last_chain_id = current_chain_id", "last_res_info = current_res_info"], "record-order", fi.site(loop), "after each atom line the tracker holds its serial, chain and residue", "the tracking update after the atom line changed", K(fi, "tracking"), found=upd)
    cur = {norm(s.targets[0]): norm(s.value) for s in loop.body if isinstance(s, ast.Assign) and norm(s.targets[0]).startswith("current_")}
    chk.expect(cur.get("current_model_num") == "atom_data['model']" and cur.get("current_chain_id") == "atom_data['chainID']", "record-order", fi.site(loop), "model and chain of a row come from its own fields", "current model/chain are not atom_data['model'] / atom_data['chainID']", K(fi, "current"))
    post = [(t, g) for t, c, il, g in events if not il and c.lineno > loop.lineno]
    ok = [t for t, g in post] == ["TER", "ENDMDL", "END"] and post[0][1][-1:] == ["last_chain_id is not None"] and post[1][1][-1:] == ["last_model_num is not None"]
    chk.expect(ok, "record-order", fi.where, "after the last row: TER for the open chain, ENDMDL for the open model, END", "the closing records are not TER (chain open), ENDMDL (model open), END", K(fi, "closing"), found=[(t, g[-1:]) for t, g in post])


def extract_atom_data(fi: FuncInfo, fmt: str) -> Dict[str, List[str]]:
    """atom_data key -> ordered list of source columns read with row.get(...) in the branch for `fmt`."""
    br = [s for s in ast.walk(fi.node) if isinstance(s, (ast.If,)) and norm(s.test) == f"format_type == '{fmt}'"]
    if not br:
        return {}
    body = br[0].body
    pre: Dict[str, List[str]] = {}
    out: Dict[str, List[str]] = {}

    def cols(e: ast.AST) -> List[str]:
        r = []
        for n in ast.walk(e):
            if isinstance(n, ast.Call) and norm(n.func) == "row.get" and n.args and isinstance(n.args[0], ast.Constant):
                r.append(n.args[0].value)
        # order: outermost first
        return sorted(set(r), key=lambda c: norm(e).index(f"'{c}'"))

    for s in body:
        if isinstance(s, ast.Assign) and isinstance(s.targets[0], ast.Name):
            c = cols(s.value)
            if c:
                pre[s.targets[0].id] = c
            else:
                for nm in astq.names(s.value):
                    if nm in pre:
                        pre[s.targets[0].id] = pre[nm]
            if isinstance(s.value, ast.Dict) and s.targets[0].id == "atom_data":
                for k, v in zip(s.value.keys, s.value.values):
                    c = cols(v)
                    if not c:
                        for nm in astq.names(v):
                            if nm in pre:
                                c = pre[nm]
                    out[k.value] = c
    return out


def check_field_maps(chk) -> None:
    repo = chk.repo
    wp = repo.func(M, "write_pdb")
    wc = repo.func(M, "write_cif")
    chk.note_function(wc)
    # write_pdb, PDB branch: identity
    pdb = extract_atom_data(wp, "PDB")
    alias = key_alias(repo)
    bad = {k: v for k, v in pdb.items() if v != [alias.get(k, k)]}
    chk.expect(len(pdb) == 16 and not bad, "field-map-pdb", wp.where, "PDB rows: every atom_data field is read from the column of the same name", "write_pdb (PDB branch) reads a field from another column", K(wp, "pdb-branch"), found=bad or len(pdb))
    cif = extract_atom_data(wp, "mmCIF")
    bad = {}
    for k, srcs in cif.items():
        f = alias.get(k, k)
        allowed = PDB_TO_CIF.get(f, [])
        if not srcs or any(s not in allowed for s in srcs):
            bad[k] = srcs
        # author items preferred where both exist
        if len(allowed) == 2 and srcs and not srcs[0].startswith("auth_"):
            bad[k] = srcs
    chk.expect(len(cif) == 16 and not bad, "field-map-cif-to-pdb", wp.where, "mmCIF rows: every PDB field is read from its own item(s), author items first", "write_pdb (mmCIF branch) reads a PDB field from the wrong atom_site item", K(wp, "cif-branch"), expected={k: PDB_TO_CIF.get(alias.get(k, k)) for k in bad}, found=bad)
    # write_cif PDB branch: attributes aligned with row_data
    attrs = None
    rows = None
    for s in ast.walk(wc.node):
        if isinstance(s, ast.Assign) and norm(s.targets[0]) == "attributes" and isinstance(s.value, ast.List) and len(s.value.elts) > 5:
            attrs = [e.value for e in s.value.elts]
        if isinstance(s, ast.Assign) and norm(s.targets[0]) == "row_data" and isinstance(s.value, ast.List) and len(s.value.elts) > 5:
            rows = s.value.elts
    if attrs is None or rows is None:
        raise AnalysisError("write_cif: attribute list / row list of the PDB branch not found")
    chk.expect(len(attrs) == len(rows) == 21, "field-map-pdb-to-cif", wc.where, "21 attributes and 21 values per row", f"{len(attrs)} attributes but {len(rows)} row values: columns shift", K(wc, "lengths"))
    pre = {}
    for s in ast.walk(wc.node):
        if isinstance(s, ast.Assign) and isinstance(s.targets[0], ast.Name) and s.targets[0].id.endswith(("_val", "_num", "_id")):
            cols = [n.slice.value for n in ast.walk(s.value) if isinstance(n, ast.Subscript) and norm(n.value) == "row" and isinstance(n.slice, ast.Constant)]
            cols += [n.args[0].value for n in ast.walk(s.value) if isinstance(n, ast.Call) and norm(n.func) == "row.get" and n.args and isinstance(n.args[0], ast.Constant)]
            if cols and s.targets[0].id not in pre:
                pre[s.targets[0].id] = sorted(set(cols))
    bad = {}
    for a, v in zip(attrs, rows):
        cols = sorted({n.slice.value for n in ast.walk(v) if isinstance(n, ast.Subscript) and norm(n.value) == "row" and isinstance(n.slice, ast.Constant)})
        if not cols and isinstance(v, ast.Name):
            cols = pre.get(v.id, [])
        want = [f for f, items in PDB_TO_CIF.items() if a in items]
        if a == "label_entity_id":
            if cols:
                bad[a] = cols
            continue
        if cols != want:
            bad[a] = cols
    chk.expect(not bad, "field-map-pdb-to-cif", wc.where, "every mmCIF item of the PDB branch is filled from its own PDB column", "write_cif (PDB branch) fills an item from the wrong PDB column: the cross path PDB->mmCIF->PDB permutes fields", K(wc, "alignment"), found=bad)
    fmts = {a: norm(v) for a, v in zip(attrs, rows)}
    ok = all(fmts.get(a, "").endswith(":.3f}'") for a in ("Cartn_x", "Cartn_y", "Cartn_z")) and all(fmts.get(a, "").endswith(":.2f}'") for a in ("occupancy", "B_iso_or_equiv"))
    chk.expect(ok, "numeric-format", wc.where, "mmCIF: coordinates .3f, occupancy and B .2f", "mmCIF numeric precision changed (coordinates .3f, occupancy/B .2f)", K(wc, "precision"))
    # mmCIF branch of write_cif: every column written as text that reads back as the same value, missing -> '?'
    _cif_branch(chk, wc)
    # placeholders written are nulls for the reader
    ph = {s.value.body.value for s in ast.walk(wc.node) if isinstance(s, ast.Assign) and isinstance(s.value, ast.IfExp) and "pd.isna" in norm(s.value.test) and isinstance(s.value.body, ast.Constant)}
    chk.expect(ph <= {"?", "."}, "null-agreement", wc.where, f"placeholders written {sorted(ph)} are mapped to None by parse_cif_atoms", f"placeholder(s) {sorted(ph - {'?', '.'})} are not null markers for the reader", K(wc, "placeholders"))
    # charge domain: PDB digit+sign -> mmCIF integer; the fragment from `charge_val = ...` to the row list evaluated per class of charge
    from sa.blockeval import BlockEval, Unknown

    ok = False
    found = {}
    blk = None
    for n in ast.walk(wc.node):
        for fld in ("body", "orelse"):
            b = getattr(n, fld, None)
            if isinstance(b, list) and any(isinstance(x, ast.Assign) and norm(x.targets[0]) == "charge_val" for x in b) and any(isinstance(x, ast.Assign) and norm(x.targets[0]) == "row_data" for x in b):
                blk = b
    if blk is None:
        chk.error("value-domain", wc.where, "charge conversion fragment of write_cif (PDB branch) not found")
    else:
        i0 = min(k for k, x in enumerate(blk) if isinstance(x, ast.Assign) and norm(x.targets[0]) == "charge_val")
        i1 = max(k for k, x in enumerate(blk) if isinstance(x, ast.Assign) and norm(x.targets[0]) == "row_data")
        frag = blk[i0:i1]
        wants = (("1+", "1"), ("2-", "-2"), ("3+", "3"), (None, "."), ("1-", "-1"))
        try:
            for val, want in wants:
                ev = BlockEval(repo, M, {"row": {"charge": val}})
                ev.run(frag)
                found[repr(val)] = ev.env.get("charge_val")
            ok = all(found[repr(v)] == w for v, w in wants)
        except Unknown as ex:
            chk.error("value-domain", wc.where, f"charge conversion not evaluable: {ex}")
            found = None
        except Exception as ex:
            found = {"raises": f"{type(ex).__name__}: {ex}"}
    rd = repo.func(M, "parse_cif_atoms")
    ints = None
    for s in ast.walk(rd.node):
        if isinstance(s, ast.Assign) and norm(s.targets[0]) == "int_cols":
            ints = Folder(repo, M).try_fold(s.value)
    if found is not None:
      chk.expect(ok and ints is not None and "pdbx_formal_charge" in ints, "value-domain", wc.where, "PDB charges (2+, 1-) are converted to the integers the mmCIF reader types pdbx_formal_charge as", "pdbx_formal_charge, which the mmCIF reader types Int64, is filled with the PDB digit+sign string: charges are lost on PDB->mmCIF->PDB", K(wc, "charge-domain"), expected={"1+": "1", "2-": "-2"}, found=found)


def _cif_branch(chk, wc: FuncInfo) -> None:
    """The mmCIF->mmCIF row conversion evaluated on one representative per class of cell value."""
    from sa.blockeval import BlockEval, Unknown

    repo = chk.repo
    br = [s2 for s2 in ast.walk(wc.node) if isinstance(s2, ast.If) and norm(s2.test) == "format_type == 'mmCIF'" and any(isinstance(n, ast.Name) and n.id == "row_data" for b in s2.body for n in ast.walk(b))]
    a2 = [s2 for s2 in ast.walk(wc.node) if isinstance(s2, ast.Assign) and norm(s2) in ("attributes = list(df.columns)", "attributes = df.columns.tolist()", "attributes = [*df.columns]")]
    if len(br) != 1 or len(a2) != 1:
        if len(a2) != 1 and len(br) == 1:
            chk.violation("cif-to-cif-form", wc.where, "the mmCIF->mmCIF path does not write every column of the frame (attributes = list(df.columns))", K(wc, "cif-branch"))
        else:
            chk.error("cif-to-cif", wc.where, "mmCIF branch of the row loop / attribute list not found")
        return
    frag = br[0].body
    cells = [("ATOM", "ATOM"), (17, "17"), (-3, "-3"), (100.0, 100.0), (10.0, 10.0), (0.5, 0.5), (-12.125, -12.125), (0.0, 0.0), (30.0, 30.0), ("O5'", "O5'"), (None, "?"), (float("nan"), "?")]
    bad = {}
    try:
        for v, want in cells:
            row = {"c": v}
            ev = BlockEval(repo, M, {"row": row, "attributes": ["c"], "row_data": None})
            ev.run(frag)
            out = ev.env.get("row_data")
            if not (isinstance(out, list) and len(out) == 1):
                bad[repr(v)] = out
                continue
            got = out[0]
            if isinstance(want, float):
                try:
                    ok = isinstance(got, str) and abs(float(got) - want) < 5e-7
                except ValueError:
                    ok = False
            else:
                ok = got == want
            if not ok:
                bad[repr(v)] = got
        chk.expect(
            not bad,
            "cif-to-cif",
            wc.site(br[0]),
            f"mmCIF rows are written column by column: text that reads back as the same value, missing values as '?' ({len(cells)} classes of cell evaluated)",
            "the mmCIF->mmCIF path writes " + ", ".join(f"{k} as `{g}`" for k, g in list(bad.items())[:4]) + ": the value read back differs from the value in the table",
            K(wc, "cif-branch"),
            found=bad,
        )
    except Unknown as ex:
        chk.error("cif-to-cif", wc.site(br[0]), f"mmCIF branch not evaluable: {ex}")
    except Exception as ex:
        chk.violation("cif-to-cif", wc.site(br[0]), f"the mmCIF branch raises {type(ex).__name__} ({ex}) for one of the cell classes", K(wc, "cif-branch-raises"))


def _eval_block(repo, stmts, loc):
    f = lambda: Folder(repo, M, loc)
    for s in stmts:
        if isinstance(s, ast.Assign) and isinstance(s.targets[0], ast.Name):
            v = f().try_fold(s.value)
            if v is not None:
                loc[s.targets[0].id] = v
        elif isinstance(s, ast.If):
            t = f().try_fold(s.test)
            if t is None:
                continue
            _eval_block(repo, s.body if t else s.orelse, loc)
    return loc


def check_reader(chk) -> None:
    from checks import c15

    c15.check_reader_agreement(chk)
    repo = chk.repo
    fi = repo.func(M, "parse_pdb_atoms")
    num = cat = None
    for s in ast.walk(fi.node):
        if isinstance(s, ast.Assign) and norm(s.targets[0]) == "numeric_columns":
            num = Folder(repo, M).try_fold(s.value)
        if isinstance(s, ast.Assign) and norm(s.targets[0]) == "categorical_columns":
            cat = Folder(repo, M).try_fold(s.value)
    typed = None
    try:
        # the typing decided on the table the interpreted reader returns for a fully populated atom line
        from checks import c08e as _c08e
        from sa.frame import isna as _isna

        _sp = spec("pdb_columns.json")
        _t = _c08e.V2Reader(repo).read([_c08e.pdb_line(_sp, "ATOM", _c08e.ATOM_FIELDS)])
        if len(_t.index) == 1:
            row = {c: _t._cols[c][0] for c in _t._cols}
            want_num = {"serial": int, "resSeq": int, "model": int, "x": float, "y": float, "z": float, "occupancy": float, "tempFactor": float}
            typed = {c: type(row.get(c)).__name__ for c in list(want_num) + ["record_type", "name", "altLoc", "resName", "chainID", "iCode", "element", "charge"]}
            bad_t = {c: typed[c] for c, ty in want_num.items() if not isinstance(row.get(c), (int, float)) or isinstance(row.get(c), bool) or (ty is int and float(row[c]) != int(row[c]))}
            bad_t.update({c: typed[c] for c in ("record_type", "name", "altLoc", "resName", "chainID", "iCode", "element", "charge") if not isinstance(row.get(c), str)})
            chk.robust.add("reader-types")
            chk.expect(not bad_t, "reader-types", fi.where, "evaluated: serial, residue number and model come back as integers, coordinates, occupancy and B as numbers, the other fields as text", f"the reader types PDB columns wrongly: {bad_t}", K(fi, "types"), found=bad_t)
    except Exception:
        typed = None
    if typed is None:
      chk.expect(num == ["serial", "resSeq", "x", "y", "z", "occupancy", "tempFactor", "model"] and cat == ["record_type", "name", "altLoc", "resName", "chainID", "element", "charge"], "reader-types", fi.where, "numeric and categorical PDB columns as declared", "the typing of PDB columns changed (numeric/categorical lists)", K(fi, "types"))
    # blank optional fields: the line loop evaluated on an ATOM line whose optional fields are blank
    from checks import c08e
    from sa.blockeval import Unknown

    sp = spec("pdb_columns.json")
    optional = ("altLoc", "iCode", "element", "charge")
    try:
        blank = c08e.pdb_line(sp, "ATOM", {k: v for k, v in c08e.ATOM_FIELDS.items() if k not in optional})
        rec, _ = c08e.v2_decode(repo, blank)
        full, _ = c08e.v2_decode(repo, c08e.pdb_line(sp, "ATOM", c08e.ATOM_FIELDS))
        if rec is None or full is None:
            chk.violation("null-agreement", fi.where, "an ATOM line with blank optional fields is not decoded at all", K(fi, "blank-none"))
        else:
            bad = {k: rec.get(k, "<absent>") for k in optional if rec.get(k, "<absent>") is not None}
            lost = {k: full.get(k) for k in optional if full.get(k) in (None, "")}
            chk.expect(not bad and not lost, "null-agreement", fi.where, "evaluated: blank optional PDB fields (altLoc, iCode, element, charge) read as None, filled ones as their text", f"blank optional PDB fields are not read as None: {bad}" if bad else f"filled optional fields are lost: {lost}", K(fi, "blank-none"), found=bad or lost)
    except Unknown:
        opt = {}
        for s in ast.walk(fi.node):
            if isinstance(s, ast.Dict):
                for k, v in zip(s.keys, s.values):
                    if isinstance(k, ast.Constant) and isinstance(v, ast.IfExp):
                        opt[k.value] = norm(v)
        if sorted(opt) == ["altLoc", "charge", "element", "iCode"] and all(v.startswith("None if not ") for v in opt.values()):
            chk.ok("null-agreement", fi.where, "blank optional PDB fields (altLoc, iCode, element, charge) read as None")
        else:
            chk.error("null-agreement", fi.where, "how blank optional PDB fields are read could not be established (line loop not evaluable, pinned form not found)")


REORDERING = {"sort_values", "sort_index", "sample", "reindex", "nlargest", "nsmallest", "sort", "reverse"}


def check_row_order(chk) -> None:
    """The writers emit the rows in the order of the table: nothing on the way from the parameter to the row loop reorders it.
    write_pdb is also evaluated on tables in no particular order (c09e); for write_cif, whose body builds mmcif library objects,
    this reading of the calls made on the table (the parameter and the names it is assigned to) is the decision."""
    repo = chk.repo
    chk.robust.add("row-order")
    for name in ("write_pdb", "write_cif"):
        if not repo.has_func(M, name):
            continue
        fi = repo.func(M, name)
        if not fi.node.args.args:
            continue
        tables = {fi.node.args.args[0].arg}
        changed = True
        while changed:
            changed = False
            for st in astq.walk_no_nested(fi.node):
                if isinstance(st, ast.Assign) and len(st.targets) == 1 and isinstance(st.targets[0], ast.Name) and st.targets[0].id not in tables:
                    root = st.value
                    while isinstance(root, (ast.Call, ast.Attribute, ast.Subscript)):
                        root = root.func if isinstance(root, ast.Call) else root.value
                    if isinstance(root, ast.Name) and root.id in tables and not (isinstance(st.value, ast.Call) and isinstance(st.value.func, ast.Attribute) and st.value.func.attr in ("get", "iterrows", "itertuples", "to_dict", "tolist", "unique", "max", "min")):
                        tables.add(st.targets[0].id)
                        changed = True
        bad = []
        for c in astq.walk_no_nested(fi.node):
            if isinstance(c, ast.Call) and isinstance(c.func, ast.Attribute) and c.func.attr in REORDERING:
                root = c.func.value
                while isinstance(root, (ast.Call, ast.Attribute, ast.Subscript)):
                    root = root.func if isinstance(root, ast.Call) else root.value
                if isinstance(root, ast.Name) and root.id in tables and not (isinstance(c.func.value, ast.Attribute) and c.func.value.attr == "columns"):
                    bad.append(c)
            elif isinstance(c, ast.Subscript) and isinstance(c.slice, ast.Slice) and c.slice.step is not None and isinstance(c.slice.step, ast.UnaryOp) and isinstance(c.value, ast.Attribute) and c.value.attr in ("iloc", "loc") and isinstance(c.value.value, ast.Name) and c.value.value.id in tables:
                bad.append(c)
        if bad:
            chk.violation("row-order", fi.site(bad[0]), f"`{norm(bad[0])[:80]}` reorders the table before its rows are written: unless the rows happen to be in that order already, the file holds a permutation of the table (record positions and serial order change), and reading it back does not give the table that was written", K(fi, "row-order"))
        else:
            chk.ok("row-order", fi.where, f"{name}: the rows are written in the order of the table (no sort / sample / reindex / reversal of the table or of a table derived from it)")


class _Relabel:
    """A view of the check that records a sibling property's rule under this property's rule id (only the listed rules)."""

    def __init__(self, chk, rules: Dict[str, str]):
        self._chk, self._rules = chk, rules
        self.repo, self.robust = chk.repo, chk.robust

    def _r(self, rule: str) -> Optional[str]:
        return self._rules.get(rule)

    def note_function(self, fi) -> None:
        self._chk.note_function(fi)

    def ok(self, rule, site, detail):
        if self._r(rule):
            self._chk.ok(self._r(rule), site, detail)

    def error(self, rule, site, detail):
        if self._r(rule):
            self._chk.error(self._r(rule), site, detail)

    def violation(self, rule, site, detail, key, expected=None, found=None):
        if self._r(rule):
            self._chk.violation(self._r(rule), site, detail, key, expected=expected, found=found)

    def expect(self, cond, rule, site, detail_ok, detail_bad, key, expected=None, found=None):
        if self._r(rule):
            return self._chk.expect(cond, self._r(rule), site, detail_ok, detail_bad, key, expected=expected, found=found)
        return bool(cond)


def _cross_path_fit(chk) -> None:
    """The cross path mmCIF -> PDB of the observation point goes through fit_to_pdb, which leaves a table alone exactly when
    can_write_pdb accepts it.  "Identity whenever the data fit PDB field widths" therefore needs the fit test to accept every table
    within the widths of the writer's fields (a stricter test sends a fitting table into the renumbering: serials, chains, numbers change)
    and to reject every other one (over-wide fields).  Decided by C10's reading of can_write_pdb (paths, limits against the folded widths)."""
    from checks import c10

    chk.robust.add("cross-path-fit")
    try:
        c10.check_can_write(_Relabel(chk, {"fit-test": "cross-path-fit"}))
    except AnalysisError:
        raise
    except Exception as ex:
        chk.error("cross-path-fit", "-", f"reading of can_write_pdb failed internally ({type(ex).__name__}: {str(ex)[:60]})")


def check_splitter(chk) -> None:
    """splitter.main (observe point): every model goes through fit_to_pdb -> write_pdb, or write_cif, with the input's format tag."""
    repo = chk.repo
    fi = repo.func("splitter", "main")
    chk.note_function(fi)
    from checks import c10w

    # facts read along the paths to the writers (whatever the shape of the decision): fitted before written as PDB, split by the
    # model column, every group tagged with the input format; the pinned form below is the fallback when the paths are not readable
    decided = False
    try:
        decided = c10w.check_fit_before_write(chk, [("splitter", "main")]) and c10w.check_split_by_model(chk)
    except AnalysisError:
        raise
    except Exception as ex:
        chk.ok("write-paths", fi.where, f"path reading of splitter.main failed internally ({type(ex).__name__}: {str(ex)[:60]}): the pinned form decides")
    _cross_path_fit(chk)
    if decided:
        return
    loops = [l for l in ast.walk(fi.node) if isinstance(l, ast.For) and norm(l.iter) == "grouped_by_model"]
    gb = astq.first_assign(fi.node, "grouped_by_model")
    ok = len(loops) == 1 and gb is not None and norm(gb) == "atoms_df.groupby(model_column)"
    if ok:
        t = norm(loops[0])
        ok = "model_df.attrs['format'] = input_format" in t and "df_to_write = fit_to_pdb(model_df)" in t and "write_pdb(df_to_write, output_path)" in t and "write_cif(model_df, output_path)" in t
        br = [s for s in ast.walk(loops[0]) if isinstance(s, ast.If) and norm(s.test) == "output_format == 'PDB'"]
        ok = ok and any(flat(b.body) == flat("df_to_write = fit_to_pdb(model_df)write_pdb(df_to_write, output_path)") or [flat(x) for x in b.body] == [flat("df_to_write = fit_to_pdb(model_df)"), flat("write_pdb(df_to_write, output_path)")] for b in br)
    mc = {norm(s.value) for s in ast.walk(fi.node) if isinstance(s, ast.Assign) and norm(s.targets[0]) == "model_column"}
    chk.expect(ok and mc == {"'pdbx_PDB_model_num'", "'model'"}, "splitter-wiring", fi.where, "each model (grouped by the format's model column) is tagged with the input format, fitted and written as PDB, or written as mmCIF", "splitter no longer writes every model through fit_to_pdb -> write_pdb / write_cif with the input's format tag", K(fi, "wiring"))


def run(chk) -> None:
    chk.explanation = (
        "Static rules on parser_v2.py: widths of the PDB line formatter (format specs, ljust/rjust, literal gaps) give a column layout that is compared field by field with the reader's slices "
        "and the wwPDB table, likewise MODEL and the three TER sites; the order of record emissions in write_pdb is read as a sequence of guarded writes and compared with the MODEL/TER/ENDMDL automaton; "
        "the PDB<->mmCIF field correspondence is extracted from write_pdb (both branches) and write_cif and compared with one reference map; value domain of the formal charge; null placeholders; precisions."
    )
    chk.trusted = ["CPython ast", "mmcif writer/reader quoting and tokenising", "pandas dtype coercions", "wwPDB column table"]
    chk.assumptions = ["data fit PDB field widths (the statement's precondition)"]
    chk.robust |= {"writer-layout", "writer-reader-columns", "charge-format", "cif-to-cif", "pdb-record-filter", "pdb-decode-v2", "pdb-slices-agree", "pdb-slices-v2", "value-domain", "null-agreement", "atom-data-keys"}
    from checks import c09e

    # the atom line: decided on the text write_pdb produces for probe rows; the abstract width reading of the formatter's f-strings
    # (formatter_layout / check_formatter_details) is the fallback when write_pdb is not evaluable
    lay = None
    try:
        lay = c09e.check_atom_line_eval(chk)
    except AnalysisError:
        raise
    except Exception as ex:
        chk.ok("atom-line-eval", "-", f"evaluation of the atom line failed internally ({type(ex).__name__}: {str(ex)[:60]}): the abstract width reading decides")
    if lay is None:
        formatter_layout(chk)
        check_formatter_details(chk)
    else:
        _writer_reader_columns(chk, lay)

    evaluated = False
    try:
        evaluated = c09e.check_write_pdb_eval(chk)  # record order, TER/MODEL lines and the write-read round trip, evaluated on representative tables
    except AnalysisError:
        raise
    except Exception as ex:
        chk.ok("write-pdb-eval", "-", f"evaluation of write_pdb failed internally ({type(ex).__name__}: {str(ex)[:60]}): the pinned-form rules decide")
    if not evaluated:
        check_other_lines(chk)
        check_record_order(chk)
    # the four round trips, every writer and reader interpreted; the reading of the pinned field tables (check_field_maps) is the fallback
    crossed = False
    try:
        crossed = c09e.check_cross_paths_eval(chk)
    except AnalysisError:
        raise
    except Exception as ex:
        chk.ok("cross-path-eval", "-", f"evaluation of the round trips failed internally ({type(ex).__name__}: {str(ex)[:60]}): the pinned-form rules decide")
    c09e.check_atom_data_keys(chk, evaluated=bool(crossed and evaluated))
    if crossed:
        from checks.c15 import _Decided

        try:
            check_field_maps(_Decided(chk, drop={"field-map-pdb", "field-map-pdb-to-cif", "field-map-cif-to-pdb", "cif-to-cif", "cif-to-cif-form", "numeric-format", "null-agreement"}, quiet={"value-domain"}))
        except AnalysisError:
            pass  # the pinned tables are not there any more; what they stood for was decided on the round trips
    else:
        check_field_maps(chk)
    check_reader(chk)
    check_row_order(chk)
    check_splitter(chk)
    for rule, n in (("writer-layout", 17), ("writer-reader-columns", 15), ("ter-line", 5), ("record-order", 6), ("field-map-pdb-to-cif", 2), ("field-map-cif-to-pdb", 1), ("value-domain", 1)):
        chk.floor(rule, n)
    from checks import w3cross

    w3cross.check(chk, "C09", untouched=(("parser_v2", "write_pdb"), ("parser_v2", "write_cif")))  # state that survives a call: shared memo results, module-level containers, arguments


MANIFEST_ENTRY = {
    "text": "Static writer/reader agreement on the current source of parser_v2.py: the PDB line formatter's column layout (derived from format specs and justification widths) equals the reader's slices and the wwPDB table for all 15 fields "
    "and adds up to 80; MODEL/TER lines likewise; write_pdb's guarded write sequence equals the MODEL/TER/ENDMDL/END automaton (TER before every ENDMDL and at every chain change); the three encodings of the PDB<->mmCIF field map agree; "
    "formal charge is converted between domains; written placeholders are nulls for the reader; precisions .3f/.2f. Column and mapping slips need particular value shapes to show in a round trip; here they are decided for all values. Since round 4 the four round trips, both parse_*_atoms and both writers are also interpreted as wholes on one table per input class (sa/frame.py: a pure-Python stand-in for the pandas objects, compared with pandas 2.2 by a script outside the checks), including values that are false as booleans and models numbered 999 / 9999.",
    "note": "Trusted: mmcif quoting/tokenising, pandas coercions. Not decided: values that overflow their width (excluded by the statement), end-to-end equality.",
    "technique": "static analysis: string-width abstract interpretation of the formatter, slice-table agreement, guarded-emission sequence vs record automaton, sibling agreement of field maps + whole-function evaluation of the ast on one table per input class over a pandas stand-in",
}
