"""C03 / C05 / C11 / C04 - fact-level reading of the KD-tree pair loops of annotator.py (find_pairs, find_stackings).

The pinned-form rules of checks/c03.py read statements in the shape they have at the reference commit (three parallel
dictionaries, `type_i = coordinates_type_map[coordinates[i]]`, two copy-pasted BPh/BR blocks, nested edge loops in both
branches of `if residue_i < residue_j`, two membership tests followed by two `add` calls ...).  The rules here decide
the same behaviour from facts computed on the current code with the symbolic path executor (sa/symexec.py):

  site model      what the residue loop registers per KD-tree point: the point itself, and for every dictionary keyed by
                  that point which of (atom, donor/acceptor type, residue) it stores - one dict per component or one dict
                  of tuples, built under if/else or guard clauses.  A look-up `D[points[i]]` in the pair loop is replaced
                  by the *role symbols* atom_i / type_i / residue_i (and _j), so every later test and record is read in
                  terms of roles whatever the locals are called and wherever the look-ups are hoisted to.
  contact paths   every path through the body of the pair loop with its decisions and effects in role terms: which
                  decisions precede each record (donor/acceptor, same-residue, unused atoms, acceptor lists, class found,
                  normals, angle window) and why a path that records nothing ends (closed world: any other reason is an
                  additional filter).
  label paths     every label added for one hydrogen bond: lower residue first, each residue with the element of its own
                  edge list, over the full product of the two edge lists (nested loops, itertools.product, comprehension).
  selection paths every candidate: reported iff enough contacts and both (residue, edge) keys free (`in`, `isdisjoint`),
                  keys claimed (`add`, `update`, `|=`) exactly by reported candidates, `break` only on a test that is
                  monotone along Counter.most_common().
"""
from __future__ import annotations

import ast
import copy
from dataclasses import dataclass, field
from typing import Any, Dict, List, Optional, Sequence, Set, Tuple

from sa import astq
from sa import symexec as SX
from checks import c03v
from sa.consteval import Folder
from sa.defuse import Inliner
from sa.model import AnalysisError, FuncInfo, norm


class NotReadable(Exception):
    """The fact-level reading is impossible on this code (the pinned-form rules are used instead)."""


def K(fi: FuncInfo, what: str) -> str:
    return f"{fi.module.name}:{fi.qualname}:{what}"


SIDES = ("i", "j")


# ---------------------------------------------------------------------------------------------------------------------
# residue loop normalisation: `for r in [x for x in S.residues if C]` == `for r in S.residues: if not C: continue`
# ---------------------------------------------------------------------------------------------------------------------
def _rename(node: ast.AST, old: str, new: str) -> ast.AST:
    class R(ast.NodeTransformer):
        def visit_Name(self, n):
            return ast.copy_location(ast.Name(id=new, ctx=n.ctx), n) if n.id == old else n

    return R().visit(copy.deepcopy(node))


def normalise_source_loop(fi: FuncInfo, loop: ast.For) -> ast.For:
    """The loop with its iterable traced to the collection it walks over; filters of a comprehension / filter() / generator
    in between become leading `if not <cond>: continue` statements of the body."""
    inl = Inliner(fi.node)
    it = loop.iter
    skips: List[ast.stmt] = []
    tgt = loop.target
    for _ in range(4):
        if isinstance(it, ast.Name):
            d = inl.reaching(it.id, loop)
            if d is None or it.id in inl.mutated:
                break
            it = d
            continue
        if isinstance(it, ast.Call) and isinstance(it.func, ast.Name) and it.func.id in ("list", "tuple", "iter") and len(it.args) == 1 and not it.keywords:
            it = it.args[0]
            continue
        if isinstance(it, (ast.ListComp, ast.GeneratorExp)) and len(it.generators) == 1 and isinstance(it.generators[0].target, ast.Name) and isinstance(it.elt, ast.Name) and it.elt.id == it.generators[0].target.id and isinstance(tgt, ast.Name):
            g = it.generators[0]
            for c in g.ifs:
                cond = _rename(c, g.target.id, tgt.id)
                skips.append(ast.If(test=ast.UnaryOp(op=ast.Not(), operand=cond), body=[ast.Continue()], orelse=[]))
            it = g.iter
            continue
        if isinstance(it, ast.Call) and isinstance(it.func, ast.Name) and it.func.id == "filter" and len(it.args) == 2 and isinstance(it.args[0], ast.Lambda) and len(it.args[0].args.args) == 1 and isinstance(tgt, ast.Name):
            lam = it.args[0]
            cond = _rename(lam.body, lam.args.args[0].arg, tgt.id)
            skips.append(ast.If(test=ast.UnaryOp(op=ast.Not(), operand=cond), body=[ast.Continue()], orelse=[]))
            it = it.args[1]
            continue
        break
    if it is loop.iter and not skips:
        return loop
    new = ast.For(target=loop.target, iter=copy.deepcopy(it), body=skips + list(loop.body), orelse=list(loop.orelse), lineno=loop.lineno, col_offset=loop.col_offset)
    for s in skips:
        ast.copy_location(s, loop)
        for n in ast.walk(s):
            if not hasattr(n, "lineno"):
                ast.copy_location(n, loop)
    return ast.fix_missing_locations(new)


# ---------------------------------------------------------------------------------------------------------------------
# site model
# ---------------------------------------------------------------------------------------------------------------------
@dataclass
class Sites:
    fi: FuncInfo
    loop: ast.For  # the pair loop over kdtree.query_pairs(...)
    idx: Tuple[str, str]
    points: str  # list handed to KDTree(...)
    res_loop: ast.For  # normalised loop that registers the points
    res_var: str
    res_paths: List[SX.Path]
    point: Optional[ast.expr] = None  # substituted expression of the registered point
    atom: Optional[ast.expr] = None  # the atom whose position the point is (find_pairs)
    names_iter: Optional[ast.expr] = None  # iterable of the atom names (find_pairs)
    maps: Dict[str, Any] = field(default_factory=dict)  # dict name -> kind | [kind, ...]
    typing: List[Tuple[SX.Path, str]] = field(default_factory=list)  # (path, stored type constant)
    nonnull: Set[str] = field(default_factory=set)
    byvalue: Optional[Dict[str, Any]] = None  # registration read by value (checks/c03v.py) when the symbolic reading is impossible
    records: Dict[str, List[str]] = field(default_factory=dict)  # record constructor -> field names

    def rewrite(self, e: ast.expr) -> ast.expr:
        return _Roles(self).visit(e)


class _Roles(ast.NodeTransformer):
    def __init__(self, s: Sites):
        self.s = s

    def _side(self, e: ast.AST) -> Optional[str]:
        if isinstance(e, ast.Subscript) and isinstance(e.value, ast.Name) and e.value.id == self.s.points and isinstance(e.slice, ast.Name) and e.slice.id in self.s.idx:
            return SIDES[self.s.idx.index(e.slice.id)]
        if isinstance(e, ast.Name) and e.id in ("point_i", "point_j"):
            return e.id[-1]
        return None

    def visit_Subscript(self, n: ast.Subscript):
        if isinstance(n.value, ast.Name) and n.value.id in self.s.maps:
            side = self._side(n.slice)
            if side is not None:
                k = self.s.maps[n.value.id]
                if isinstance(k, tuple) and k[0] == "record":
                    return ast.Call(func=ast.Name(id=k[1], ctx=ast.Load()), args=[ast.Name(id=f"{x}_{side}", ctx=ast.Load()) if isinstance(x, str) else ast.Constant(value=None) for x in k[3]], keywords=[])
                if isinstance(k, list):
                    return ast.Tuple(elts=[ast.Name(id=f"{x}_{side}", ctx=ast.Load()) if isinstance(x, str) else ast.Constant(value=None) for x in k], ctx=ast.Load())
                return ast.Name(id=f"{k}_{side}", ctx=ast.Load())
        side = self._side(n)
        if side is not None:
            return ast.Name(id=f"point_{side}", ctx=ast.Load())
        self.generic_visit(n)
        # position of a record: _Point(a, k, r)[1] -> k
        if isinstance(n.value, ast.Call) and isinstance(n.value.func, ast.Name) and n.value.func.id in self.s.records and isinstance(n.slice, ast.Constant) and isinstance(n.slice.value, int) and 0 <= n.slice.value < len(n.value.args):
            return n.value.args[n.slice.value]
        return SX._simplify(n)

    def visit_Attribute(self, n: ast.Attribute):
        self.generic_visit(n)
        # field of a record: _Point(a, k, r).kind -> k
        if isinstance(n.value, ast.Call) and isinstance(n.value.func, ast.Name) and n.value.func.id in self.s.records:
            fields = self.s.records[n.value.func.id]
            if n.attr in fields and fields.index(n.attr) < len(n.value.args):
                return n.value.args[fields.index(n.attr)]
        return n


def _kd_points(fi: FuncInfo, loop: ast.For) -> str:
    recv = loop.iter.func.value if isinstance(loop.iter, ast.Call) and isinstance(loop.iter.func, ast.Attribute) else None
    if not isinstance(recv, ast.Name):
        raise NotReadable("the pair loop does not query a named KD-tree")
    defs = [v for s, v in astq.assignments(fi.node, recv.id) if v is not None]
    if len(defs) != 1 or not (isinstance(defs[0], ast.Call) and astq.callee_name(defs[0]) in ("KDTree", "cKDTree") and len(defs[0].args) >= 1 and isinstance(defs[0].args[0], ast.Name)):
        raise NotReadable(f"`{recv.id}` is not built once as KDTree(<list of points>)")
    return defs[0].args[0].id


def build_sites(fi: FuncInfo, loop: ast.For, repo=None) -> Sites:
    """Symbolic reading of the registration; by value (checks/c03v.py) when that is impossible and a repository is given."""
    try:
        return _build_sites_symbolic(fi, loop)
    except (NotReadable, SX.TooManyPaths) as ex:
        if repo is None:
            raise
        why = str(ex)
    try:
        return _build_sites_by_value(repo, fi, loop, why)
    except c03v.NotEvaluable as ex2:
        raise NotReadable(f"{why}; by value: {ex2}")


def _build_sites_by_value(repo, fi: FuncInfo, loop: ast.For, why: str) -> Sites:
    if not (isinstance(loop.target, ast.Tuple) and len(loop.target.elts) == 2 and all(isinstance(e, ast.Name) for e in loop.target.elts)):
        raise NotReadable("the pair loop does not unpack (i, j)")
    idx = (loop.target.elts[0].id, loop.target.elts[1].id)
    points = _kd_points(fi, loop)
    runs: Dict[str, Any] = {}
    maps: Dict[str, Any] = {}
    for L in c03v.LETTERS:
        res = c03v.ResStub(repo, L, model=1, tag=1)
        env = c03v.run_prefix(repo, fi, points, [res], None)
        pts = list(env[points])
        dicts = c03v.site_dicts(env, points)
        runs[L] = {"res": res, "points": pts, "dicts": dicts}
        for d, content in dicts.items():
            kinds = {repr(c03v.component_kind(v, res)) for v in content.values()}
            if len(kinds) != 1:
                raise c03v.NotEvaluable(f"`{d}` stores values of different kinds")
            k = c03v.component_kind(next(iter(content.values())), res)
            if k is None:
                continue
            if d in maps and repr(maps[d]) != repr(k):
                raise c03v.NotEvaluable(f"`{d}` stores values of different kinds for different bases")
            maps[d] = k
    if not maps:
        raise c03v.NotEvaluable("no dictionary keyed by the registered points after the registration")
    cand = [st for st in fi.node.body if isinstance(st, ast.For) and st is not loop and st.lineno < loop.lineno]
    rl = cand[0] if cand else loop
    s = Sites(fi, loop, idx, points, rl, rl.target.id if isinstance(rl.target, ast.Name) else "residue", [], nonnull=SX.nonnull_locals(fi.node))
    s.maps = maps
    for k in maps.values():
        if isinstance(k, tuple) and k[0] == "record":
            s.records[k[1]] = k[2]
    s.byvalue = {"runs": runs, "why": why}
    return s


def _build_sites_symbolic(fi: FuncInfo, loop: ast.For) -> Sites:
    if not (isinstance(loop.target, ast.Tuple) and len(loop.target.elts) == 2 and all(isinstance(e, ast.Name) for e in loop.target.elts)):
        raise NotReadable("the pair loop does not unpack (i, j)")
    idx = (loop.target.elts[0].id, loop.target.elts[1].id)
    points = _kd_points(fi, loop)
    nonnull = SX.nonnull_locals(fi.node)
    cands = []
    for st in fi.node.body:
        if st is loop:
            break
        if isinstance(st, ast.For) and any(isinstance(c, ast.Call) and isinstance(c.func, ast.Attribute) and c.func.attr == "append" and isinstance(c.func.value, ast.Name) and c.func.value.id == points for c in ast.walk(st)):
            cands.append(st)
    if len(cands) != 1:
        raise NotReadable(f"{len(cands)} loops register points in `{points}` before the KD-tree is built, expected one")
    rl = normalise_source_loop(fi, cands[0])
    if not isinstance(rl.target, ast.Name):
        raise NotReadable("the residue loop does not bind one name")
    paths = SX.run(rl.body, nonnull=nonnull)
    s = Sites(fi, loop, idx, points, rl, rl.target.id, paths, nonnull=nonnull)
    regs = [(p, e) for p in paths for e in p.effects if e.recv == points and e.method == "append" and e.args]
    if not regs:
        raise NotReadable(f"no path of the residue loop appends to `{points}`")
    pts = {norm(e.args[0]) for _, e in regs}
    if len(pts) != 1:
        raise NotReadable(f"the residue loop registers points of {len(pts)} different forms")
    pt = regs[0][1].args[0]
    s.point = pt
    if isinstance(pt, ast.Tuple) and len(pt.elts) == 3 and all(isinstance(e, ast.Attribute) for e in pt.elts) and [e.attr for e in pt.elts] == ["x", "y", "z"] and len({norm(e.value) for e in pt.elts}) == 1:
        s.atom = pt.elts[0].value
    elif isinstance(pt, ast.Attribute):
        s.atom = pt.value
    if s.atom is not None:
        for n in ast.walk(s.atom):
            it = SX.is_elem(n)
            if it is not None:
                s.names_iter = it
                break

    def kind(v: ast.expr) -> Any:
        if isinstance(v, ast.Name) and v.id == s.res_var:
            return "residue"
        if s.atom is not None and norm(v) == norm(s.atom):
            return "atom"
        if isinstance(v, ast.Constant) and isinstance(v.value, str):
            return "type"
        if isinstance(v, ast.Tuple):
            return [kind(x) for x in v.elts]
        return None

    for p, e in regs:
        for ef in p.effects:
            if ef.kind == "setitem" and norm(ef.args[0]) == norm(pt) and "[" not in ef.recv and "." not in ef.recv:
                k = kind(ef.args[1])
                if k is None or (isinstance(k, list) and any(x is None or isinstance(x, list) for x in k)):
                    continue
                if ef.recv in s.maps and s.maps[ef.recv] != k:
                    raise NotReadable(f"`{ef.recv}` stores values of different kinds")
                s.maps[ef.recv] = k
                consts = [ef.args[1]] if k == "type" else ([x for x, kk in zip(ef.args[1].elts, k) if kk == "type"] if isinstance(k, list) else [])
                for c in consts:
                    s.typing.append((p, ef, c.value))
    if not s.maps:
        raise NotReadable("no dictionary keyed by the registered point found")
    return s


# ---------------------------------------------------------------------------------------------------------------------
# evaluation helpers
# ---------------------------------------------------------------------------------------------------------------------
class _Res:
    def __init__(self, letter):
        self.one_letter_name = letter


class _ElemTo(ast.NodeTransformer):
    """Replace the generic element of an iterable by a constant."""

    def __init__(self, it_text: str, value: Any):
        self.it_text, self.value = it_text, value

    def visit_Call(self, n: ast.Call):
        it = SX.is_elem(n)
        if it is not None and norm(it) == self.it_text:
            return ast.Constant(value=self.value)
        self.generic_visit(n)
        return n


def fold_for(repo, module: str, e: ast.expr, env: Dict[str, Any]) -> Any:
    return Folder(repo, module, env).fold(ast.fix_missing_locations(copy.deepcopy(e)))


def passes_model_filter(path: SX.Path, res_var: str) -> Optional[bool]:
    """True: the path is taken only by residues of the requested model (or no model requested); False: only by residues of
    another model; None: the path does not decide the model."""
    none = path.value_of("model is None")
    eq = None
    for k, v, _ in path.conds:
        if k in (f"{res_var}.model == model", f"model == {res_var}.model"):
            eq = v
    if none is True or eq is True:
        return True
    if none is False and eq is False:
        return False
    return None


def check_model_filter(chk, fi: FuncInfo, rl: ast.For, res_var: str, paths: List[SX.Path], rule: str = "model-filter") -> None:
    acting = [p for p in paths if any(e.kind in ("call", "setitem") and not e.recv.startswith(("logging", "logger")) for e in p.effects)]
    undecided = [p for p in acting if passes_model_filter(p, res_var) is not True]
    if not acting:
        chk.error(rule, fi.site(rl), "no path of the residue loop registers anything")
        return
    if undecided:
        p = undecided[0]
        chk.violation(rule, fi.site(rl), f"a residue is registered on a path that has not established `model is None or {res_var}.model == model` (decisions: {p.describe()[:4]}): residues of other models take part", K(fi, "model-filter"))
    else:
        chk.ok(rule, fi.site(rl), f"residues of other models are skipped before anything is registered ({len(acting)} registering path(s), each after `model is None or {res_var}.model == model`)")


# ---------------------------------------------------------------------------------------------------------------------
# find_pairs: reading
# ---------------------------------------------------------------------------------------------------------------------
@dataclass
class PairsModel:
    sites: Sites
    paths: List[SX.Path]
    appended: List[str]  # lists appended to in the pair loop
    hb: Optional[str]
    bph: Optional[str]
    br: Optional[str]
    label_loop: Optional[ast.For]
    select_loop: Optional[ast.For]
    labels: Optional[str]


_cache: Dict[int, Any] = {}


def pairs_model(chk, fi: FuncInfo, loop: ast.For) -> PairsModel:
    key = id(fi.node)
    if key in _cache:
        r = _cache[key]
        if isinstance(r, Exception):
            raise r
        return r
    try:
        m = _pairs_model(chk, fi, loop)
    except (NotReadable, SX.TooManyPaths) as ex:
        _cache[key] = NotReadable(str(ex))
        raise _cache[key]
    _cache[key] = m
    return m


_norm_cache: Dict[int, FuncInfo] = {}


def normalised(fi: FuncInfo) -> FuncInfo:
    """A copy of the function for the rules that look at what is built after the loops: the function's own nested single-purpose
    helpers are inlined, a comprehension / generator over a literal tuple of alternatives is written out member by member, and
    `a, b = (X, Y)` becomes two assignments - `base_phosphates, base_riboses = ([...] for contacts, cls, enum in ((p, P, E), (r, R, F)))`
    reads like the two list comprehensions it stands for."""
    if id(fi.node) in _norm_cache:
        return _norm_cache[id(fi.node)]
    from sa.inline import inline_in_function

    node = copy.deepcopy(fi.node)
    helpers = {n.name: n for n in node.body if isinstance(n, ast.FunctionDef) and not n.decorator_list}
    if helpers:
        try:
            inline_in_function(node, helpers, None, [])
        except Exception:
            node = copy.deepcopy(fi.node)

    def expand(comp: ast.AST) -> Optional[List[ast.expr]]:
        if not isinstance(comp, (ast.GeneratorExp, ast.ListComp)) or len(comp.generators) != 1:
            return None
        g = comp.generators[0]
        if g.ifs or g.is_async or not isinstance(g.iter, (ast.Tuple, ast.List)) or len(g.iter.elts) > 6:
            return None
        out = []
        for x in g.iter.elts:
            env: Dict[str, ast.expr] = {}
            if isinstance(g.target, ast.Name):
                env[g.target.id] = x
            elif isinstance(g.target, ast.Tuple) and isinstance(x, ast.Tuple) and len(x.elts) == len(g.target.elts) and all(isinstance(t, ast.Name) for t in g.target.elts):
                env.update({t.id: v for t, v in zip(g.target.elts, x.elts)})
            else:
                return None
            out.append(SX.subst(comp.elt, env))
        return out

    def walk(block: List[ast.stmt]) -> List[ast.stmt]:
        res: List[ast.stmt] = []
        for st in block:
            for f in ("body", "orelse", "finalbody"):
                b = getattr(st, f, None)
                if isinstance(b, list) and b and isinstance(b[0], ast.stmt) and not isinstance(st, (ast.FunctionDef, ast.ClassDef)):
                    setattr(st, f, walk(b))
            if isinstance(st, ast.Assign) and len(st.targets) == 1 and isinstance(st.targets[0], ast.Tuple):
                vals = expand(st.value) if isinstance(st.value, (ast.GeneratorExp, ast.ListComp)) else (list(st.value.elts) if isinstance(st.value, ast.Tuple) else None)
                tg = st.targets[0].elts
                if vals is not None and len(vals) == len(tg) and all(isinstance(t, ast.Name) for t in tg):
                    used = {n.id for v in vals for n in ast.walk(v) if isinstance(n, ast.Name)}
                    if not (used & {t.id for t in tg}):  # no swap-like dependence between the two sides
                        for t, v in zip(tg, vals):
                            res.append(ast.fix_missing_locations(ast.copy_location(ast.Assign(targets=[t], value=v), st)))
                        continue
            res.append(st)
        return res

    node.body = walk(node.body)
    out = FuncInfo(fi.module, fi.qualname, node, fi.cls)
    _norm_cache[id(fi.node)] = out
    return out


def loopified(fi: FuncInfo) -> FuncInfo:
    """A copy of the function in which a pair "loop" written as comprehensions
         G = (E for i, j in tree.query_pairs(r))            P = [E for i, j in tree.query_pairs(r) if C]
         P = [v for v in G if v is not None]
    is the loop it stands for:  P = []; for i, j in tree.query_pairs(r): v = E; if not (v is not None): continue; P.append(v)."""
    def is_pairs(e: ast.AST) -> bool:
        return any(isinstance(c, ast.Call) and astq.callee_name(c) == "query_pairs" for c in ast.walk(e))

    node = copy.deepcopy(fi.node)
    body = list(node.body)
    gens: Dict[str, Tuple[int, ast.AST]] = {}
    for k, st in enumerate(body):
        if isinstance(st, (ast.Assign, ast.AnnAssign)) and st.value is not None and isinstance(st.value, (ast.GeneratorExp, ast.ListComp)) and len(st.value.generators) == 1 and is_pairs(st.value.generators[0].iter):
            t = st.targets[0] if isinstance(st, ast.Assign) else st.target
            if isinstance(t, ast.Name):
                gens[t.id] = (k, st.value)
    if not gens:
        return fi
    out: List[ast.stmt] = []
    changed = False
    drop = set()
    for k, st in enumerate(body):
        if k in drop:
            continue
        t = (st.targets[0] if isinstance(st, ast.Assign) else st.target) if isinstance(st, (ast.Assign, ast.AnnAssign)) and st.value is not None else None
        v = st.value if t is not None else None
        src = None
        elt = conds = var = None
        if isinstance(t, ast.Name) and isinstance(v, (ast.ListComp,)) and len(v.generators) == 1 and isinstance(v.generators[0].iter, ast.Name) and v.generators[0].iter.id in gens and isinstance(v.generators[0].target, ast.Name):
            src = gens[v.generators[0].iter.id]
            var, elt, conds = v.generators[0].target.id, v.elt, list(v.generators[0].ifs)
        elif isinstance(t, ast.Name) and isinstance(v, ast.Call) and isinstance(v.func, ast.Name) and v.func.id == "list" and len(v.args) == 1 and isinstance(v.args[0], ast.Name) and v.args[0].id in gens:
            src = gens[v.args[0].id]
            var, elt, conds = "_member", ast.Name(id="_member", ctx=ast.Load()), []
        if src is None:
            if isinstance(t, ast.Name) and t.id in gens and isinstance(v, ast.ListComp):
                # the comprehension itself is the collected list
                g = v.generators[0]
                loop_body: List[ast.stmt] = [ast.If(test=ast.UnaryOp(op=ast.Not(), operand=c), body=[ast.Continue()], orelse=[]) for c in g.ifs]
                loop_body.append(ast.Expr(value=ast.Call(func=ast.Attribute(value=ast.Name(id=t.id, ctx=ast.Load()), attr="append", ctx=ast.Load()), args=[v.elt], keywords=[])))
                new = [ast.Assign(targets=[ast.Name(id=t.id, ctx=ast.Store())], value=ast.List(elts=[], ctx=ast.Load())), ast.For(target=g.target, iter=g.iter, body=loop_body, orelse=[])]
                for n in new:
                    ast.copy_location(n, st)
                    ast.fix_missing_locations(n)
                # only when nothing else consumes it as a generator first
                consumers = [x for x in ast.walk(ast.Module(body=body[k + 1 :], type_ignores=[])) if isinstance(x, ast.Name) and x.id == t.id]
                if consumers and not any(isinstance(b2, (ast.Assign, ast.AnnAssign)) and b2.value is not None and isinstance(b2.value, ast.ListComp) and isinstance(b2.value.generators[0].iter, ast.Name) and b2.value.generators[0].iter.id == t.id for b2 in body[k + 1 :]):
                    out.extend(new)
                    changed = True
                    continue
            out.append(st)
            continue
        gk, g = src
        gg = g.generators[0]
        loop_body = [ast.If(test=ast.UnaryOp(op=ast.Not(), operand=c), body=[ast.Continue()], orelse=[]) for c in gg.ifs]
        loop_body.append(ast.Assign(targets=[ast.Name(id=var, ctx=ast.Store())], value=g.elt))
        loop_body += [ast.If(test=ast.UnaryOp(op=ast.Not(), operand=c), body=[ast.Continue()], orelse=[]) for c in conds]
        loop_body.append(ast.Expr(value=ast.Call(func=ast.Attribute(value=ast.Name(id=t.id, ctx=ast.Load()), attr="append", ctx=ast.Load()), args=[elt], keywords=[])))
        new = [ast.Assign(targets=[ast.Name(id=t.id, ctx=ast.Store())], value=ast.List(elts=[], ctx=ast.Load())), ast.For(target=gg.target, iter=gg.iter, body=loop_body, orelse=[])]
        for n in new:
            ast.copy_location(n, body[gk])
            for x in ast.walk(n):
                if not hasattr(x, "lineno"):
                    ast.copy_location(x, body[gk])
            ast.fix_missing_locations(n)
        out.extend(new)
        # the generator's own assignment goes away
        out = [o for o in out if o is not body[gk]]
        changed = True
    if not changed:
        return fi
    node.body = out
    return FuncInfo(fi.module, fi.qualname, node, fi.cls)


class _Subst(ast.NodeTransformer):
    def __init__(self, names: Dict[str, ast.expr]):
        self.names = names

    def visit_Name(self, n: ast.Name):
        r = self.names.get(n.id)
        if r is None:
            return n
        if isinstance(r, ast.Name):
            return ast.copy_location(ast.Name(id=r.id, ctx=n.ctx), n)
        return ast.copy_location(copy.deepcopy(r), n) if isinstance(n.ctx, ast.Load) else n


def _own_locals(fn: ast.FunctionDef) -> Set[str]:
    """Names bound in the scope of the function itself (parameters, assignment / loop / with targets; not comprehension variables)."""
    out = {a.arg for a in fn.args.args + fn.args.kwonlyargs}

    def walk(n: ast.AST):
        for c in ast.iter_child_nodes(n):
            if isinstance(c, (ast.ListComp, ast.SetComp, ast.DictComp, ast.GeneratorExp, ast.Lambda, ast.FunctionDef, ast.ClassDef)):
                continue
            if isinstance(c, ast.Name) and isinstance(c.ctx, ast.Store):
                out.add(c.id)
            walk(c)

    walk(fn)
    return out


def unfolded(repo, fi: FuncInfo) -> FuncInfo:
    """A copy of the function in which a *generator helper* it consumes is written at the place where it is consumed.

    A module-level generator function that the reference copy of the module does not have, called exactly once in the module -
    at the top level of this function, with plain names / constants as arguments - and without `return` is the loop it stands
    for: its body runs with the caller's values, every `yield v` adds v to the sequence the caller iterates.  The statement
        T = sorted(produce(points, by_point))
    reads   produce_items = []; <body of produce, `yield v` -> produce_items.append(v)>; T = sorted(produce_items)
    (a consumer that walks the sequence once in full sees the same members in the same order).  The fact rules then run on the
    loop where it lives."""
    helpers = new_helpers(repo, fi)
    gens = {q: f for q, f in helpers.items() if any(isinstance(n, (ast.Yield, ast.YieldFrom)) for n in ast.walk(f))}
    if not gens:
        return fi
    node = copy.deepcopy(fi.node)
    changed = False
    for _ in range(4):
        step = False
        for k, st in enumerate(list(node.body)):
            heads = [st.value] if isinstance(st, (ast.Assign, ast.AnnAssign, ast.Expr, ast.Return)) and st.value is not None else [st.iter] if isinstance(st, ast.For) else []
            calls = [c for h in heads for c in ast.walk(h) if isinstance(c, ast.Call) and isinstance(c.func, ast.Name) and c.func.id in gens]
            if len(calls) != 1:
                continue
            call = calls[0]
            g = gens[call.func.id]
            uses = sum(1 for f in fi.module.funcs.values() for n in ast.walk(f.node) if isinstance(n, ast.Name) and n.id == g.name and isinstance(n.ctx, ast.Load))
            if uses != 1:
                continue
            if any(isinstance(n, (ast.Return, ast.FunctionDef, ast.Lambda, ast.Global, ast.Nonlocal)) for b in g.body for n in ast.walk(b)):
                continue
            if g.args.vararg or g.args.kwarg or g.args.kwonlyargs or any(isinstance(a, ast.Starred) for a in call.args) or any(kw.arg is None for kw in call.keywords):
                continue
            # a yield used as an expression (send protocol) is not a plain producer
            plain = {id(b.value) for x in g.body for b in ast.walk(x) if isinstance(b, ast.Expr) and isinstance(b.value, (ast.Yield, ast.YieldFrom))}
            if any(isinstance(n, (ast.Yield, ast.YieldFrom)) and id(n) not in plain for b in g.body for n in ast.walk(b)):
                continue
            params = [a.arg for a in g.args.args]
            bound: Dict[str, ast.expr] = dict(zip(params, call.args))
            for kw in call.keywords:
                bound[kw.arg] = kw.value
            defaults = dict(zip(params[len(params) - len(g.args.defaults) :], g.args.defaults))
            for q in params:
                if q not in bound and q in defaults:
                    bound[q] = defaults[q]
            if set(bound) != set(params) or not all(isinstance(v, (ast.Name, ast.Constant)) for v in bound.values()):
                continue
            glocals = _own_locals(g) - set(params)
            # a parameter the helper re-binds would re-bind the caller's variable
            if any(isinstance(n, ast.Name) and isinstance(n.ctx, (ast.Store, ast.Del)) and n.id in params for b in g.body for n in ast.walk(b)):
                continue
            mine = _own_locals(node)
            acc = f"{g.name}_items"
            if acc in mine or acc in glocals:
                continue
            names: Dict[str, ast.expr] = dict(bound)
            for v in sorted(glocals & mine):
                new = f"{v}_{g.name}"
                if new in mine or new in glocals:
                    names = {}
                    break
                names[v] = ast.Name(id=new, ctx=ast.Load())
            if not names and (glocals & mine or params):
                continue
            body = [_Subst(names).visit(copy.deepcopy(b)) for b in g.body if not (isinstance(b, ast.Expr) and isinstance(b.value, ast.Constant))]

            class Y(ast.NodeTransformer):
                def visit_Expr(self, n: ast.Expr):
                    if isinstance(n.value, ast.Yield):
                        v = n.value.value if n.value.value is not None else ast.Constant(value=None)
                        return ast.copy_location(ast.Expr(value=ast.Call(func=ast.Attribute(value=ast.Name(id=acc, ctx=ast.Load()), attr="append", ctx=ast.Load()), args=[v], keywords=[])), n)
                    if isinstance(n.value, ast.YieldFrom):
                        return ast.copy_location(ast.Expr(value=ast.Call(func=ast.Attribute(value=ast.Name(id=acc, ctx=ast.Load()), attr="extend", ctx=ast.Load()), args=[n.value.value], keywords=[])), n)
                    return n

            body = [Y().visit(b) for b in body]
            init = ast.copy_location(ast.Assign(targets=[ast.Name(id=acc, ctx=ast.Store())], value=ast.List(elts=[], ctx=ast.Load())), st)

            class R(ast.NodeTransformer):
                def visit_Call(self, n: ast.Call):
                    if n is call:
                        return ast.copy_location(ast.Name(id=acc, ctx=ast.Load()), n)
                    self.generic_visit(n)
                    return n

            if isinstance(st, ast.For):
                st.iter = R().visit(st.iter)
            else:
                st.value = R().visit(st.value)
            new = [init] + body + [st]
            for n in new:
                ast.fix_missing_locations(n)
            node.body[k : k + 1] = new
            changed = step = True
            break
        if not step:
            break
    if not changed:
        return fi
    _inline_iteration_alias(node)
    return FuncInfo(fi.module, fi.qualname, node, fi.cls)


def _inline_iteration_alias(node: ast.FunctionDef) -> None:
    """`T = sorted(xs)` at the top level, T bound once and read once - as the sequence a later loop / comprehension walks, with
    nothing in between that touches xs - is that loop over `sorted(xs)`."""
    for k, st in enumerate(list(node.body)):
        if not (isinstance(st, ast.Assign) and len(st.targets) == 1 and isinstance(st.targets[0], ast.Name) and isinstance(st.value, ast.Call) and astq.callee_name(st.value) in ("sorted", "list", "tuple") and st.value.args and all(isinstance(a, ast.Name) for a in st.value.args)):
            continue
        t = st.targets[0].id
        occ = [n for n in ast.walk(node) if isinstance(n, ast.Name) and n.id == t]
        if len(occ) != 2:
            continue
        use = next(n for n in occ if isinstance(n.ctx, ast.Load)) if any(isinstance(n.ctx, ast.Load) for n in occ) else None
        if use is None or k + 1 >= len(node.body):
            continue
        nxt = node.body[k + 1]
        holders = [h for h in ast.walk(nxt) if (isinstance(h, ast.For) and h.iter is use) or (isinstance(h, ast.comprehension) and h.iter is use)]
        if len(holders) != 1 or (isinstance(holders[0], ast.For) and holders[0] is not nxt):
            continue
        if isinstance(holders[0], ast.comprehension) and not any(isinstance(c, (ast.ListComp, ast.SetComp, ast.GeneratorExp, ast.DictComp)) and c.generators[0] is holders[0] for c in ast.walk(nxt)):
            continue
        holders[0].iter = st.value
        node.body.remove(st)
        return


def constant_tuples(fi: FuncInfo, before: ast.AST) -> Dict[str, ast.expr]:
    """Locals bound once, at the top level of the function before `before`, to a tuple display (immutable): a dispatch table
    written ahead of the loop that walks over it reads like the literal it is."""
    out: Dict[str, ast.expr] = {}
    for st in fi.node.body:
        if st is before:
            break
        if isinstance(st, (ast.Assign, ast.AnnAssign)) and st.value is not None and isinstance(st.value, ast.Tuple):
            t = st.targets[0] if isinstance(st, ast.Assign) else st.target
            if isinstance(t, ast.Name) and len(astq.assignments(fi.node, t.id)) == 1:
                out[t.id] = copy.deepcopy(st.value)
    return out


def new_helpers(repo, fi: FuncInfo) -> Dict[str, ast.FunctionDef]:
    """Module-level functions that the reference copy of the module does not have and that were not inlined into their callers
    (a `return` inside a loop ...): their calls are executed symbolically with the caller's values."""
    ref = getattr(repo, "reference", {}).get(fi.module.name)
    out = {}
    for q, f in fi.module.funcs.items():
        if "." in q or f.node is fi.node or f.decorators:
            continue
        if ref is not None and q in ref.funcs:
            continue
        out[q] = f.node
    return out


def _pairs_model(chk, fi: FuncInfo, loop: ast.For) -> PairsModel:
    sites = build_sites(fi, loop, chk.repo)
    for need in ("atom", "type", "residue"):
        have = [k for v in sites.maps.values() for k in (v[3] if isinstance(v, tuple) and v[0] == "record" else (v if isinstance(v, list) else [v]))]
        if need not in have:
            raise NotReadable(f"no dictionary keyed by the point stores the {need} of a site")
    ex = SX.Executor(nonnull=sites.nonnull, rewrite=lambda e: idioms(sites.rewrite(e)), helpers=new_helpers(chk.repo, fi))
    paths = ex.run(loop.body, constant_tuples(fi, loop))
    # lists the pair loop appends to: a local list, or a member of a local dict of lists (`contacts[kind].append(...)`)
    appended = sorted({e.recv for p in paths for e in p.effects if e.method == "append" and e.kind == "call" and e.recv.split("[")[0] in sites.nonnull and "." not in e.recv})
    # classification of the three stores by what consumes them
    bph = br = hb = None
    label_loop = select_loop = None
    labels = None
    body = fi.node.body
    k_loop = body.index(loop) if loop in body else len(body)
    after = normalised(fi).node.body[k_loop + 1 :]  # same top-level positions up to the loop: the copy only rewrites statements, it splits some after it
    for st in ast.walk(ast.Module(body=list(after), type_ignores=[])):
        if isinstance(st, ast.Call) and astq.callee_name(st) == "merge_and_clean_bph_br" and st.args:
            # the list handed over: merge_and_clean_bph_br(sorted(X)) / (X) - by the consumer, whether or not the loop ever appends to it
            arg = st.args[0]
            if isinstance(arg, ast.Call) and isinstance(arg.func, ast.Name) and arg.func.id in ("sorted", "list", "reversed", "set") and len(arg.args) == 1:
                arg = arg.args[0]
            if not (isinstance(arg, ast.Name) or (isinstance(arg, ast.Subscript) and isinstance(arg.value, ast.Name))):
                continue
            if (arg.id if isinstance(arg, ast.Name) else arg.value.id) not in sites.nonnull:
                continue
            names = [norm(arg)]
            # which constructor consumes the result
            tgt = None
            for a in after:
                if isinstance(a, (ast.Assign, ast.AnnAssign)) and a.value is not None and any(x is st for x in ast.walk(a.value)):
                    t = a.targets[0] if isinstance(a, ast.Assign) else a.target
                    if isinstance(t, ast.Name):
                        tgt = t.id
            cons = set()
            for a in after:
                if isinstance(a, (ast.For, ast.Assign, ast.AnnAssign, ast.Return, ast.Expr)):
                    uses = any(isinstance(n, ast.Name) and n.id == tgt for n in ast.walk(a)) if tgt else any(x is st for x in ast.walk(a))
                    if uses:
                        cons |= ({astq.callee_name(c) for c in ast.walk(a) if isinstance(c, ast.Call)} | {n.id for n in ast.walk(a) if isinstance(n, ast.Name)}) & {"BasePhosphate", "BaseRibose"}
            if cons == {"BasePhosphate"}:
                bph = names[0]
            elif cons == {"BaseRibose"}:
                br = names[0]
    for st in after:
        if isinstance(st, ast.For) and isinstance(st.iter, ast.Name) and st.iter.id in appended and st.iter.id not in (bph, br):
            hb = st.iter.id
            label_loop = st
            break
    nbody = normalised(fi).node
    for st in after:
        if isinstance(st, ast.For) and isinstance(st.iter, ast.Call) and astq.callee_name(st.iter) == "most_common":
            select_loop = st
        elif isinstance(st, ast.For):
            # for x in takewhile(lambda item: P(item), C.most_common())  ==  for x in C.most_common(): if not P(x): break
            it = st.iter
            if isinstance(it, ast.Name):
                d = [v for s2, v in astq.assignments(nbody, it.id) if v is not None]
                it = d[0] if len(d) == 1 else it
            if isinstance(it, ast.Call) and astq.callee_name(it) == "takewhile" and len(it.args) == 2 and isinstance(it.args[0], ast.Lambda) and len(it.args[0].args.args) == 1 and isinstance(it.args[1], ast.Call) and astq.callee_name(it.args[1]) == "most_common":
                lam = it.args[0]
                tgt_load = copy.deepcopy(st.target)
                for x in ast.walk(tgt_load):
                    if hasattr(x, "ctx"):
                        x.ctx = ast.Load()
                cond = SX.subst(lam.body, {lam.args.args[0].arg: tgt_load})
                guard = ast.If(test=ast.UnaryOp(op=ast.Not(), operand=cond), body=[ast.Break()], orelse=[])
                new = ast.For(target=st.target, iter=copy.deepcopy(it.args[1]), body=[guard] + list(st.body), orelse=[])
                ast.copy_location(new, st)
                for x in ast.walk(guard):
                    ast.copy_location(x, st)
                select_loop = ast.fix_missing_locations(new)
    if label_loop is not None:
        lp = [c.func.value.id for c in ast.walk(label_loop) if isinstance(c, ast.Call) and isinstance(c.func, ast.Attribute) and c.func.attr in ("append", "extend") and isinstance(c.func.value, ast.Name) and c.func.value.id in sites.nonnull]
        if len(set(lp)) == 1:
            labels = lp[0]
    return PairsModel(sites, paths, appended, hb, bph, br, label_loop, select_loop, labels)


# ---------------------------------------------------------------------------------------------------------------------
# find_pairs: contact rules (shared by C03, C05, C11)
# ---------------------------------------------------------------------------------------------------------------------
def _both(fmt: str) -> Set[str]:
    return {fmt.format(a="i", b="j"), fmt.format(a="j", b="i")}


SAME_TYPE = _both("type_{a} == type_{b}")
SAME_LABEL = _both("atom_{a}.label == atom_{b}.label")
SAME_AUTH = _both("atom_{a}.auth == atom_{b}.auth")
NO_NORMAL = {"residue_i.base_normal_vector is None", "residue_j.base_normal_vector is None"}


def _records(p: SX.Path, stores: Sequence[Optional[str]]) -> List[SX.Effect]:
    return [e for e in p.effects if e.kind == "call" and e.method == "append" and e.recv in stores]


def _decided_before(p: SX.Path, keys: Set[str], ef: SX.Effect, value: bool) -> bool:
    """A condition of `keys` took `value` on the path before effect `ef` happened."""
    pos = None
    for k, (kind, i) in enumerate(p.events):
        if kind == "effect" and p.effects[i] is ef:
            pos = k
            break
    for k, (kind, i) in enumerate(p.events):
        if pos is not None and k > pos:
            break
        if kind == "cond" and p.conds[i][0] in keys and p.conds[i][1] == value:
            return True
    return False


def _absent_before(p: SX.Path, attr: str, ef: SX.Effect) -> bool:
    """`atom_x.<attr> is None` was found true before the effect: the identity is absent, nothing to compare."""
    return _decided_before(p, {f"atom_i.{attr} is None", f"atom_j.{attr} is None"}, ef, True)


def identity_compares(paths: List[SX.Path]) -> List[Tuple[str, ast.AST, Set[str]]]:
    """Equality tests between the same attribute chain of the two sites: [(text, node, compared leaf attribute)]."""
    out = {}
    for p in paths:
        for k, v, node in p.conds:
            if isinstance(node, ast.Compare) and len(node.ops) == 1 and isinstance(node.ops[0], ast.Eq):
                a, b = node.left, node.comparators[0]
                if isinstance(a, ast.Tuple) and isinstance(b, ast.Tuple) and len(a.elts) == len(b.elts):
                    pairs = list(zip(a.elts, b.elts))
                else:
                    pairs = [(a, b)]
                attrs = set()
                ok = True
                for x, y in pairs:
                    dx, dy = astq.dotted(x), astq.dotted(y)
                    if dx is None or dy is None:
                        ok = False
                        break
                    px, py = dx.split("."), dy.split(".")
                    if len(px) < 2 or px[1:] != py[1:] or {px[0], py[0]} not in ({"atom_i", "atom_j"}, {"residue_i", "residue_j"}):
                        ok = False
                        break
                    attrs.add(px[-1])
                if ok and attrs:
                    out.setdefault(k, (k, node, attrs))
                elif isinstance(a, ast.Name) and isinstance(b, ast.Name) and {a.id, b.id} == {"residue_i", "residue_j"}:
                    out.setdefault(k, (k, node, {"<object>"}))
    return list(out.values())


def check_contacts(chk, fi: FuncInfo, loop: ast.For, m: PairsModel, eq_fields) -> None:
    repo = chk.repo
    s = m.sites
    stores = [x for x in (m.hb, m.bph, m.br) if x]
    if len(stores) != 3 or not set(m.appended) <= set(stores) or m.hb not in m.appended:
        raise NotReadable(f"the pair loop appends to {m.appended}; hydrogen-bond / base-phosphate / base-ribose stores identified as {m.hb}, {m.bph}, {m.br}")
    # ---- roles: every use of a site dictionary is a look-up by query index ---------------------------------------------
    residual = set()
    for p in m.paths:
        for k, v, node in p.conds:
            residual |= {n.id for n in ast.walk(node) if isinstance(n, ast.Name) and (n.id in s.maps or n.id == s.points)}
        for e in p.effects:
            for a in e.args:
                residual |= {n.id for n in ast.walk(a) if isinstance(n, ast.Name) and (n.id in s.maps or n.id == s.points)}
    if residual:
        chk.error("contact-roles", fi.site(loop), f"{sorted(residual)} are used in the pair loop other than as <dict>[{s.points}[{s.idx[0]}]] / [{s.idx[1]}] look-ups: roles of the two sites not readable")
    else:
        for nm in ("type", "atom", "residue"):
            for side in SIDES:
                chk.ok("contact-roles", fi.site(loop), f"{nm}_{side} = the {nm} registered for point {s.idx[SIDES.index(side)]} of the query pair (dictionaries {sorted(s.maps)} keyed by the point)")
    # ---- skips that must precede every record -------------------------------------------------------------------------
    recs = [(p, e) for p in m.paths for e in _records(p, stores)]
    if not recs:
        chk.violation("contact-skips", fi.site(loop), "no path through the pair loop records a contact", K(fi, "no-record"))
        return
    why = {
        "same-type": "donor-donor / acceptor-acceptor contacts would count",
        "same-label": "contacts inside one residue would count",
        "same-auth": "contacts inside one residue would count",
        "no-normal": "angles would be taken from a missing normal",
    }
    ids = identity_compares(m.paths)
    whole = {"same-label": SAME_LABEL, "same-auth": SAME_AUTH}
    # identity tests other than the two whole-object ones (partial identity, object equality of residues)
    other_ids = [t for t in ids if t[0] not in SAME_LABEL | SAME_AUTH and t[0] not in SAME_TYPE and (t[2] == {"<object>"} or t[2] <= {"chain", "number", "icode", "model", "name", "label", "auth"})]
    bad: Dict[str, Tuple[SX.Path, SX.Effect]] = {}
    for p, e in recs:
        if not _decided_before(p, SAME_TYPE, e, False):
            bad.setdefault("same-type", (p, e))
        for kname, keys in whole.items():
            attr = "label" if kname == "same-label" else "auth"
            if not (_decided_before(p, keys, e, False) or _absent_before(p, attr, e)):
                # an equality of residues / of all identity fields decides the same thing
                if not any(_decided_before(p, {t[0]}, e, False) for t in other_ids):
                    bad.setdefault(kname, (p, e))
        if e.recv == m.hb and not (_decided_before(p, {"residue_i.base_normal_vector is None"}, e, False) and _decided_before(p, {"residue_j.base_normal_vector is None"}, e, False)):
            bad.setdefault("no-normal", (p, e))
    for kname in ("same-type", "same-label", "same-auth", "no-normal"):
        if kname in bad:
            p, e = bad[kname]
            chk.violation("contact-skips", fi.site(e.node), f"the contact loop has no `{kname}` skip before `{e.text()[:70]}`: {why[kname]} (decisions on that path: {[d for d in p.describe() if 'angle' not in d[0]][:6]})", K(fi, f"skip:{kname}"))
        else:
            chk.ok("contact-skips", fi.site(loop), f"skip `{kname}` decided on every path before a contact is recorded ({len(recs)} recording paths)")
    chk.ok("contact-skips-dominate", fi.site(loop), "donor/acceptor and same-residue decisions precede every append (event order of each recording path)") if not ({"same-type", "same-label", "same-auth"} & set(bad)) else None
    # ---- same-residue tests compare the whole identity --------------------------------------------------------------
    for text, node, attrs in other_ids:
        if attrs == {"<object>"}:
            cmp_fields = eq_fields(repo, "tertiary", "Residue3D")
            if cmp_fields is None:
                chk.error("same-residue-identity", fi.site(node), "equality of Residue3D not understood")
            elif "atoms" in cmp_fields:
                chk.violation("same-residue-identity", fi.site(node), f"`{text}` uses the dataclass equality of Residue3D, which also compares the atom tuples {sorted(cmp_fields)}: two fragments of one residue (atoms not contiguous in the file) are different objects, so contacts inside that residue are reported as interactions of the residue with itself", K(fi, "same-residue-object-eq"), found=sorted(cmp_fields))
            else:
                chk.ok("same-residue-identity", fi.site(node), f"`{text}` compares {sorted(cmp_fields)}")
    partial: Dict[str, Set[str]] = {}
    for text, node, attrs in other_ids:
        if attrs != {"<object>"} and attrs <= {"chain", "number", "icode", "model", "name"}:
            # identity fields compared on one path family: group by the object they are read from
            base = ".".join((astq.dotted(node.left.elts[0] if isinstance(node.left, ast.Tuple) else node.left) or "?").split(".")[1:-1])
            partial.setdefault(base, set()).update(attrs)
    for base, attrs in partial.items():
        missing = {"chain", "number", "icode"} - attrs
        site = next(n for t, n, a in other_ids if a <= attrs)
        chk.expect(
            not missing,
            "same-residue-identity",
            fi.site(site),
            "the same-residue skip compares chain, number and insertion code",
            f"the same-residue skip compares only {sorted(attrs)}: two different residues that share them {'(e.g. 12 and 12A, which differ only in the insertion code)' if 'icode' in missing else '(label vs author numbering)'} are treated as one and every contact between them is dropped",
            K(fi, "same-residue-partial"),
            expected=["chain", "number", "icode"],
            found=sorted(attrs),
        )
    # ---- closed world: why does a path record nothing? ----------------------------------------------------------------
    def is_angle(k: str) -> bool:
        if "angle_between_vectors(" in k:
            return True
        if "numpy.dot(" in k or "np.dot(" in k:
            try:
                n = ast.parse(k, mode="eval").body
            except SyntaxError:
                return False
            return any(angle_quantity(x, ("residue_i.base_normal_vector", "residue_j.base_normal_vector")) is not None for x in ast.walk(n))
        return False

    rec_angle = [frozenset((k, v) for k, v, _ in p.conds if is_angle(k)) for p, e in recs if e.recv == m.hb]
    reasons_any = SAME_TYPE | SAME_LABEL | SAME_AUTH | NO_NORMAL | {t[0] for t in other_ids}
    extra: Dict[str, Tuple[ast.AST, bool]] = {}
    n_silent = 0
    for p in m.paths:
        if _records(p, stores) or p.exit in ("raise",):
            continue
        n_silent += 1
        if any(k in reasons_any and v for k, v, _ in p.conds):
            continue
        if any("detect_bph_br_classification(" in k and k.endswith(" is None") and v for k, v, _ in p.conds):
            continue
        ang = frozenset((k, v) for k, v, _ in p.conds if is_angle(k))
        if ang and not any(r <= ang for r in rec_angle):
            continue
        # the last decision that is not routing (unused atoms, acceptor lists, donor typing) is the unexplained filter
        routing = lambda k: k.endswith(" in used_atoms") or " in PHOSPHATE_ACCEPTORS" in k or " in RIBOSE_ACCEPTORS" in k or k in ("type_i == 'donor'", "type_j == 'donor'", "type_i == 'acceptor'", "type_j == 'acceptor'") or is_angle(k) or k in reasons_any or "detect_bph_br_classification(" in k or k.endswith(".label is None") or k.endswith(".auth is None")
        cands = [(k, v, n) for k, v, n in p.conds if not routing(k)]
        if cands:
            k, v, n = cands[-1]
            extra.setdefault(k, (n, v))
        else:
            k, v, n = p.conds[-1] if p.conds else ("<unconditional>", True, loop)
            extra.setdefault(k, (n, v))
    for k, (n, v) in extra.items():
        chk.violation("contact-extra-filter", fi.site(n), f"additional filter in the contact loop: a contact is dropped when `{k[:80]}` is {v}, which is none of donor/acceptor, same residue, missing normal, angle window or an unclassified base-phosphate / base-ribose contact: justified contacts are lost (completeness)", K(fi, f"extra-skip:{k[:60]}"))
    if not extra:
        chk.ok("contact-extra-filter", fi.site(loop), f"{n_silent} paths record nothing, each for one of: same type, same residue, no normal, angle window, unclassified base-phosphate / base-ribose contact")


def check_registration(chk, fi: FuncInfo, m: PairsModel, spec, distinct: bool = False) -> None:
    """What the residue loop puts into the KD-tree and the site dictionaries (candidate atoms, typing, model filter)."""
    repo = chk.repo
    s = m.sites
    rl = s.res_loop
    if s.byvalue is not None:
        registration_by_value(chk, fi, s, spec, distinct)
        return
    check_model_filter(chk, fi, rl, s.res_var, s.res_paths)
    tables = spec("lw_edges.json")
    letters = list(tables["BASE_ATOMS"]) + ["N"]
    # candidate atom names per base letter
    if s.names_iter is None:
        chk.error("contact-atoms", fi.site(rl), "the registered point is not the position (x, y, z) of an atom fetched by a name from a list")
    else:
        diffs = {}
        try:
            for L in letters:
                got = list(fold_for(repo, fi.module.name, s.names_iter, {s.res_var: _Res(L)}))
                want = tables["BASE_ACCEPTORS"].get(L, []) + tables["RIBOSE_ACCEPTORS"] + tables["PHOSPHATE_ACCEPTORS"] + tables["BASE_DONORS"].get(L, [])
                if set(got) != set(want):  # multiplicity is the business of contact-distinct-points
                    diffs[L] = {"missing": sorted(set(want) - set(got)), "extra": sorted(set(got) - set(want))}
            chk.expect(not diffs, "contact-atoms", fi.site(rl), f"candidate atoms = base acceptors + ribose + phosphate acceptors + base donors of the residue's own base (evaluated for {', '.join(letters)})", f"the candidate atom list `{norm(s.names_iter)[:90]}` is not acceptors(base)+ribose+phosphate+donors(base) of the residue's one-letter name: {diffs}", K(fi, "atoms"), found=diffs)
        except Exception as ex:
            chk.error("contact-atoms", fi.site(rl), f"candidate atom list `{norm(s.names_iter)[:80]}` not evaluable: {ex}")
        if distinct:
            # one KD-tree point per atom: a name listed twice puts two coincident points into the tree, query_pairs then returns
            # every contact of that atom twice and Counter(labels) counts one donor-acceptor contact as two
            dup = {}
            try:
                for L in letters:
                    got = list(fold_for(repo, fi.module.name, s.names_iter, {s.res_var: _Res(L)}))
                    d = sorted({x for x in got if got.count(x) > 1})
                    if d:
                        dup[L] = d
                chk.expect(
                    not dup,
                    "contact-distinct-points",
                    fi.site(rl),
                    "every candidate atom name occurs once per residue: one KD-tree point per atom, so each contact is counted once",
                    f"the candidate atom list `{norm(s.names_iter)[:100]}` names {sorted({x for v in dup.values() for x in v})} twice for bases {sorted(dup)}: the atom is put into the KD-tree as two coincident points, query_pairs returns each of its contacts twice, and one donor-acceptor contact alone reaches the `at least two contacts` threshold",
                    K(fi, "duplicate-points:" + ",".join(sorted({x for v in dup.values() for x in v}))),
                    expected="each name once",
                    found=dup,
                )
            except Exception as ex:
                chk.error("contact-distinct-points", fi.site(rl), f"candidate atom list not evaluable: {ex}")
        fa = norm(s.atom)
        chk.expect(fa.startswith(f"{s.res_var}.find_atom(") , "contact-atoms", fi.site(rl), "each candidate atom is fetched by name from the residue itself", f"the registered atom is `{fa[:80]}`, not {s.res_var}.find_atom(<name>)", K(fi, "atom-fetch"))
    # typing per (letter, name)
    if not s.typing or s.names_iter is None:
        chk.error("contact-typing", fi.site(rl), "stored donor/acceptor type not readable")
    else:
        it_text = norm(s.names_iter)
        wrong = {}
        n_eval = 0
        try:
            for L in letters:
                names = list(fold_for(repo, fi.module.name, s.names_iter, {s.res_var: _Res(L)}))
                acc = set(tables["BASE_ACCEPTORS"].get(L, []) + tables["RIBOSE_ACCEPTORS"] + tables["PHOSPHATE_ACCEPTORS"])
                for nm in sorted(set(names)):
                    got = set()
                    for p, ef, const in s.typing:
                        feasible = True
                        for k, v, node in list(p.conds) + list(ef.guards):
                            if any(SX.is_elem(x) is not None and norm(SX.is_elem(x)) == it_text for x in ast.walk(node)):
                                e2 = _ElemTo(it_text, nm).visit(copy.deepcopy(node))
                                try:
                                    val = bool(fold_for(repo, fi.module.name, e2, {s.res_var: _Res(L)}))
                                except Exception:
                                    continue  # data-dependent (atom present?)
                                if val != v:
                                    feasible = False
                                    break
                        if feasible:
                            got.add(const)
                    n_eval += 1
                    want = {"acceptor"} if nm in acc else {"donor"}
                    if got != want:
                        wrong[f"{L}:{nm}"] = sorted(got)
            chk.expect(not wrong, "contact-typing", fi.site(rl), f"an atom is typed acceptor iff its name is in the acceptor lists of its residue, donor otherwise ({n_eval} (base, atom) cases evaluated)", f"atom typing differs from `acceptor iff the name is an acceptor of the base / ribose / phosphate`: {dict(list(wrong.items())[:6])}", K(fi, "typing"), found=wrong)
        except Exception as ex:
            chk.error("contact-typing", fi.site(rl), f"typing not evaluable: {type(ex).__name__} {ex}")
    # a point is registered only for atoms that were found, once, together with its dictionaries
    regs = [(p, e) for p in s.res_paths for e in p.effects if e.recv == s.points and e.method == "append"]
    fa = norm(s.atom) if s.atom is not None else None
    if fa is not None:
        unguarded = [e for p, e in regs if not any((k in (fa, f"{fa} is None")) and (v == (k == fa)) for k, v, _ in list(p.conds) + list(e.guards))]
        chk.expect(not unguarded, "contact-atoms", fi.site(rl), "a point is registered only when the atom was found", "a point is registered without testing that the atom was found", K(fi, "atom-found"))


def registration_by_value(chk, fi: FuncInfo, s: Sites, spec, distinct: bool) -> None:
    """The same facts as above, decided on the values the registration code produces for stand-in residues (one per base
    letter; an atom missing; another model requested)."""
    repo = chk.repo
    tables = spec("lw_edges.json")
    site = fi.site(s.res_loop)
    runs = s.byvalue["runs"]
    chk.ok("reading", fi.where, f"registration read by value on stand-in residues ({', '.join(runs)}): {s.byvalue['why'][:100]}")
    diffs, dup, wrong = {}, {}, {}
    n_typed = 0
    for L, r in runs.items():
        res = r["res"]
        by_xyz = {(a.x, a.y, a.z): a for a in res.atoms}
        names = []
        for pt in r["points"]:
            a = by_xyz.get(tuple(pt)) if isinstance(pt, (tuple, list)) else None
            names.append(a.name if a is not None else f"<{pt!r}>"[:40])
        want = tables["BASE_ACCEPTORS"].get(L, []) + tables["RIBOSE_ACCEPTORS"] + tables["PHOSPHATE_ACCEPTORS"] + tables["BASE_DONORS"].get(L, [])
        if set(names) != set(want):
            diffs[L] = {"missing": sorted(set(want) - set(names)), "extra": sorted(set(names) - set(want))}
        d = sorted({x for x in names if names.count(x) > 1})
        if d:
            dup[L] = d
        acc = set(tables["BASE_ACCEPTORS"].get(L, []) + tables["RIBOSE_ACCEPTORS"] + tables["PHOSPHATE_ACCEPTORS"])
        for dname, content in r["dicts"].items():
            k = s.maps.get(dname)
            pos = None
            if k == "type":
                pos = ()
            elif isinstance(k, list) and "type" in k:
                pos = (k.index("type"),)
            elif isinstance(k, tuple) and k[0] == "record" and "type" in k[3]:
                pos = (k[3].index("type"),)
            if pos is None:
                continue
            for pt, v in content.items():
                a = by_xyz.get(tuple(pt))
                if a is None:
                    continue
                t = v if pos == () else v[pos[0]]
                n_typed += 1
                if t != ("acceptor" if a.name in acc else "donor"):
                    wrong[f"{L}:{a.name}"] = t
        # every dictionary describes the atom registered under its key
        for dname, content in r["dicts"].items():
            k = s.maps.get(dname)
            for pt, v in content.items():
                comps = [v] if not isinstance(v, tuple) else list(v)
                for c in comps:
                    if isinstance(c, c03v.AtomStub) and (c.x, c.y, c.z) != tuple(pt):
                        wrong[f"{L}:{dname}"] = f"the atom stored under a point is {c.name}, not the atom at that point"
    chk.expect(not diffs, "contact-atoms", site, f"candidate atoms = base acceptors + ribose + phosphate acceptors + base donors of the residue's own base (registered points of stand-in residues {', '.join(runs)})", f"the atoms put into the KD-tree are not acceptors(base)+ribose+phosphate+donors(base) of the residue's one-letter name: {diffs}", K(fi, "atoms"), found=diffs)
    if distinct:
        chk.expect(not dup, "contact-distinct-points", site, "every candidate atom is one KD-tree point: each contact is counted once", f"{sorted({x for v in dup.values() for x in v})} are put into the KD-tree twice for bases {sorted(dup)}: query_pairs returns each of their contacts twice, and one donor-acceptor contact alone reaches the `at least two contacts` threshold", K(fi, "duplicate-points:" + ",".join(sorted({x for v in dup.values() for x in v}))), found=dup)
    chk.expect(not wrong and n_typed > 0, "contact-typing", site, f"an atom is typed acceptor iff its name is in the acceptor lists of its residue, donor otherwise ({n_typed} stored types inspected)", f"atom typing differs from `acceptor iff the name is an acceptor of the base / ribose / phosphate`: {dict(list(wrong.items())[:6])}" if wrong else "no stored donor/acceptor type found", K(fi, "typing"), found=wrong)
    # an atom that is missing from the file is skipped, nothing else changes
    try:
        L = "G"
        full = runs[L]
        gone = tables["BASE_DONORS"][L][0]
        res2 = c03v.ResStub(repo, L, model=1, tag=1, missing=[gone])
        env2 = c03v.run_prefix(repo, fi, s.points, [res2], None)
        n2 = len(env2[s.points])
        chk.expect(n2 == len(full["points"]) - 1, "contact-atoms", site, "a point is registered only when the atom was found (a residue without one candidate atom registers one point less)", f"with atom {gone} missing the registration yields {n2} points instead of {len(full['points']) - 1}", K(fi, "atom-found"))
    except c03v.NotEvaluable as ex:
        chk.violation("contact-atoms", site, f"a residue that lacks a candidate atom makes the registration fail ({str(ex)[:100]}): a point is registered without testing that the atom was found", K(fi, "atom-found"))
    model_filter_by_value(chk, fi, s)


def model_filter_by_value(chk, fi: FuncInfo, s: Sites) -> None:
    repo = chk.repo
    site = fi.site(s.res_loop)
    try:
        verdicts = {}
        for tag, (req, own) in {"none": (None, 2), "same": (2, 2), "other": (1, 2)}.items():
            env3 = c03v.run_prefix(repo, fi, s.points, [c03v.ResStub(repo, "A", model=own, tag=1)], req)
            verdicts[tag] = len(env3[s.points]) > 0
        chk.expect(verdicts == {"none": True, "same": True, "other": False}, "model-filter", site, "residues of other models are skipped before anything is registered (model None / same / other evaluated)", f"the registration does not keep exactly the residues of the requested model: registered? {verdicts} for (no model requested, same model, another model)", K(fi, "model-filter"), found=verdicts)
    except c03v.NotEvaluable as ex:
        chk.error("model-filter", site, f"model filter not evaluable: {str(ex)[:120]}")


# ---------------------------------------------------------------------------------------------------------------------
# canonical forms of small idioms
# ---------------------------------------------------------------------------------------------------------------------
class _Idioms(ast.NodeTransformer):
    """dict() -> {} ; list() -> [] ; X.get(k, None) -> X.get(k)"""

    def visit_Call(self, n: ast.Call):
        self.generic_visit(n)
        if isinstance(n.func, ast.Name) and not n.args and not n.keywords:
            if n.func.id == "dict":
                return ast.Dict(keys=[], values=[])
            if n.func.id == "list":
                return ast.List(elts=[], ctx=ast.Load())
        if isinstance(n.func, ast.Attribute) and n.func.attr == "get" and len(n.args) == 2 and isinstance(n.args[1], ast.Constant) and n.args[1].value is None and not n.keywords:
            n.args = [n.args[0]]
        # {a, b}.isdisjoint(X) / X.isdisjoint({a, b})  ==  a not in X and b not in X
        if isinstance(n.func, ast.Attribute) and n.func.attr == "isdisjoint" and len(n.args) == 1 and not n.keywords:
            lit = lambda e: isinstance(e, (ast.Set, ast.Tuple, ast.List)) and 0 < len(e.elts) <= 4 and not any(isinstance(x, ast.Starred) for x in e.elts)
            members, other = (n.func.value, n.args[0]) if lit(n.func.value) else ((n.args[0], n.func.value) if lit(n.args[0]) else (None, None))
            if members is not None and not lit(other):
                tests = [ast.Compare(left=x, ops=[ast.NotIn()], comparators=[copy.deepcopy(other)]) for x in members.elts]
                return tests[0] if len(tests) == 1 else ast.BoolOp(op=ast.And(), values=tests)
        return n


def idioms(e: ast.expr) -> ast.expr:
    return _Idioms().visit(e)


def _boolean_valued(e: ast.AST) -> bool:
    if isinstance(e, ast.Compare):
        return True
    if isinstance(e, ast.UnaryOp) and isinstance(e.op, ast.Not):
        return True
    if isinstance(e, ast.BoolOp):
        return all(_boolean_valued(v) for v in e.values)
    return isinstance(e, ast.Call) and isinstance(e.func, ast.Name) and e.func.id == "bool" and len(e.args) == 1


def two_way_tables(repo, module: str):
    """Rewriter: `TABLE[<test>]`, TABLE a module-level dict display with exactly the keys True and False and <test> a comparison
    (always a bool), is `TABLE[True] if <test> else TABLE[False]` - a dispatch table keyed by a test reads like the branch."""

    class T(ast.NodeTransformer):
        def visit_Subscript(self, n: ast.Subscript):
            self.generic_visit(n)
            if isinstance(n.value, ast.Name) and isinstance(n.ctx, ast.Load) and _boolean_valued(n.slice):
                try:
                    d = repo.const_expr(module, n.value.id)
                except Exception:
                    return n
                if isinstance(d, ast.Dict) and len(d.keys) == 2 and all(isinstance(k, ast.Constant) and isinstance(k.value, bool) for k in d.keys) and {k.value for k in d.keys} == {True, False}:
                    by = {k.value: v for k, v in zip(d.keys, d.values)}
                    return ast.copy_location(ast.IfExp(test=n.slice, body=copy.deepcopy(by[True]), orelse=copy.deepcopy(by[False])), n)
            return n

    def rewrite(e: ast.expr) -> ast.expr:
        return T().visit(e)

    return rewrite


def str_parts(e: ast.expr) -> Optional[List[str]]:
    """Text of the pieces of a string built by an f-string or by `+`: f'{a}{b}' == a + b == ''.join((a, b))."""
    if isinstance(e, ast.JoinedStr):
        out = []
        for v in e.values:
            if isinstance(v, ast.FormattedValue):
                if v.format_spec is not None or v.conversion not in (-1, 115):
                    return None
                out.append(norm(v.value))
            elif isinstance(v, ast.Constant) and isinstance(v.value, str):
                if v.value:
                    out.append(repr(v.value))
            else:
                return None
        return out
    if isinstance(e, ast.BinOp) and isinstance(e.op, ast.Add):
        a, b = str_parts(e.left), str_parts(e.right)
        return None if a is None or b is None else a + b
    if isinstance(e, ast.Call) and isinstance(e.func, ast.Attribute) and e.func.attr == "join" and isinstance(e.func.value, ast.Constant) and e.func.value.value == "" and len(e.args) == 1 and isinstance(e.args[0], (ast.Tuple, ast.List)):
        out = []
        for x in e.args[0].elts:
            r = str_parts(x)
            if r is None:
                return None
            out += r
        return out
    if isinstance(e, ast.Constant) and isinstance(e.value, str):
        return [repr(e.value)] if e.value else []
    return [norm(e)]


# ---------------------------------------------------------------------------------------------------------------------
# find_pairs: labels
# ---------------------------------------------------------------------------------------------------------------------
def _edges_form(it: ast.expr) -> Optional[Tuple[str, str]]:
    """(side of the residue, side of the atom) when `it` is BASE_EDGES.get(residue_s.one_letter_name, {}).get(atom_t.name)."""
    b = astq.match(it, "BASE_EDGES.get(R_.one_letter_name, {}).get(A_.name)")
    if not b:
        return None
    r, a = norm(b["R_"]), norm(b["A_"])
    if r in ("residue_i", "residue_j") and a in ("atom_i", "atom_j"):
        return r[-1], a[-1]
    return None


def _lower_of(conds: Sequence[Tuple[str, bool, ast.AST]]) -> Optional[str]:
    lower = None
    for k, v, _ in conds:
        if k in ("residue_i < residue_j", "residue_i <= residue_j"):
            lower = "i" if v else "j"
        elif k in ("residue_j < residue_i", "residue_j <= residue_i"):
            lower = "j" if v else "i"
    return lower


def _label_sites(p: SX.Path, labels: str) -> List[Tuple[ast.expr, List[ast.expr], bool, List[Tuple[str, bool, ast.AST]], SX.Effect]]:
    """[(tuple expression, iterables it ranges over, complete product?, conditions, effect)] for every label-adding effect."""
    out = []
    for e in p.effects:
        if e.recv != labels or e.kind != "call" or e.method not in ("append", "extend") or not e.args:
            continue
        its: List[ast.expr] = []
        complete = not e.partial
        for l in e.loops:
            f = norm(l.iter.func) if isinstance(l.iter, ast.Call) else None
            if f in ("itertools.product", "product") and not l.iter.keywords:
                its += list(l.iter.args)
            else:
                its.append(l.iter)
        conds = list(p.conds) + list(e.guards)
        tup = e.args[0]
        if e.method == "extend":
            if not isinstance(tup, (ast.ListComp, ast.GeneratorExp)):
                out.append((tup, its, False, conds, e))
                continue
            comp = tup
            env: Dict[str, ast.expr] = {}
            for g in comp.generators:
                if g.ifs:
                    complete = False
                f = norm(g.iter.func) if isinstance(g.iter, ast.Call) else None
                if f in ("itertools.product", "product") and isinstance(g.target, ast.Tuple) and len(g.target.elts) == len(g.iter.args):
                    for t, a in zip(g.target.elts, g.iter.args):
                        if isinstance(t, ast.Name):
                            env[t.id] = SX.elem(a, 0)
                        its.append(a)
                elif isinstance(g.target, ast.Name):
                    src = SX.subst(g.iter, env)
                    env[g.target.id] = SX.elem(src, 0)
                    its.append(src)
                elif isinstance(g.target, ast.Tuple) and isinstance(g.iter, (ast.ListComp, ast.GeneratorExp)) and isinstance(g.iter.elt, ast.Tuple) and len(g.iter.elt.elts) == len(g.target.elts):
                    # a materialised product: [(a, b) for a in A for b in B]
                    inner = {}
                    for g2 in g.iter.generators:
                        if g2.ifs or not isinstance(g2.target, ast.Name):
                            complete = False
                            continue
                        inner[g2.target.id] = SX.elem(g2.iter, 0)
                        its.append(g2.iter)
                    for t, x in zip(g.target.elts, g.iter.elt.elts):
                        if isinstance(t, ast.Name):
                            env[t.id] = SX.subst(x, inner)
                else:
                    complete = False
            tup = SX.subst(comp.elt, env)
        # a label chosen by a conditional expression: one site per branch, with the decision of its test
        todo = [(tup, conds)]
        while todo:
            t, cs = todo.pop(0)
            if isinstance(t, ast.IfExp):
                atom, pol = SX.canon_atom(t.test)
                known = next((v for k, v, _ in cs if k == norm(atom)), None)
                for val, branch in ((True, t.body), (False, t.orelse)):
                    if known is not None and known != (val == pol):
                        continue
                    todo.append((branch, cs if known is not None else cs + [(norm(atom), val == pol, atom)]))
                continue
            out.append((t, its, complete, cs, e))
    return out


def check_labels(chk, fi: FuncInfo, m: PairsModel) -> None:
    ll = m.label_loop
    if ll is None or m.labels is None or m.hb is None:
        raise NotReadable("the loop over the recorded hydrogen bonds (or the list of labels it fills) was not found")
    recs = {norm(e.args[0]): e.args[0] for p in m.paths for e in p.effects if e.recv == m.hb and e.method == "append" and e.args}
    if len(recs) != 1:
        raise NotReadable(f"hydrogen bonds are recorded in {len(recs)} different forms")
    rec = next(iter(recs.values()))
    roles = [norm(x) for x in rec.elts] if isinstance(rec, ast.Tuple) else None
    want_roles = {"atom_i", "atom_j", "residue_i", "residue_j"}
    if roles is None or set(roles) != want_roles or len(roles) != 4:
        chk.violation("angle-record", fi.site(next(iter(recs.values()))), f"a hydrogen bond is recorded as `{norm(rec)[:80]}`, not as the two atoms and the two residues of the contact", K(fi, "hb-record"), found=norm(rec))
        return
    chk.ok("angle-record", fi.site(ll), f"a hydrogen bond records ({', '.join(roles)})")
    env: Dict[str, ast.expr] = {}
    if isinstance(ll.target, ast.Tuple) and len(ll.target.elts) == 4 and all(isinstance(t, ast.Name) for t in ll.target.elts):
        for t, r in zip(ll.target.elts, rec.elts):
            env[t.id] = copy.deepcopy(r)
    elif isinstance(ll.target, ast.Name):
        env[ll.target.id] = copy.deepcopy(rec)
    else:
        raise NotReadable("the label loop does not unpack the hydrogen bond record")
    chk.ok("label-roles", fi.site(ll), "the label loop reads each component of the record from the position it was stored at (roles follow the positions)")
    paths = SX.Executor(nonnull=m.sites.nonnull, rewrite=idioms).run(ll.body, env)
    covered = set()
    n_sites = 0
    edge_problem = False
    silent_bad: Dict[str, Tuple[ast.AST, bool]] = {}
    for p in paths:
        sites = _label_sites(p, m.labels)
        if not sites:
            if p.exit == "raise":
                continue
            ok = any(v and ((k.endswith(" is None") and _edges_form(n.left) is not None) if isinstance(n, ast.Compare) else False) for k, v, n in p.conds) or any(v and k in ("detect_cis_trans(residue_i, residue_j) is None", "detect_cis_trans(residue_j, residue_i) is None") for k, v, _ in p.conds)
            if not ok:
                k, v, n = p.conds[-1] if p.conds else ("<unconditional>", True, ll)
                silent_bad.setdefault(k, (n, v))
            continue
        for tup, its, complete, conds, e in sites:
            n_sites += 1
            if not isinstance(tup, ast.Tuple) or len(tup.elts) != 5:
                chk.error("label-orientation", fi.site(e.node), f"label site `{e.text()[:90]}` not understood (the label is not a 5-tuple)")
                continue
            el = [norm(x) for x in tup.elts]
            forms = [_edges_form(i) for i in its]
            if None in forms or sorted(forms) != [("i", "i"), ("j", "j")]:
                if len(forms) == 2 and None not in forms:
                    edge_problem = True
                    chk.violation("label-edges", fi.site(e.node), f"the edge letters of a label range over {[norm(i)[:70] for i in its]}: an edge list is not looked up from BASE_EDGES by the residue's own base and the contact's own atom", K(fi, "edges"), found=[norm(i) for i in its])
                else:
                    chk.error("label-edges", fi.site(e.node), f"labels range over {[norm(i)[:60] for i in its]}: not the two edge lists BASE_EDGES[base of residue][name of atom] of the two sites")
                continue
            if not complete or any(any(SX.is_elem(x) is not None for x in ast.walk(n)) for k, v, n in conds):
                chk.violation("label-orientation", fi.site(e.node), "labels are not added for the full product of the two edge lists (a filter or an early exit inside the edge loops): contacts of some edge combinations are not counted", K(fi, "label-product"))
                continue
            lower = _lower_of(conds)
            if lower is None:
                chk.violation("label-orientation", fi.site(e.node), f"`{norm(e.node)[:80]}` adds labels without a `residue_i < residue_j` decision: the same pair gets two different labels depending on atom order, and the contact counts split", K(fi, "orientation-unguarded"))
                continue
            covered.add(lower)
            hi = "j" if lower == "i" else "i"

            def side_of(x: ast.expr) -> Optional[str]:
                it = SX.is_elem(x)
                f = _edges_form(it) if it is not None else None
                return f[0] if f else None

            got = el[:2] + [side_of(tup.elts[3]), side_of(tup.elts[4])]
            want = [f"residue_{lower}", f"residue_{hi}", lower, hi]
            if el[2] not in ("detect_cis_trans(residue_i, residue_j)", "detect_cis_trans(residue_j, residue_i)"):
                chk.violation("label-cistrans", fi.site(e.node), f"the cis/trans letter of a label is `{el[2][:70]}`, not detect_cis_trans of the two residues", K(fi, "cistrans-src"))
            if got == want:
                chk.ok("label-orientation", fi.site(e.node), f"residue_{lower} lower: label = (residue_{lower}, residue_{hi}, c/t, edge of residue_{lower}, edge of residue_{hi}) over the full product of the two edge lists")
            elif None in got or set(got[:2]) != {"residue_i", "residue_j"}:
                chk.error("label-orientation", fi.site(e.node), f"label tuple `({', '.join(x[:40] for x in el)})` not understood")
            else:
                chk.violation(
                    "label-orientation",
                    fi.site(e.node),
                    f"when residue_{lower} is the lower one the label is ({got[0]}, {got[1]}, c/t, edge of residue_{got[2]}, edge of residue_{got[3]}): expected (residue_{lower}, residue_{hi}, c/t, edge of residue_{lower}, edge of residue_{hi}) - residues and their edges are not swapped together",
                    K(fi, "orientation"),
                    expected=want,
                    found=got,
                )
    if n_sites == 0:
        chk.error("label-orientation", fi.site(ll), "no site adding to the label list found in the label loop")
        return
    miss = {"i", "j"} - covered
    if miss and not edge_problem and covered:
        chk.violation("label-orientation", fi.site(ll), f"no labels are added when residue_{sorted(miss)[0]} is the lower residue", K(fi, "orientation-missing"))
    for k, (n, v) in silent_bad.items():
        chk.violation("label-extra-filter", fi.site(n), f"additional filter in the label loop: a hydrogen bond gets no label when `{k[:80]}` is {v} (only a missing edge or a missing cis/trans letter may skip it): supported pairs are dropped", K(fi, f"label-extra:{k[:60]}"))
    if not silent_bad:
        chk.ok("label-extra-filter", fi.site(ll), "only missing edges / missing cis-trans skip a hydrogen bond")
    # labels are added only after both edge lists and the cis/trans letter are known to exist
    unchecked: Dict[str, ast.AST] = {}
    for p in paths:
        for tup, its, complete, conds, e in _label_sites(p, m.labels):
            for it in its:
                if _edges_form(it) is not None and not any(k == f"{norm(it)} is None" and v is False for k, v, _ in conds):
                    unchecked.setdefault("no-edge", e.node)
            if isinstance(tup, ast.Tuple) and len(tup.elts) == 5 and norm(tup.elts[2]).startswith("detect_cis_trans(") and not any(k == f"{norm(tup.elts[2])} is None" and v is False for k, v, _ in conds):
                unchecked.setdefault("no-cistrans", e.node)
    for kname in ("no-edge", "no-cistrans"):
        if kname in unchecked:
            chk.violation("label-skips", fi.site(unchecked[kname]), f"label loop lacks the `{kname}` skip: labels are added on a path that has not found " + ("both edge lists present (an atom without an edge entry makes the loop fail or mislabel)" if kname == "no-edge" else "the cis/trans letter present (a label with c/t = None is counted and breaks the LeontisWesthof look-up)"), K(fi, f"label-skip:{kname}"))
        else:
            chk.ok("label-skips", fi.site(ll), f"skip `{kname}` decided on every path before a label is added")
    chk.ok("label-edges", fi.site(ll), "edges_i / edges_j = BASE_EDGES[base of the residue][name of its atom] (canonical form, defaults normalised)") if not edge_problem else None
    chk.ok("label-cistrans", fi.site(ll), "cis/trans from detect_cis_trans of the two residues")


# ---------------------------------------------------------------------------------------------------------------------
# find_pairs: selection
# ---------------------------------------------------------------------------------------------------------------------
def check_selection(chk, fi: FuncInfo, m: PairsModel, fold, c: Dict[str, Any]) -> None:
    from sa import intervals

    sl = m.select_loop
    if sl is None or m.labels is None:
        raise NotReadable("selection loop over Counter(...).most_common() not found")
    nfi = normalised(fi)  # the loops of the model are statements of this copy
    inl = Inliner(nfi.node)
    src = inl.inline(sl.iter, sl)
    mm = astq.match(src, "Counter(N_).most_common()")
    if mm is not None and isinstance(mm["N_"], ast.Name) and mm["N_"].id != m.labels:
        # another name for the list of labels: follow plain `a = b` bindings; if that does not lead to the list, the rule abstains
        cur = mm["N_"].id
        for _ in range(4):
            d = [v for s2, v in astq.assignments(nfi.node, cur) if v is not None]
            nxt = [v.id for v in d if isinstance(v, ast.Name)]
            if cur == m.labels or not nxt:
                break
            cur = nxt[-1]
        if cur == m.labels:
            src = ast.parse(f"Counter({m.labels}).most_common()", mode="eval").body
        else:
            chk.error("select-source", fi.site(sl), f"selection iterates `{norm(src)}`; `{mm['N_'].id}` is not traced to the list the label loop fills (`{m.labels}`)")
            return
    chk.expect(norm(src) == f"Counter({m.labels}).most_common()", "select-source", fi.site(sl), "candidates = Counter(labels).most_common(): every label with its contact count, best supported first", f"selection iterates `{norm(src)}`, not all labels with their counts", K(fi, "select-source"), found=norm(src))
    if not (isinstance(sl.target, ast.Tuple) and len(sl.target.elts) == 2 and isinstance(sl.target.elts[1], ast.Name)):
        raise NotReadable("selection loop target is not (label, count)")
    env: Dict[str, ast.expr] = {sl.target.elts[1].id: ast.Name(id="count", ctx=ast.Load())}
    lab = sl.target.elts[0]
    if isinstance(lab, ast.Name):
        env[lab.id] = ast.Name(id="label", ctx=ast.Load())
    elif isinstance(lab, ast.Tuple) and len(lab.elts) == 5 and all(isinstance(x, ast.Name) for x in lab.elts):
        for k, x in enumerate(lab.elts):
            env[x.id] = ast.Subscript(value=ast.Name(id="label", ctx=ast.Load()), slice=ast.Constant(value=k), ctx=ast.Load())
    else:
        raise NotReadable("the label is not bound to one name or to five names")
    paths = SX.Executor(nonnull=m.sites.nonnull, rewrite=idioms).run(sl.body, env)
    # the set of claimed (residue, edge) keys: the container that receives add/update in the loop and is tested
    K1, K2 = "(label[0], label[3])", "(label[1], label[4])"
    keys = {K1: "first", K2: "second"}
    mixed = {"(label[0], label[4])", "(label[1], label[3])"}
    sets = sorted({e.recv for p in paths for e in p.effects if e.kind == "call" and e.method in ("add", "update")})
    pair_lists = sorted({e.recv for p in paths for e in p.effects if e.kind == "call" and e.method == "append" and e.recv in m.sites.nonnull})
    if len(pair_lists) != 1:
        chk.violation("select-record", fi.site(sl), "no path through the selection loop reports a pair", K(fi, "record")) if not pair_lists else chk.error("select-record", fi.site(sl), f"pairs are appended to {pair_lists}")
        return
    out_list = pair_lists[0]
    occ_name = sets[0] if len(sets) == 1 else None
    if occ_name is None:
        # no claim at all: find the container from the membership tests
        tested = sorted({norm(n.comparators[0]) for p in paths for k, v, n in p.conds if isinstance(n, ast.Compare) and isinstance(n.ops[0], ast.In) and norm(n.left) in keys})
        occ_name = tested[0] if len(tested) == 1 else "occupied"

    def key_list(e: ast.expr) -> Optional[List[str]]:
        if isinstance(e, (ast.Set, ast.Tuple, ast.List)) and all(isinstance(x, ast.Tuple) for x in e.elts):
            return [norm(x) for x in e.elts]
        return None

    def occ_of(p: SX.Path) -> Tuple[Dict[str, bool], List[str], List[str]]:
        """(key -> known truth of 'key in occupied', keys of a failed disjointness test, unreadable tests on the set)"""
        occ: Dict[str, bool] = {}
        some: List[str] = []
        unread: List[str] = []
        for k, v, n in p.conds:
            if isinstance(n, ast.Compare) and len(n.ops) == 1 and isinstance(n.ops[0], ast.In) and norm(n.comparators[0]) == occ_name:
                occ[norm(n.left)] = v
            elif isinstance(n, ast.Call) and isinstance(n.func, ast.Attribute) and norm(n.func.value) == occ_name and n.func.attr == "isdisjoint" and len(n.args) == 1 and key_list(n.args[0]) is not None:
                ks = key_list(n.args[0])
                if v:
                    for x in ks:
                        occ[x] = False
                else:
                    some += ks
            elif isinstance(n, ast.Call) and isinstance(n.func, ast.Attribute) and n.func.attr == "isdisjoint" and len(n.args) == 1 and norm(n.args[0]) == occ_name and key_list(n.func.value) is not None:
                ks = key_list(n.func.value)
                if v:
                    for x in ks:
                        occ[x] = False
                else:
                    some += ks
            elif (isinstance(n, ast.BinOp) and isinstance(n.op, ast.BitAnd) and occ_name in (norm(n.left), norm(n.right))) or (isinstance(n, ast.Call) and isinstance(n.func, ast.Attribute) and n.func.attr == "intersection" and norm(n.func.value) == occ_name and len(n.args) == 1):
                other = (n.right if norm(n.left) == occ_name else n.left) if isinstance(n, ast.BinOp) else n.args[0]
                ks = key_list(other)
                if ks is None:
                    unread.append(k)
                elif v:
                    some += ks
                else:
                    for x in ks:
                        occ[x] = False
            elif occ_name in astq.names(n):
                unread.append(k)
        return occ, some, unread

    def claims(p: SX.Path) -> List[Tuple[str, SX.Effect]]:
        out = []
        for e in p.effects:
            if e.recv != occ_name or e.kind != "call":
                continue
            if e.method == "add" and e.args:
                out.append((norm(e.args[0]), e))
            elif e.method == "update" and e.args:
                ks = key_list(e.args[0])
                out += [(x, e) for x in ks] if ks is not None else [("?", e)]
            elif e.method in SX.MUTATORS:
                out.append(("?" + e.method, e))
        return out

    def count_ok(p: SX.Path, n: int) -> bool:
        for k, v, node in p.conds:
            if "count" in astq.names(node):
                try:
                    if bool(intervals.evaluate(node, lambda e, n=n: float(n) if isinstance(e, ast.Name) and e.id == "count" else None, fold)) != v:
                        return False
                except Exception:
                    raise intervals.NotThreshold(f"count test `{k}` not evaluable")
        return True

    need = c["min_contacts"]
    problems: List[Tuple[str, ast.AST, str, str]] = []
    reported_for = {n: False for n in range(0, 6)}
    n_report = 0
    try:
        for p in paths:
            if p.exit == "raise":
                continue
            feas = [n for n in range(0, 6) if count_ok(p, n)]
            if not feas:
                continue
            occ, some, unread = occ_of(p)
            cl = claims(p)
            appended = [e for e in p.effects if e.recv == out_list and e.method == "append"]
            cnt_dec = [(k, v) for k, v, n in p.conds if "count" in astq.names(n)]
            if unread:
                chk.error("edge-exclusive", fi.site(sl), f"test `{unread[0][:80]}` on the set of claimed edges not understood")
                return
            if appended:
                n_report += 1
                for key, which in keys.items():
                    if occ.get(key) is not False:
                        problems.append(("edge-exclusive", appended[0].node, f"a pair is reported on a path where the {which} residue's edge key {key} was not tested free in `{occ_name}`: the same edge can be used by two pairs", f"untested:{which}"))
                    if key not in [k for k, _ in cl]:
                        problems.append(("edge-exclusive", appended[0].node, f"a reported pair does not claim {key} in `{occ_name}`: a later candidate can reuse the {which} residue's edge", f"unclaimed:{which}"))
                for k, e in cl:
                    if k in mixed:
                        problems.append(("edge-exclusive", e.node, f"`{e.text()[:70]}` pairs a residue with the other residue's edge", f"mixed:{k}"))
                if any(n < need for n in feas):
                    problems.append(("select-min-contacts", appended[0].node, f"a pair can be reported with {min(feas)} contact(s) (count decisions on the path: {cnt_dec or 'none'}); the statement needs at least {need}", "min-contacts"))
                if all(occ.get(k) is False for k in keys):
                    for n in feas:
                        reported_for[n] = True
                if p.exit == "break":
                    problems.append(("select-extra-filter", appended[0].node, "the selection loop stops after reporting a pair: all remaining candidates are dropped (maximality)", "break-after-report"))
            else:
                if cl:
                    problems.append(("edge-exclusive", cl[0][1].node, f"`{cl[0][1].text()[:70]}` runs on a path that does not report the pair (decisions: {p.describe()[:5]}): the edge is blocked for later, well supported candidates although nothing uses it (maximality)", "claim-without-report"))
                too_few = all(n < need for n in feas)
                blocked = any(occ.get(k) is True for k in keys) or bool(set(some) & set(keys))
                if p.exit == "break":
                    # leaving the loop drops every later candidate: only sound when the reason is monotone along most_common()
                    only_count = all("count" in astq.names(n) for k, v, n in p.conds)
                    down_closed = all(all(mm in feas for mm in range(0, nn)) for nn in feas)
                    if not (only_count and too_few and down_closed and norm(src).endswith(".most_common()")):
                        kk = next((k for k, v, n in reversed(p.conds) if "count" not in astq.names(n)), p.conds[-1][0] if p.conds else "?")
                        problems.append(("select-extra-filter", sl, f"the selection loop is left by `break` when `{kk[:70]}`: every later candidate is dropped although it may have enough contacts and free edges (only a too-small count is monotone along most_common())", f"select-break:{kk[:50]}"))
                    continue
                if not too_few and not blocked:
                    other = [(k, v, n) for k, v, n in p.conds if "count" not in astq.names(n) and occ_name not in astq.names(n)]
                    whyc = other[-1] if other else (p.conds[-1] if p.conds else None)
                    problems.append(("select-extra-filter", whyc[2] if whyc else sl, f"a candidate with enough contacts and both edges free is dropped when `{whyc[0][:70] if whyc else '?'}` is {whyc[1] if whyc else '?'}: additional filter (maximality)", f"select-extra:{whyc[0][:60] if whyc else '?'}"))
    except intervals.NotThreshold as ex:
        chk.error("select-min-contacts", fi.site(sl), str(ex))
        return
    seen = set()
    for rule, node, msg, key in problems:
        if (rule, key) in seen:
            continue
        seen.add((rule, key))
        chk.violation(rule, fi.site(node), msg, K(fi, key))
    hit = {r for r, *_ in problems}
    if n_report == 0:
        chk.violation("select-record", fi.site(sl), "no path through the selection loop reports a pair", K(fi, "record"))
        return
    chk.ok("select-roles", fi.site(sl), "the label is read by position: (label[0], label[3]) and (label[1], label[4]) are the two (residue, edge) keys")
    if "edge-exclusive" not in hit:
        chk.ok("edge-exclusive", fi.site(sl), f"{len(paths)} paths: a pair is reported only after both (residue, edge) keys were tested free")
        chk.ok("edge-exclusive", fi.site(sl), "every reported pair claims both of its keys; no key is claimed on a path that does not report")
    if "select-extra-filter" not in hit:
        chk.ok("select-extra-filter", fi.site(sl), "a candidate is dropped only for too few contacts or an occupied edge (all non-reporting paths justified; `break` only on a count that is monotone along most_common())")
    if "select-min-contacts" not in hit:
        want = {n: n >= need for n in range(0, 6)}
        chk.expect(reported_for == want, "select-min-contacts", fi.site(sl), f"with free edges a label is reported iff it has at least {need} contacts (counts 0..5 evaluated)", f"the count threshold does not report exactly the labels with at least {need} contacts", K(fi, "min-contacts"), expected=want, found=reported_for)
    binds = astq.assignments(nfi.node, occ_name)
    init = [v for s, v in binds if v is not None]
    inside = [s for s, v in binds if any(s is n for n in ast.walk(sl))]
    if inside:
        chk.violation("edge-exclusive", fi.site(inside[0]), f"`{occ_name}` is re-initialised inside the selection loop: edges claimed by earlier pairs are forgotten", K(fi, "occupied-init"))
    elif len(binds) == 1 and init and norm(init[0]) in ("set()", "set([])"):
        chk.ok("edge-exclusive", fi.where, f"{occ_name} starts empty, once, before the selection")
    else:
        chk.error("edge-exclusive", fi.where, f"initialisation of `{occ_name}` not recognised")
    # the record: (first residue, second residue, LeontisWesthof[c/t + edge of first + edge of second])
    recs = {norm(e.args[0]): e for p in paths for e in p.effects if e.recv == out_list and e.method == "append" and e.args}
    for text, e in recs.items():
        t = e.args[0]
        ok = isinstance(t, ast.Tuple) and len(t.elts) == 3
        parts = None
        if ok:
            b = astq.match(t.elts[2], "LeontisWesthof[X_]")
            parts = str_parts(b["X_"]) if b else None
        if ok and [norm(t.elts[0]), norm(t.elts[1])] == ["label[0]", "label[1]"] and parts == ["label[2]", "label[3]", "label[4]"]:
            chk.ok("select-class", fi.site(e.node), "class = LeontisWesthof[c/t + edge of first + edge of second]")
            chk.ok("select-record", fi.site(e.node), "pair recorded as (first residue, second residue, class)")
        elif ok and parts is not None and sorted(parts) == ["label[2]", "label[3]", "label[4]"] and {norm(t.elts[0]), norm(t.elts[1])} == {"label[0]", "label[1]"} and parts[0] == "label[2]":
            chk.violation("select-class", fi.site(e.node), f"recorded pair `{text[:100]}` gives the edges to the wrong residues", K(fi, "lw"), found=text)
        else:
            chk.violation("select-record", fi.site(e.node), f"recorded pair is `{text[:100]}`, not (first residue, second residue, LeontisWesthof[c/t + edges])", K(fi, "record"), found=text)


# ---------------------------------------------------------------------------------------------------------------------
# find_pairs: angle window (accept region of the recorded hydrogen bonds)
# ---------------------------------------------------------------------------------------------------------------------
def _conj(conds: Sequence[Tuple[str, bool, ast.AST]]) -> ast.expr:
    vals = [copy.deepcopy(n) if v else ast.UnaryOp(op=ast.Not(), operand=copy.deepcopy(n)) for k, v, n in conds]
    if not vals:
        return ast.Constant(value=True)
    return vals[0] if len(vals) == 1 else ast.BoolOp(op=ast.And(), values=vals)


def _disj(parts: List[ast.expr]) -> ast.expr:
    if not parts:
        return ast.Constant(value=False)
    return parts[0] if len(parts) == 1 else ast.BoolOp(op=ast.Or(), values=parts)


def unit_of(e: ast.expr) -> Optional[ast.expr]:
    """V when e is V / numpy.linalg.norm(V) (the unit vector along V)"""
    if isinstance(e, ast.BinOp) and isinstance(e.op, ast.Div) and isinstance(e.right, ast.Call) and norm(e.right.func) in ("numpy.linalg.norm", "np.linalg.norm") and len(e.right.args) == 1 and norm(e.right.args[0]) == norm(e.left):
        return e.left
    return None


def angle_quantity(x: ast.AST, units: Sequence[str]) -> Optional[Tuple[str, str, str]]:
    """(unit, first operand, second operand) when x measures the angle between two directions:
         angle_between_vectors(a, b)                      the angle in radians            ('rad')
         numpy.dot(a, b) with a, b unit vectors           its cosine                      ('cos')
    `units` lists the operand texts known to be unit vectors (base normals); V / |V| is one by construction and is shown as V."""
    if not isinstance(x, ast.Call) or len(x.args) != 2 or x.keywords:
        return None
    if astq.callee_name(x) == "angle_between_vectors":
        return "rad", norm(x.args[0]), norm(x.args[1])
    if norm(x.func) in ("numpy.dot", "np.dot"):
        ops = []
        for a in x.args:
            u = unit_of(a)
            if u is not None:
                ops.append(norm(u))
            elif norm(a) in units or (isinstance(a, ast.UnaryOp) and isinstance(a.op, ast.USub) and norm(a.operand) in units):
                ops.append(norm(a))
            else:
                return None
        return "cos", ops[0], ops[1]
    return None


def check_angles(chk, fi: FuncInfo, m: PairsModel, fold, c: Dict[str, Any]) -> None:
    from sa import intervals

    NORMALS = ("residue_i.base_normal_vector", "residue_j.base_normal_vector")
    VECS = ("atom_i.coordinates - atom_j.coordinates", "atom_j.coordinates - atom_i.coordinates")

    def quantities(n: ast.AST) -> List[Tuple[ast.Call, Tuple[str, str, str]]]:
        out = []
        for x in ast.walk(n):
            q = angle_quantity(x, NORMALS)
            if q is not None and ({q[1], q[2]} & set(NORMALS)) and not ({q[1], q[2]} <= set(NORMALS)):
                out.append((x, q))
        return out

    def is_angle(n: ast.AST) -> bool:
        return bool(quantities(n))

    rec = [(p, e) for p in m.paths for e in p.effects if e.recv == m.hb and e.method == "append"]
    if not rec:
        raise NotReadable("no path records a hydrogen bond")
    site = rec[0][1].node
    alts = []
    calls: Dict[str, Tuple[ast.Call, Tuple[str, str, str]]] = {}
    for p, e in rec:
        cs = [(k, v, n) for k, v, n in p.conds if is_angle(n)]
        alts.append(_conj(cs))
        for k, v, n in cs:
            for x, q in quantities(n):
                calls[norm(x)] = (x, q)
    if not calls:
        chk.violation("angle-window", fi.site(site), "a hydrogen bond is recorded without any test of the angles between the contact vector and the base normals", K(fi, "angle-window"))
        return
    test = ast.fix_missing_locations(_disj(list({norm(a): a for a in alts}.values())))
    sig = sorted(calls)
    by_normal: Dict[str, List[Tuple[ast.Call, str]]] = {}
    vec_ok = True
    for x, (unit, a, b) in calls.values():
        nrm = a if a in NORMALS else b
        other = b if a in NORMALS else a
        vec_ok = vec_ok and other in VECS
        by_normal.setdefault(nrm, []).append((x, unit))
    normals = sorted(by_normal)
    chk.expect(
        normals == sorted(NORMALS) and vec_ok,
        "angle-operands",
        fi.site(site),
        "the two angles are taken between the contact vector and the normals of the two different residues" + (" (as cosines: dot products with the unit contact vector)" if any(u == "cos" for x, (u, a, b) in calls.values()) else ""),
        "the angle test does not use the normals of both residues against the contact vector atom_i - atom_j",
        K(fi, "angle-operands"),
        found=sig,
    )
    if len(normals) == 2:
        qs = []
        for t in normals:
            texts = {norm(x): unit for x, unit in by_normal[t]}
            units = set(texts.values())
            if len(units) != 1:
                chk.error("angle-window", fi.site(site), f"the angle to {t} is measured both as an angle and as a cosine")
                return
            qs.append(((lambda n, texts=texts: isinstance(n, ast.Call) and norm(n) in texts), units.pop()))
        lo, hi = c["hbond_angle_window_deg"]
        try:
            reg = intervals.region(test, qs, fold, extra_thresholds=(lo, hi, 0.0, 180.0))
            bad = {k: v for k, v in reg.items() if 0 <= k[0] <= 180 and 0 <= k[1] <= 180 and v != (lo < k[0] < hi and lo < k[1] < hi)}
            chk.expect(
                not bad,
                "angle-window",
                fi.site(site),
                f"a contact counts iff both angles lie in ({lo}, {hi}) degrees ({len(reg)} cells compared, accept condition read from {len(rec)} recording path(s))",
                (f"accept region of the angle test differs from ({lo}, {hi}) degrees on both normals: e.g. angles {sorted(bad)[0]} degrees are {'accepted' if bad[sorted(bad)[0]] else 'rejected'} (accept condition `{norm(test)[:120]}`)" if bad else ""),
                K(fi, "angle-window"),
                expected=f"{lo} < angle_i < {hi} and {lo} < angle_j < {hi} (degrees)",
                found={str(k): v for k, v in list(sorted(bad.items()))[:6]},
            )
        except intervals.NotThreshold as ex:
            chk.error("angle-window", fi.site(site), str(ex))


# ---------------------------------------------------------------------------------------------------------------------
# per-letter feasibility of a path
# ---------------------------------------------------------------------------------------------------------------------
LETTERS = ["A", "G", "C", "U", "T", "N"]


def letter_feasible(repo, module: str, conds: Sequence[Tuple[str, bool, ast.AST]], var: str, letter: str) -> bool:
    """False when a condition of the path that depends only on `<var>.one_letter_name` is contradicted by the letter."""
    for k, v, node in conds:
        names = {n.id for n in ast.walk(node) if isinstance(n, ast.Name)}
        if names != {var}:
            continue
        attrs = [n for n in ast.walk(node) if isinstance(n, ast.Attribute) and isinstance(n.value, ast.Name) and n.value.id == var]
        uses = [n for n in ast.walk(node) if isinstance(n, ast.Name) and n.id == var]
        if len(attrs) != len(uses) or any(a.attr != "one_letter_name" for a in attrs):
            continue
        try:
            val = bool(fold_for(repo, module, node, {var: _Res(letter)}))
        except Exception:
            continue
        if val != v:
            return False
    return True


def _find_atom_name(e: ast.expr, var: str) -> Optional[str]:
    b = astq.match(e, f"{var}.find_atom(X_)")
    if b and isinstance(b["X_"], ast.Constant) and isinstance(b["X_"].value, str):
        return b["X_"].value
    return None


def _module_lookup(fi: FuncInfo, e: ast.expr) -> bool:
    """`NAME[key]` / `NAME.get(key)` on a module-level container"""
    base = None
    if isinstance(e, ast.Subscript) and isinstance(e.value, ast.Name):
        base = e.value.id
    elif isinstance(e, ast.Call) and isinstance(e.func, ast.Attribute) and e.func.attr == "get" and isinstance(e.func.value, ast.Name):
        base = e.func.value.id
    return base is not None and base in fi.module.consts and base not in {a.arg for a in fi.node.args.args}


# ---------------------------------------------------------------------------------------------------------------------
# detect_cis_trans
# ---------------------------------------------------------------------------------------------------------------------
def check_cis_trans(chk, fi: FuncInfo, fold, c: Dict[str, Any]) -> None:
    from sa import intervals

    repo = chk.repo
    params = [a.arg for a in fi.node.args.args]
    if len(params) != 2:
        raise NotReadable("detect_cis_trans does not take two residues")
    ri, rj = params
    tables = two_way_tables(repo, fi.module.name)
    paths = SX.Executor(rewrite=lambda e: tables(idioms(e)), helpers=new_helpers(repo, fi)).run(fi.node.body)
    rets = [p for p in paths if p.exit in ("return", "fall")]
    letters_ret = {}
    stored = 0
    for p in rets:
        v = p.ret.value if isinstance(p.ret, ast.Constant) else ("<none>" if p.ret is None else None)
        if p.exit == "fall":
            v = None
            letters_ret.setdefault("None", []).append(p)
        elif isinstance(p.ret, ast.Constant):
            letters_ret.setdefault(repr(p.ret.value), []).append(p)
        elif _module_lookup(fi, p.ret):
            # an answer read back from a module-level container: what it holds was computed on the other paths (whether the key
            # identifies the computation is the cross-cutting rule memo-key-state)
            stored += 1
        else:
            raise NotReadable(f"detect_cis_trans returns `{norm(p.ret)[:60]}`")
    got = set(letters_ret) - {"None"}
    if got != {"'c'", "'t'"}:
        chk.violation("cis-trans", fi.where, f"detect_cis_trans returns {sorted(got)}, not 'c'/'t'", K(fi, "letters"))
        return

    def is_torsion(n: ast.AST) -> bool:
        return any(isinstance(x, ast.Call) and astq.callee_name(x) == "torsion_angle" for x in ast.walk(n))

    cpaths = letters_ret["'c'"]
    alts = {}
    tcalls: Dict[str, Tuple[ast.Call, SX.Path]] = {}
    for p in cpaths + letters_ret["'t'"]:
        for k, v, n in p.conds:
            if is_torsion(n):
                for x in ast.walk(n):
                    if isinstance(x, ast.Call) and astq.callee_name(x) == "torsion_angle":
                        tcalls.setdefault(norm(x), (x, p))
    for p in cpaths:
        a = _conj([(k, v, n) for k, v, n in p.conds if is_torsion(n)])
        alts[norm(a)] = a
    site = fi.node
    if not tcalls:
        chk.error("cis-trans", fi.where, "cis/trans decision does not depend on torsion_angle(...)")
        return
    test = ast.fix_missing_locations(_disj(list(alts.values())))
    lo, hi = c["cis_window_deg"]
    try:
        reg = intervals.region(test, [((lambda n: isinstance(n, ast.Call) and astq.callee_name(n) == "torsion_angle"), "rad")], fold, extra_thresholds=(lo, hi, -180.0, 180.0))
        bad = {k: v for k, v in reg.items() if -180 <= k[0] <= 180 and v != (lo < k[0] < hi)}
        chk.expect(not bad, "cis-trans", fi.where, f"'c' iff the C1'-N...N-C1' torsion lies in ({lo}, {hi}) degrees (accept condition read from {len(cpaths)} path(s) returning 'c')", f"cis/trans boundary is not +-90 degrees of the glycosidic-bond torsion (`{norm(test)[:100]}` after unit conversion)", K(fi, "boundary"), expected=f"c iff {lo} < torsion_deg < {hi}", found={str(k): v for k, v in list(bad.items())[:5]})
    except intervals.NotThreshold as ex:
        chk.error("cis-trans", fi.where, str(ex))
    # atoms of the torsion, per pair of base letters
    bad_atoms = {}
    unresolved = None
    n_eval = 0
    for text, (call, p0) in tcalls.items():
        if len(call.args) != 4:
            chk.error("cis-trans-atoms", fi.where, "torsion_angle is not called with four atoms")
            return
    for p in cpaths + letters_ret["'t'"]:
        calls_p = {norm(x): x for k, v, n in p.conds for x in ast.walk(n) if isinstance(x, ast.Call) and astq.callee_name(x) == "torsion_angle"}
        for text, call in calls_p.items():
            sides = []
            for a in call.args:
                s_i, s_j = _find_atom_name(a, ri), _find_atom_name(a, rj)
                sides.append((ri, s_i) if s_i is not None else ((rj, s_j) if s_j is not None else None))
            if None in sides:
                unresolved = text
                continue
            for Li in LETTERS:
                if not letter_feasible(repo, fi.module.name, p.conds, ri, Li):
                    continue
                for Lj in LETTERS:
                    if not letter_feasible(repo, fi.module.name, p.conds, rj, Lj):
                        continue
                    n_eval += 1
                    nn = lambda L: "N9" if L in "AG" else "N1"
                    wa = [(ri, "C1'"), (ri, nn(Li)), (rj, nn(Lj)), (rj, "C1'")]
                    wb = [(rj, "C1'"), (rj, nn(Lj)), (ri, nn(Li)), (ri, "C1'")]
                    if sides not in (wa, wb):
                        bad_atoms[f"{Li}-{Lj}"] = [f"{s[0]}:{s[1]}" for s in sides]
    if unresolved is not None and not bad_atoms:
        chk.error("cis-trans-atoms", fi.where, f"torsion atoms of `{unresolved[:100]}` not resolved to find_atom(<name>) of one residue")
    else:
        chk.expect(
            not bad_atoms,
            "cis-trans-atoms",
            fi.where,
            f"torsion over C1'(i) - N9/N1(i) - N9/N1(j) - C1'(j); N9 for A/G, N1 for C/U/T/other ({n_eval} letter pairs x paths evaluated)",
            "the cis/trans torsion is not taken over C1'(i), N9|N1(i), N9|N1(j), C1'(j) with N9 for purines (A, G) and N1 otherwise",
            K(fi, "torsion-atoms"),
            expected="C1'(i), N9|N1(i), N9|N1(j), C1'(j)",
            found=dict(list(bad_atoms.items())[:6]),
        )


# ---------------------------------------------------------------------------------------------------------------------
# Residue3D.base_normal_vector
# ---------------------------------------------------------------------------------------------------------------------
TRIPLE = {True: ("N9", "N7", "N3"), False: ("N1", "C4", "O2")}


def check_base_normal(chk, fi: FuncInfo) -> None:
    repo = chk.repo

    class _ClassConst(ast.NodeTransformer):
        """Residue3D.<table> / self.<table> with a class-level tuple or list of names -> the literal"""

        def visit_Attribute(self, n: ast.Attribute):
            self.generic_visit(n)
            if isinstance(n.value, ast.Name) and n.value.id in ("Residue3D", "self", "cls") and isinstance(n.ctx, ast.Load):
                try:
                    e = repo.class_attr_expr(fi.module.name, "Residue3D", n.attr)
                except Exception:
                    return n
                if isinstance(e, (ast.Tuple, ast.List)) and all(isinstance(x, ast.Constant) for x in e.elts):
                    return copy.deepcopy(e)
            return n

    tables = two_way_tables(repo, fi.module.name)

    def rw(e: ast.expr) -> ast.expr:
        return SX._simplify(_ClassConst().visit(tables(idioms(e))))

    paths = SX.Executor(rewrite=rw).run(fi.node.body)
    def unread(node: ast.AST) -> bool:
        return any(SX.is_elem(x) is not None or SX.is_opaque(x) or isinstance(x, (ast.ListComp, ast.GeneratorExp)) for x in ast.walk(node))

    for p in paths:
        # decisions about the three reference atoms must be readable; the value matters only where all three were found
        # (where one is missing any value other than None is already the finding)
        pass
    n_eval = 0
    problems: Dict[str, str] = {}
    for p in paths:
        if p.exit == "raise":
            continue
        ret = p.ret if p.exit == "return" else ast.Constant(value=None)
        for L in LETTERS:
            if not letter_feasible(repo, fi.module.name, p.conds, "self", L):
                continue
            n_eval += 1
            o, t1, t2 = TRIPLE[L in "AG"]
            missing = [a for a in (o, t1, t2) if p.value_of(f"self.find_atom('{a}') is None") is True or p.value_of(f'self.find_atom("{a}") is None') is True]
            present = [a for a in (o, t1, t2) if p.value_of(f"self.find_atom('{a}') is None") is False]
            is_none = isinstance(ret, ast.Constant) and ret.value is None
            if missing:
                if not is_none:
                    problems.setdefault(f"{L}: {missing[0]} missing", f"returns `{norm(ret)[:90]}` instead of None")
                continue
            # from here on the decisions about the three reference atoms must be readable
            for k, v, node in p.conds:
                if "find_atom" in k and unread(node):
                    raise NotReadable(f"base_normal_vector: `{k[:70]}` is not resolved to atoms fetched by constant names")
            if is_none:
                why = [(k, v) for k, v, _ in p.conds if "one_letter_name" not in k][-1:] or "unconditionally"
                problems.setdefault(f"{L}: no normal", f"returns None although {o}, {t1}, {t2} were not found missing (decision: {why})")
                continue
            if unread(ret):
                raise NotReadable(f"base_normal_vector: `{norm(ret)[:70]}` is not resolved to atoms fetched by constant names")
            cross = f"numpy.cross(self.find_atom('{t1}').coordinates - self.find_atom('{o}').coordinates, self.find_atom('{t2}').coordinates - self.find_atom('{o}').coordinates)"
            want = f"{cross} / numpy.linalg.norm({cross})"
            if norm(ret) != want:
                problems.setdefault(f"{L}: normal", f"`{norm(ret)[:160]}`")
            elif len(present) != 3:
                problems.setdefault(f"{L}: unchecked", f"the normal is computed without testing that {sorted(set((o, t1, t2)) - set(present))} were found")
    if n_eval == 0:
        raise NotReadable("base_normal_vector: no path evaluable per base letter")
    chk.expect(
        not problems,
        "base-normal",
        fi.where,
        f"base normal = unit cross product of (N7-N9, N3-N9) for purines, (C4-N1, O2-N1) otherwise, None iff one of the three atoms is missing ({n_eval} (path, base letter) cases evaluated)",
        f"the base normal is not the unit cross product of the two in-plane vectors N9->N7, N9->N3 (purines) / N1->C4, N1->O2 (others), or is not None exactly when one of these atoms is missing: {dict(list(problems.items())[:4])}",
        K(fi, "normal"),
        found=dict(list(problems.items())[:8]),
    )
